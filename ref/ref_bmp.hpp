// Reference indexed-BMP encoder/decoder (DESIGN.md appendix A), flat byte vectors; independent of src/Bitmap/*.
#pragma once
#include "mc/mc.hpp"
#include "ref_vol.hpp"   // Field
#include <string>
#include <vector>

namespace ref {

struct RColor { uint8_t r = 0, g = 0, b = 0, a = 0; bool operator==(const RColor& o) const { return r == o.r && g == o.g && b == o.b && a == o.a; } };

struct RBmp {
	int depth = 8;
	int32_t width = 0, height = 0;          // height < 0: top-down
	uint32_t usedColors = 0;                // 0 = full palette of 2^depth entries
	uint32_t importantColors = 0;
	std::vector<RColor> palette;            // entries stored in the file (file order blue, green, red, alpha handled by encoder)
	std::vector<uint8_t> rows;              // |height| rows of pitch() bytes, file row order
	uint32_t gapBeforePixels = 0;           // unused bytes between the colour table and the pixel array (the pixel offset field accounts for them)
	bool fillImageSize = false;             // the optional image size field holds the pixel array size instead of 0

	static uint64_t pitchOf(int depth, int64_t width) { uint64_t bytes = (uint64_t(width) * uint64_t(depth) + 7) / 8; return (bytes + 3) & ~uint64_t(3); }
	static uint64_t rowBytesOf(int depth, int64_t width) { return (uint64_t(width) * uint64_t(depth) + 7) / 8; }
	uint64_t pitch() const { return pitchOf(depth, width); }
	uint64_t rowBytes() const { return rowBytesOf(depth, width); }
	uint64_t absHeight() const { return height < 0 ? uint64_t(-int64_t(height)) : uint64_t(height); }
	std::size_t paletteEntries() const { return usedColors ? usedColors : (std::size_t(1) << depth); }
};

// standard colour order in a BMP palette entry: blue, green, red, reserved
inline std::vector<uint8_t> encodeBmp(const RBmp& b, std::vector<Field>* f = nullptr)
{
	std::vector<uint8_t> v;
	auto F = [&](int w, const std::string& n) { if (f) f->push_back({ v.size(), w, n }); };
	uint32_t pixelOffset = 14 + 40 + uint32_t(b.palette.size()) * 4 + b.gapBeforePixels;
	mc::putStr(v, "BM");
	F(4, "fileSize"); mc::put32(v, pixelOffset + uint32_t(b.rows.size()));
	F(2, "reserved1"); mc::put16(v, 0); F(2, "reserved2"); mc::put16(v, 0);
	F(4, "pixelOffset"); mc::put32(v, pixelOffset);
	F(4, "headerSize"); mc::put32(v, 40);
	F(4, "width"); mc::put32(v, uint32_t(b.width));
	F(4, "height"); mc::put32(v, uint32_t(b.height));
	F(2, "planes"); mc::put16(v, 1);
	F(2, "bitCount"); mc::put16(v, uint16_t(b.depth));
	F(4, "compression"); mc::put32(v, 0);
	F(4, "imageSize"); mc::put32(v, b.fillImageSize ? uint32_t(b.rows.size()) : 0);
	F(4, "xResolution"); mc::put32(v, 0); F(4, "yResolution"); mc::put32(v, 0);
	F(4, "usedColors"); mc::put32(v, b.usedColors);
	F(4, "importantColors"); mc::put32(v, b.importantColors);
	for (auto& c : b.palette) { v.push_back(c.b); v.push_back(c.g); v.push_back(c.r); v.push_back(c.a); }
	for (uint32_t i = 0; i < b.gapBeforePixels; ++i) v.push_back(uint8_t(0xC1 + i));
	v.insert(v.end(), b.rows.begin(), b.rows.end());
	return v;
}

struct ParsedBmp { bool ok = false; std::string why; RBmp bmp; };

// strict decoder for files the library writes
inline ParsedBmp parseBmp(const std::vector<uint8_t>& v)
{
	ParsedBmp p; auto fail = [&](const std::string& w) { p.why = w; return p; };
	if (v.size() < 54) return fail("shorter than the headers");
	if (v[0] != 'B' || v[1] != 'M') return fail("signature");
	if (mc::get32(v, 2) != v.size()) return fail("file size field " + std::to_string(mc::get32(v, 2)) + " != " + std::to_string(v.size()));
	if (mc::get16(v, 6) || mc::get16(v, 8)) return fail("reserved fields");
	uint32_t off = mc::get32(v, 10);
	if (mc::get32(v, 14) != 40) return fail("info header size");
	RBmp& b = p.bmp;
	b.width = int32_t(mc::get32(v, 18)); b.height = int32_t(mc::get32(v, 22));
	if (mc::get16(v, 26) != 1) return fail("planes");
	b.depth = mc::get16(v, 28);
	if (b.depth != 1 && b.depth != 4 && b.depth != 8) return fail("depth");
	if (mc::get32(v, 30) != 0) return fail("compression");
	b.usedColors = mc::get32(v, 46); b.importantColors = mc::get32(v, 50);
	if (b.usedColors > (1u << b.depth)) return fail("used colours");
	std::size_t n = b.paletteEntries();
	if (off != 54 + 4 * n) return fail("pixel offset " + std::to_string(off) + " != headers + palette " + std::to_string(54 + 4 * n));
	if (b.width < 0) return fail("negative width");
	uint64_t need = b.pitch() * b.absHeight();
	if (uint64_t(off) + need != v.size()) return fail("pixel data size: file has " + std::to_string(v.size() - off) + ", pitch*|height| = " + std::to_string(need));
	for (std::size_t i = 0; i < n; ++i) { RColor c; c.b = v[54 + 4 * i]; c.g = v[55 + 4 * i]; c.r = v[56 + 4 * i]; c.a = v[57 + 4 * i]; b.palette.push_back(c); }
	b.rows.assign(v.begin() + off, v.end());
	p.ok = true;
	return p;
}

} // namespace ref
