#!/usr/bin/env python3
"""Driver behind run_check.sh: rebuilds the library and the harness from /repo's working tree,
runs the check binaries, applies known_findings.json, writes replays and the evidence file."""
import sys, os, json, hashlib, subprocess, time, fcntl, re, shutil, glob
from concurrent.futures import ThreadPoolExecutor

VERIF = os.path.dirname(os.path.dirname(os.path.abspath(__file__)))
REPO = os.environ.get('VERIF_REPO', '/repo')
BUILD = os.environ.get('VERIF_BUILD_ROOT', os.path.join(VERIF, 'build'))
EVIDENCE_DIR = os.environ.get('VERIF_EVIDENCE_DIR', os.path.join(VERIF, 'evidence'))
REPLAY_DIR = os.environ.get('VERIF_REPLAY_DIR', os.path.join(VERIF, 'replays'))
sys.path.insert(0, os.path.join(VERIF, 'mc'))
from registry import CHECKS  # noqa: E402

GUARD = 'OP2UTILITY_VERIF'
UBSAN = 'signed-integer-overflow,shift,integer-divide-by-zero,bounds,vla-bound,float-cast-overflow,bool,builtin,unreachable,return'
CONFIGS = {
    'asan': dict(cxx='g++', flags=['-O1', '-g', '-fno-omit-frame-pointer', '-fsanitize=address', '-fsanitize=' + UBSAN,
                                   '-fno-sanitize-recover=all', '-D_GLIBCXX_SANITIZE_VECTOR', '-fno-delete-null-pointer-checks']),
    'plain': dict(cxx='g++', flags=['-O2', '-g']),
    'fill0': dict(cxx='g++', flags=['-O0', '-g', '-ftrivial-auto-var-init=zero']),
    'fillfe': dict(cxx='g++', flags=['-O0', '-g', '-ftrivial-auto-var-init=pattern']),
    'fillaa': dict(cxx='clang++', flags=['-O0', '-g', '-ftrivial-auto-var-init=pattern']),
    'vg': dict(cxx='g++', flags=['-O0', '-g']),
}
COMMON = ['-std=c++17', '-D' + GUARD, '-Wno-unknown-pragmas', '-w']


def sha_files(paths):
    h = hashlib.sha256()
    for p in sorted(paths):
        h.update(p.encode()); h.update(b'\0')
        try:
            with open(p, 'rb') as f:
                h.update(f.read())
        except OSError:
            h.update(b'<missing>')
        h.update(b'\0')
    return h.hexdigest()


def repo_files():
    out = []
    for top in ('src', 'include'):
        for d, _, fs in os.walk(os.path.join(REPO, top)):
            for f in fs:
                if f.endswith(('.cpp', '.h', '.hpp')):
                    out.append(os.path.join(d, f))
    return sorted(out)


def run(cmd, **kw):
    return subprocess.run(cmd, stdout=subprocess.PIPE, stderr=subprocess.STDOUT, text=True, **kw)


class BuildError(Exception):
    pass


def build_lib(cfg):
    """(Re)compile the library TUs of /repo's working tree for this configuration.
    Every object carries a stamp = sha(TU content, all header contents, flags): a TU is recompiled iff its stamp differs."""
    c = CONFIGS[cfg]
    d = os.path.join(BUILD, cfg)
    os.makedirs(os.path.join(d, 'lib'), exist_ok=True)
    files = repo_files()
    rhash = sha_files(files)
    headers = [f for f in files if not f.endswith('.cpp')]
    hhash = sha_files(headers) + ' '.join([c['cxx']] + COMMON + c['flags'])
    with open(os.path.join(d, '.lock'), 'w') as lk:
        fcntl.flock(lk, fcntl.LOCK_EX)
        srcs = [f for f in files if f.endswith('.cpp') and f.startswith(os.path.join(REPO, 'src'))]
        objs = [os.path.join(d, 'lib', os.path.relpath(s, os.path.join(REPO, 'src')).replace('/', '__')[:-4] + '.o') for s in srcs]
        wanted = set(objs)
        for o in glob.glob(os.path.join(d, 'lib', '*.o')):
            if o not in wanted:
                os.unlink(o)
        todo = []
        for s_, o in zip(srcs, objs):
            st = hashlib.sha256((hhash + sha_files([s_])).encode()).hexdigest()
            sp = o + '.stamp'
            if not (os.path.exists(o) and os.path.exists(sp) and open(sp).read() == st):
                todo.append((s_, o, st))

        def comp(job):
            s_, o, st = job
            if os.path.exists(o + '.stamp'):
                os.unlink(o + '.stamp')
            r = run([c['cxx']] + COMMON + c['flags'] + ['-I' + os.path.join(REPO, 'src'), '-c', s_, '-o', o])
            if r.returncode == 0:
                with open(o + '.stamp', 'w') as f:
                    f.write(st)
            return (s_, r.returncode, r.stdout)
        if todo:
            with ThreadPoolExecutor(16) as ex:
                res = list(ex.map(comp, todo))
            bad = [r for r in res if r[1] != 0]
            if bad:
                raise BuildError('library does not compile (%s):\n%s' % (cfg, bad[0][2][-3000:]))
    return rhash, objs


def build_check(cid, cfg):
    spec = CHECKS[cid]
    c = CONFIGS[cfg]
    rhash, objs = build_lib(cfg)
    d = os.path.join(BUILD, cfg)
    hsrc = [os.path.join(VERIF, spec['src']), os.path.join(VERIF, 'mc', 'mc.cpp')]
    deps = hsrc + glob.glob(os.path.join(VERIF, 'mc', '*.hpp')) + glob.glob(os.path.join(VERIF, 'ref', '*.hpp')) + glob.glob(os.path.join(VERIF, 'checks', '*.hpp'))
    defs = spec.get('defs', [])
    hh = hashlib.sha256((rhash + sha_files(deps) + ' '.join(c['flags'] + defs)).encode()).hexdigest()
    exe = os.path.join(d, cid.lower())
    stamp = exe + '.stamp'
    with open(os.path.join(d, '.lock.' + cid), 'w') as lk:
        fcntl.flock(lk, fcntl.LOCK_EX)
        if os.path.exists(exe) and os.path.exists(stamp) and open(stamp).read() == hh:
            return exe
        if os.path.exists(stamp):
            os.unlink(stamp)
        mco = os.path.join(d, 'mc.%s.o' % cid)
        cmds = [
            [c['cxx']] + COMMON + c['flags'] + ['-I' + VERIF, '-c', hsrc[1], '-o', mco],
            [c['cxx']] + COMMON + c['flags'] + defs + ['-fno-access-control', '-I' + os.path.join(REPO, 'src'), '-I' + VERIF, '-c', hsrc[0], '-o', exe + '.o'],
        ]
        with ThreadPoolExecutor(2) as ex:
            rs = list(ex.map(run, cmds))
        for r in rs:
            if r.returncode != 0:
                raise BuildError('harness for %s does not compile against the current tree (%s):\n%s' % (cid, cfg, r.stdout[-4000:]))
        r = run([c['cxx']] + c['flags'] + [exe + '.o', mco] + objs + ['-lstdc++fs', '-lpthread', '-o', exe])
        if r.returncode != 0:
            raise BuildError('harness for %s does not link (%s):\n%s' % (cid, cfg, r.stdout[-4000:]))
        with open(stamp, 'w') as f:
            f.write(hh)
    return exe


def load_known():
    p = os.path.join(VERIF, 'known_findings.json')
    if not os.path.exists(p):
        return []
    return json.load(open(p)).get('findings', [])


def match_known(cid, v, known):
    for k in known:
        if k.get('status') != 'known' or k.get('property') != cid:
            continue
        if k.get('site') != v['site']:
            continue
        m = k.get('match')
        if m and not re.search(m, v.get('key', '')):
            continue
        return k
    return None


def main():
    if len(sys.argv) < 3:
        print('usage: run_check.sh <ID> quick|thorough | <ID> --replay <file>')
        return 2
    cid = sys.argv[1].upper()
    if cid not in CHECKS:
        print('unknown check', cid)
        return 2
    spec = CHECKS[cid]
    t0 = time.time()
    if sys.argv[2] == '--replay':
        rp = json.load(open(sys.argv[3]))
        try:
            exe = build_check(cid, rp.get('cfg', 'asan'))
        except BuildError as e:
            print('HARNESS-BUILD-FAILURE', e)
            return 2
        env = dict(os.environ)
        env.update(rp.get('env', {}))
        r = subprocess.run([exe, '--tier', rp['tier'], '--case', str(rp['case'])], env=env)
        return 1 if r.returncode != 0 else 0

    tier = sys.argv[2]
    if tier not in ('quick', 'thorough'):
        print('tier must be quick or thorough')
        return 2
    seed = int(os.environ.get('VERIF_SEED', '0') or 0)
    runs = [r for r in spec['runs'] if tier in r.get('tiers', ('quick', 'thorough'))]
    deadline = float(os.environ.get('VERIF_DEADLINE_S', spec.get('deadline_s', {}).get(tier, 1500 if tier == 'thorough' else 600)))
    all_viol, stats_list, notes = [], [], []
    for ri, r in enumerate(runs):
        cfg = r.get('cfg', 'asan')
        try:
            for pre in spec.get('prebuild', []):
                build_check(cid, pre)
            exe = build_check(cid, cfg)
        except BuildError as e:
            print('HARNESS-BUILD-FAILURE', e)
            return 2
        out = os.path.join(BUILD, 'out', cid, '%s.%d' % (tier, ri))
        shutil.rmtree(out, ignore_errors=True)
        os.makedirs(out)
        env = dict(os.environ)
        env.update(r.get('env', {}))
        env['VERIF_BUILD_DIR'] = BUILD
        remaining = max(30.0, deadline - (time.time() - t0))
        p = subprocess.run([exe, '--tier', tier, '--out', out, '--deadline', '%.0f' % remaining], env=env, stdout=subprocess.PIPE, stderr=subprocess.PIPE, text=True)
        sys.stdout.write(p.stdout)
        if p.stderr.strip():
            sys.stdout.write(p.stderr[-3000:])
        sp = os.path.join(out, 'stats.json')
        if p.returncode != 0 or not os.path.exists(sp):
            print('HARNESS-FAILURE: %s exited %d without statistics' % (exe, p.returncode))
            return 2
        st = json.load(open(sp))
        st['cfg'] = cfg
        st['env'] = r.get('env', {})
        stats_list.append(st)
        vp = os.path.join(out, 'violations.jsonl')
        if os.path.exists(vp):
            for line in open(vp, errors='replace'):
                line = line.strip()
                if not line:
                    continue
                try:
                    v = json.loads(line)
                except ValueError:
                    continue
                v['cfg'] = cfg
                v['env'] = r.get('env', {})
                v['tier'] = tier
                all_viol.append(v)

    known = load_known()
    seen_known, new = {}, []
    for v in all_viol:
        k = match_known(cid, v, known)
        if k is not None:
            seen_known.setdefault(k['site'] + '|' + k.get('match', ''), (k, 0))
            kk, n = seen_known[k['site'] + '|' + k.get('match', '')]
            seen_known[k['site'] + '|' + k.get('match', '')] = (kk, n + 1)
        else:
            new.append(v)
    # counters named violation:<site> give the full count even where records were capped
    total_viol = sum(s['violations'] for s in stats_list)
    for key, (k, n) in sorted(seen_known.items()):
        print('KNOWN-FINDING: property=%s %s [site %s]' % (cid, k.get('what', ''), k['site']))
    rc = 0
    rdir = os.path.join(REPLAY_DIR, cid)
    if new:
        shutil.rmtree(rdir, ignore_errors=True)
        os.makedirs(rdir, exist_ok=True)
        seen_sites = {}
        for i, v in enumerate(new):
            seen_sites[v['site']] = seen_sites.get(v['site'], 0) + 1
            if seen_sites[v['site']] > 3:
                continue
            path = os.path.join(rdir, '%03d.json' % i)
            v2 = dict(v); v2['property'] = cid
            json.dump(v2, open(path, 'w'), indent=1)
            print('VIOLATION property=%s replay=%s' % (cid, path))
            print('  site=%s key=%s' % (v['site'], v.get('key', '')[:300]))
            if v.get('kind') == 'crash':
                for ln in v.get('detail', '').splitlines()[:14]:
                    print('    | ' + ln[:220])
        rc = 1
    # violations that were counted but whose records were capped: make sure unknown sites are not lost
    known_sites = {k['site'] for k in known if k.get('status') == 'known' and k.get('property') == cid and not k.get('match')}
    recorded_sites = {v['site'] for v in all_viol}
    for s in stats_list:
        for name, n in s['counters'].items():
            if name.startswith('violation:'):
                site = name[len('violation:'):]
                if n > 0 and site not in recorded_sites and site not in known_sites:
                    path = os.path.join(rdir, 'unrecorded_%s.json' % hashlib.md5(site.encode()).hexdigest()[:8])
                    os.makedirs(rdir, exist_ok=True)
                    json.dump({'property': cid, 'site': site, 'note': 'violation counted but record capped', 'tier': tier}, open(path, 'w'))
                    print('VIOLATION property=%s replay=%s' % (cid, path))
                    rc = 1

    # ---- evidence ----
    def tot(k):
        return sum(s.get(k, 0) for s in stats_list)
    counters = {}
    for s in stats_list:
        for k, v in s['counters'].items():
            counters[k] = counters.get(k, 0) + v
    samples = []
    for s in stats_list:
        samples += s.get('samples', [])
    complete = all(s['complete'] for s in stats_list) and tot('caps_hit') == 0
    caps = sum((s.get('caps', []) for s in stats_list), [])
    ev = {
        'property_id': cid,
        'tier': tier,
        'seed': seed,
        'level': 'model_checking',
        'coverage': {
            'states': tot('states'),
            'transitions': tot('transitions'),
            'traces_validated_against_impl': tot('traces'),
            'samples': samples[:6] or ['(no sample recorded)'],
            'exhaustive': bool(complete),
            'evaluations': tot('cases_done'),
            'distinct_outcomes': tot('distinct_outcomes'),
            'cases_total': tot('cases'),
            'cases_done': tot('cases_done'),
            'caps_hit': caps,
            'bounds': spec.get('bounds', {}).get(tier, ''),
            'rule': spec.get('rule', ''),
            'clause_counters': {k: v for k, v in sorted(counters.items()) if not k.startswith('violation:')},
            'violation_counters': {k: v for k, v in sorted(counters.items()) if k.startswith('violation:')},
            'known_findings_observed': [k['site'] for k, _ in seen_known.values()],
            'unreproduced_deaths': tot('unreproduced_deaths'),
            'binaries': [{'cfg': s['cfg'], 'env': s['env'], 'cases': s['cases'], 'cases_done': s['cases_done'], 'wall_s': s['wall_s']} for s in stats_list],
            'slowest_cases': sum((s.get('slowest_cases', []) for s in stats_list), []),
            'explanation': spec.get('explanation', ''),
        },
        'assumptions': spec.get('assumptions', []),
        'wall_s': round(time.time() - t0, 2),
        'violations': len(new),
    }
    os.makedirs(EVIDENCE_DIR, exist_ok=True)
    json.dump(ev, open(os.path.join(EVIDENCE_DIR, cid + '.json'), 'w'), indent=1)
    # vacuity guard: clauses that must have been exercised
    missing = [c for c in spec.get('must_hit', {}).get(tier, spec.get('must_hit', {}).get('any', [])) if counters.get(c, 0) == 0]
    if missing and complete and rc == 0 and not seen_known:   # a violation may legitimately cut a clause's exercise short
        print('HARNESS-SELF-TEST-FAILURE: clauses never exercised: %s' % ', '.join(missing))
        return 2
    print('%s %s: states=%d transitions=%d cases=%d/%d outcomes=%d new_violations=%d known=%d exhaustive=%s wall=%.1fs' % (
        cid, tier, ev['coverage']['states'], ev['coverage']['transitions'], tot('cases_done'), tot('cases'), tot('distinct_outcomes'),
        len(new), len(seen_known), complete, ev['wall_s']))
    return rc


if __name__ == '__main__':
    sys.exit(main())
