// C01 - VOL pack, reopen, extract returns exactly the files that went in        (-DVOL_CHECK=1)
// C02 - written VOLs obey the format; format-conforming VOLs are read back    (-DVOL_CHECK=2)
// Shared state space: file sets built by "add file", every list order, several path spellings.
#include "mc/mc.hpp"
#include "ref/ref_vol.hpp"
#include "ref/ref_lzh.hpp"
#include "Archive/VolFile.h"
#include <memory>
#include <cctype>
#include <set>
#include <functional>
#include <algorithm>
#include <unistd.h>
#include <fcntl.h>
#include <sys/stat.h>

#ifndef VOL_CHECK
#define VOL_CHECK 1
#endif

using namespace OP2Utility;
using mc::Ctx;

namespace {

const char* kId = VOL_CHECK == 1 ? "C01" : "C02";
const std::vector<std::string> kNames = { "a", "B", "ab", "aB.txt", "a_b", "A-b", "a.b", "Z9", "b", "abcd", "abcde" };
const std::vector<uint32_t> kSizes = { 0, 1, 2, 3, 4, 5, 7, 8 };
const std::vector<uint32_t> kBig = { 0x1FFFF, 0x20000, 0x20001, 0x3FFFF, 0x40000, 0x40001 };
const std::vector<std::string> kDirs = { ".", "d1", "d2" };

struct FileDesc { int name; uint32_t size; int dir; int spelling; std::string customName; };
typedef std::vector<FileDesc> FileSet;

std::string nameOf(const FileDesc& f) { return f.customName.empty() ? kNames[f.name] : f.customName; }
uint32_t seedOf(const FileDesc& f) { return uint32_t(mc::fnv(nameOf(f)) ^ f.dir); }

std::vector<uint8_t> contentOf(const FileDesc& f)
{
	std::vector<uint8_t> v(f.size);
	uint32_t s = seedOf(f);
	for (uint32_t j = 0; j < f.size; ++j) v[j] = mc::contentByte(s, j);
	// every other file begins like a piece of the container format (a tag, then a length word with the flag bit): a reader or
	// writer that searches for tags instead of following the recorded offsets is misled by it
	if (s % 2 == 0) {
		static const char* tags[] = { "VBLK", "voli", "vols", "VOL ", "volh" };
		const char* t = tags[(s / 2) % 5];
		for (uint32_t j = 0; j < 4 && j < f.size; ++j) v[j] = uint8_t(t[j]);
		if (f.size >= 8) { v[4] = 3; v[5] = 0; v[6] = 0; v[7] = 0x80; }
	}
	return v;
}

std::string realPath(const FileDesc& f) { return kDirs[f.dir] == "." ? nameOf(f) : kDirs[f.dir] + "/" + nameOf(f); }

// spellings of the same file: plain, "./"-prefixed, doubled slash, "d/./f"
std::string spelled(const FileDesc& f)
{
	std::string d = kDirs[f.dir], n = nameOf(f);
	bool inDir = d != ".";
	switch (f.spelling) {
	case 1: return "./" + realPath(f);
	case 2: return inDir ? d + "//" + n : "./" + n;
	case 3: return inDir ? d + "/./" + n : n;
	default: return realPath(f);
	}
}

std::string describe(const FileSet& s)
{
	std::string r;
	for (auto& f : s) r += spelled(f) + ":" + std::to_string(f.size) + " ";
	return r;
}

bool ascendingFold(const std::vector<std::string>& names, bool lower)
{
	for (std::size_t i = 1; i < names.size(); ++i) if (ref::cmpFold(names[i - 1], names[i], lower) >= 0) return false;
	return true;
}

std::string swapCase(std::string s) { for (auto& c : s) { if (c >= 'a' && c <= 'z') c -= 32; else if (c >= 'A' && c <= 'Z') c += 32; } return s; }
std::string upper(std::string s) { for (auto& c : s) if (c >= 'a' && c <= 'z') c -= 32; return s; }
std::string lower(std::string s) { for (auto& c : s) if (c >= 'A' && c <= 'Z') c += 32; return s; }

struct Scenario {
	Ctx& ctx;
	std::string root;

	void bad(const std::string& clause, const FileSet& s, const std::string& d) { ctx.violation(std::string(kId) + "/" + clause, describe(s), d); }

	void materialise(const FileSet& s)
	{
		mc::removeTree(root); mc::makeDir(root);
		if (::chdir(root.c_str()) != 0) std::abort();
		for (auto& f : s) { if (kDirs[f.dir] != ".") mc::makeDir(kDirs[f.dir]); mc::writeFile(realPath(f), contentOf(f)); }
	}

	// full interrogation of one written archive (C01 clauses), and strict decode (C02 clause a)
	bool interrogate(const FileSet& s, const std::string& vol, const std::vector<uint8_t>& bytes)
	{
		std::map<std::string, const FileDesc*> byName;
		for (auto& f : s) byName[nameOf(f)] = &f;
#if VOL_CHECK == 2
		auto p = ref::parseVolStrict(bytes);
		ctx.count("written/strict-decodes");
		if (!p.ok) { bad("written-archive-not-well-formed", s, p.why); return false; }
		if (p.entries.size() != s.size()) { bad("written-archive-member-count", s, std::to_string(p.entries.size())); return false; }
		for (auto& e : p.entries) {
			auto it = byName.find(e.name);
			if (it == byName.end()) { bad("written-archive-unknown-name", s, e.name); return false; }
			if (e.kind != 0x100) { bad("written-archive-kind", s, e.name); return false; }
			if (e.stored != contentOf(*it->second)) { bad("written-archive-payload", s, e.name); return false; }
		}
		if (p.slots != s.size()) ctx.count("written/extra-slots");
		return true;
#else
		bool ok = true;
		auto o = mc::guarded([&] {
			Archive::VolFile v(vol);
			std::size_t k = s.size();
			if (v.GetCount() != k) { bad("count", s, std::to_string(v.GetCount())); ok = false; return; }
			std::vector<std::string> names;
			for (std::size_t i = 0; i < k; ++i) names.push_back(v.GetName(i));
			if (!ascendingFold(names, true)) { std::string all; for (auto& n : names) all += n + " "; bad("listing-order", s, all); ok = false; return; }
			mc::makeDir("xall"); mc::makeDir("xone");
			// extraction targets that already exist with longer content (first member): replaced, not overwritten in place
			if (k) { mc::writeFile("xall/" + names[0], std::vector<uint8_t>(byName.count(names[0]) ? byName[names[0]]->size + 5000 : 5000, 0xEE)); mc::writeFile("xone/i0", std::vector<uint8_t>(9000, 0xEE)); }
			v.ExtractAllFiles("xall");
			for (std::size_t i = 0; i < k; ++i) {
				auto it = byName.find(names[i]);
				if (it == byName.end()) { bad("member-name", s, names[i]); ok = false; return; }
				const FileDesc& f = *it->second;
				auto content = contentOf(f);
				if (v.GetSize(i) != f.size) { bad("member-size", s, names[i] + " " + std::to_string(v.GetSize(i))); ok = false; return; }
				if (v.GetCompressionCode(i) != Archive::CompressionType::Uncompressed) { bad("member-kind", s, names[i]); ok = false; return; }
				auto st = v.OpenStream(i);
				if (st->Length() != f.size || st->Position() != 0) { bad("stream-geometry", s, names[i] + " Length " + std::to_string(st->Length())); ok = false; return; }
				std::vector<uint8_t> got(f.size);
				st->Read(got.data(), got.size());
				uint8_t extra;
				if (got != content || st->ReadPartial(&extra, 1) != 0) { bad("stream-bytes", s, names[i]); ok = false; return; }
				if (mc::readFile("xall/" + names[i]) != content) { bad("extract-all-bytes", s, names[i]); ok = false; return; }
				static_cast<Archive::ArchiveFile&>(v).ExtractFile(names[i], "xone/" + names[i]);   // the by-name overload lives in the base class
				if (mc::readFile("xone/" + names[i]) != content) { bad("extract-by-name-bytes", s, names[i]); ok = false; return; }
				{
					// the by-name variant of the member stream (base-class overload), under a different spelling of the name
					auto sn = static_cast<Archive::ArchiveFile&>(v).OpenStream(i % 2 ? upper(names[i]) : lower(names[i]));   // any letter case (a leading ./ is the subject of C17, not of this property)
					std::vector<uint8_t> gn(std::size_t(sn->Length()));
					if (!gn.empty()) sn->Read(gn.data(), gn.size());
					if (gn != content) { bad("stream-by-name-bytes", s, names[i]); ok = false; return; }
				}
				v.ExtractFile(i, "xone/i" + std::to_string(i));
				if (mc::readFile("xone/i" + std::to_string(i)) != content) { bad("extract-by-index-bytes", s, names[i]); ok = false; return; }
				{
					// the same member again, directly after its extraction: stream, then extraction, then stream
					auto st2 = v.OpenStream(i);
					std::vector<uint8_t> g2(std::size_t(st2->Length()));
					if (!g2.empty()) st2->Read(g2.data(), g2.size());
					if (g2 != content) { bad("stream-after-extraction-bytes", s, names[i]); ok = false; return; }
					v.ExtractFile(i, "xone/again");
					if (mc::readFile("xone/again") != content) { bad("repeated-extraction-bytes", s, names[i]); ok = false; return; }
					auto st3 = v.OpenStream(i);
					std::vector<uint8_t> g3(std::size_t(st3->Length()));
					if (!g3.empty()) st3->Read(g3.data(), g3.size());
					if (g3 != content) { bad("stream-after-extraction-bytes", s, names[i]); ok = false; return; }
				}
				for (const std::string& q : { names[i], upper(names[i]), lower(names[i]), swapCase(names[i]) }) {
					if (!v.Contains(q)) { bad("lookup-contains", s, q); ok = false; return; }
					std::size_t idx = v.GetIndex(q);
					if (!ref::equalFold(v.GetName(idx), names[i])) { bad("lookup-index", s, q + " -> " + std::to_string(idx)); ok = false; return; }
				}
				ctx.transition(8);
			}
			if (k >= 2) {
				// all member streams alive at once, read alternately in small steps
				std::vector<std::unique_ptr<Stream::BidirectionalReader>> st;
				std::vector<std::vector<uint8_t>> got(k);
				for (std::size_t i = 0; i < k; ++i) st.push_back(v.OpenStream(i));
				bool more = true;
				while (more) {
					more = false;
					for (std::size_t i = k; i-- > 0;) {
						uint8_t buf[4096];
						std::size_t n = st[i]->ReadPartial(buf, st[i]->Length() > 64 ? 4096 : 1 + i % 3);
						got[i].insert(got[i].end(), buf, buf + n);
						if (n) more = true;
					}
				}
				for (std::size_t i = 0; i < k; ++i) if (got[i] != contentOf(*byName[names[i]])) { bad("interleaved-stream-bytes", s, names[i]); ok = false; return; }
				ctx.count("streams/interleaved");
			}
			ctx.count("interrogations");
		});
		if (o.cls != 'R') { bad("reopen-or-extract-throws", s, o.what); return false; }
		mc::removeTree("xall"); mc::removeTree("xone");
		return ok;
#endif
	}

#if VOL_CHECK == 1
	void refusal(const FileSet& s, const std::string& volPath, bool preexistingOutput, const std::string& clause);
#endif
	void packAllOrders(const FileSet& s)
	{
		for (std::size_t i = 0; i < s.size(); ++i) for (std::size_t j = i + 1; j < s.size(); ++j) if (ref::equalFold(nameOf(s[i]), nameOf(s[j]))) {
			// e.g. "B" and "b": not a valid input set; creation must be refused
#if VOL_CHECK == 1
			refusal(s, "out.vol", (s[i].size & 1) != 0, "duplicate-names-ignoring-case");
#endif
			return;
		}
		materialise(s);
		std::vector<int> perm(s.size());
		for (std::size_t i = 0; i < perm.size(); ++i) perm[i] = int(i);
		std::vector<std::vector<int>> orders;
		if (s.size() <= 3) { do orders.push_back(perm); while (std::next_permutation(perm.begin(), perm.end())); }
		else {
			for (std::size_t r = 0; r < 4 && r < s.size(); ++r) { auto p = perm; std::rotate(p.begin(), p.begin() + r, p.end()); orders.push_back(p); }
			auto p = perm; std::reverse(p.begin(), p.end()); orders.push_back(p);
		}
		std::vector<uint8_t> first;
		for (std::size_t oi = 0; oi < orders.size(); ++oi) {
			std::vector<std::string> list;
			for (int i : orders[oi]) list.push_back(spelled(s[i]));
			std::string vol = "out" + std::to_string(oi) + ".vol";
			// the destination may already exist and be longer than the new archive (first order of every set): it is replaced, not overwritten in place
			if (oi == 0) { mc::writeFile(vol, std::vector<uint8_t>(first.size() + 70000, 0xEE)); ctx.count("create/over-existing-longer-file"); }
			auto o = mc::guarded([&] { Archive::VolFile::CreateArchive(vol, list); });
			ctx.transition();
			if (o.cls != 'R') { bad("create-refused-valid-set", s, "order " + std::to_string(oi) + ": " + o.what); return; }
			auto bytes = mc::readFile(vol);
			if (oi == 0) { first = bytes; if (!interrogate(s, vol, bytes)) return; }
			else if (bytes != first) { ctx.count("orders/bytes-differ"); if (!interrogate(s, vol, bytes)) return; }
			else ctx.count("orders/identical-archives");
			::unlink(vol.c_str());
		}
		ctx.state();
		ctx.trace();
		ctx.outcome(mc::fnv(first.data(), std::min<std::size_t>(first.size(), 4096)));
	}
};

#if VOL_CHECK == 1
	// creation must be refused and nothing that existed may change
	void Scenario::refusal(const FileSet& s, const std::string& volPath, bool preexistingOutput, const std::string& clause)
	{
		materialise(s);
		if (preexistingOutput) {
			auto slash = volPath.rfind('/');
			if (slash != std::string::npos) mc::makeDir(volPath.substr(0, slash));
			struct stat st;
			if (::stat(volPath.c_str(), &st) != 0) mc::writeFile(volPath, "SENTINEL-OUTPUT", 15);
		}
		uint64_t before = mc::hashTree(root);
		std::vector<std::string> list;
		for (auto& f : s) list.push_back(spelled(f));
		auto o = mc::guarded([&] { Archive::VolFile::CreateArchive(volPath, list); });
		uint64_t after = mc::hashTree(root);
		ctx.transition();
		ctx.count(("refusal/" + clause).c_str());
		std::string key = "CreateArchive(" + volPath + ", {" + describe(s) + "})";
		if (o.cls == 'R') ctx.violation(std::string(kId) + "/refusal/" + clause + "/accepted", key, after == before ? "returned normally" : "returned normally and changed existing files");
		else if (after != before) ctx.violation(std::string(kId) + "/refusal/" + clause + "/existing-file-modified", key, "refused with: " + o.what);
		ctx.state(); ctx.trace();
	}
#endif

// ------------------------------------------------------------------------------------------------
// enumeration of file sets
// ------------------------------------------------------------------------------------------------
std::vector<FileSet> gSets;
struct Extra { int kind; };
std::vector<Extra> gExtras;
const std::size_t kChunk = 48;

void addSet(const std::vector<int>& names, const std::vector<uint32_t>& sizes)
{
	FileSet s;
	std::size_t salt = gSets.size();
	for (std::size_t i = 0; i < names.size(); ++i) s.push_back({ names[i], sizes[i], int((salt + i * 2) % 3), int((salt / 3 + i) % 4), "" });
	gSets.push_back(s);
}

void forSubsets(int n, int k, const std::function<void(const std::vector<int>&)>& f)
{
	std::vector<int> idx(k);
	std::function<void(int, int)> rec = [&](int start, int d) {
		if (d == k) { f(idx); return; }
		for (int i = start; i < n; ++i) { idx[d] = i; rec(i + 1, d + 1); }
	};
	rec(0, 0);
}

// all size vectors of length k with at most maxDev entries away from the default size
void forSizes(int k, int maxDev, const std::function<void(const std::vector<uint32_t>&)>& f)
{
	std::vector<uint32_t> sz(k, kSizes[3]);
	std::function<void(int, int)> rec = [&](int pos, int dev) {
		if (pos == k) { f(sz); return; }
		for (uint32_t v : kSizes) {
			bool isDev = v != kSizes[3];
			if (isDev && dev == maxDev) continue;
			sz[pos] = v; rec(pos + 1, dev + (isDev ? 1 : 0));
		}
		sz[pos] = kSizes[3];
	};
	rec(0, 0);
}

void build(Ctx& ctx)
{
	gSets.clear(); gExtras.clear();
	int N = int(kNames.size());
	gSets.push_back({});   // the empty set
	forSubsets(N, 1, [&](const std::vector<int>& n) { forSizes(1, 1, [&](const std::vector<uint32_t>& s) { addSet(n, s); }); });
	forSubsets(N, 2, [&](const std::vector<int>& n) { forSizes(2, 2, [&](const std::vector<uint32_t>& s) { addSet(n, s); }); });
	if (ctx.thorough) {
		forSubsets(N, 3, [&](const std::vector<int>& n) { forSizes(3, 3, [&](const std::vector<uint32_t>& s) { addSet(n, s); }); });
		forSubsets(N, 4, [&](const std::vector<int>& n) { forSizes(4, 2, [&](const std::vector<uint32_t>& s) { addSet(n, s); }); });
	}
	else {
		// k = 3: every name triple with default sizes, and a 6-name core with <= 2 sizes off default
		// k = 3: every name triple with <= 2 sizes off default; k = 4: an 8-name core with <= 1 size off default
		forSubsets(N, 3, [&](const std::vector<int>& n) { forSizes(3, 2, [&](const std::vector<uint32_t>& s) { addSet(n, s); }); });
		forSubsets(8, 4, [&](const std::vector<int>& n) { forSizes(4, 1, [&](const std::vector<uint32_t>& s) { addSet(n, s); }); });
	}
	// sizes around the 128 KiB copy chunk
	for (uint32_t b : kBig) addSet({ 2 }, { b });
	if (ctx.thorough) { for (uint32_t b1 : kBig) for (uint32_t b2 : kBig) addSet({ 0, 3 }, { b1, b2 }); for (uint32_t b : kBig) for (uint32_t s : kSizes) addSet({ 1, 5, 9 }, { s, b, 3 }); }
	else { addSet({ 0, 3 }, { kBig[1], kBig[2] }); addSet({ 0, 3 }, { kBig[5], 1 }); addSet({ 1, 5, 9 }, { 2, kBig[0], 3 }); }
	// names that differ only in characters next to the letters in ASCII ([ { \ | ] } ^ ~ ` @), which a home-made case folding
	// confuses, and names at the length limit of the file system (255) and just below
	{
		auto custom = [&](std::vector<std::pair<std::string, uint32_t>> files) { FileSet s; int i = 0; for (auto& f : files) { s.push_back({ 0, f.second, i % 3, (i / 2) % 4, f.first }); ++i; } gSets.push_back(s); };
		custom({ { "t[1}", 3 }, { "T{1]", 5 } });
		custom({ { "x^", 1 }, { "x~", 2 }, { "X`", 4 }, { "x@", 7 } });
		custom({ { "a|b", 2 }, { "a\\b", 3 }, { "A]", 1 }, { "a}", 0 } });
		// inputs named like the destination with a suffix a writer might use for a temporary or backup copy (the sets are packed into out0.vol, out1.vol, ...)
		custom({ { "out0.vol.tmp", 9 }, { "out1.vol.tmp", 300 }, { "zz", 3 } });
		custom({ { "out0.vol.bak", 5 }, { "out0.vol~", 6 }, { "out0.vol.new", 7 }, { "out0.vol.part", 8 } });
		std::string l255(255, 'n'), l254(254, 'n'), l100(100, 'q');
		custom({ { l255, 5 } });
		custom({ { l254, 4 }, { l255, 3 }, { "a", 2 } });
		custom({ { l100, 1 }, { "b", 2 }, { l254 + "", 7 } });
	}
	// a 40-file set
	{
		FileSet s;
		for (int i = 0; i < 40; ++i) { std::string n = std::string(1, char((i % 2 ? 'a' : 'A') + i % 26)) + "f" + std::to_string(i * 7 % 40) + (i % 3 ? ".dat" : ""); s.push_back({ 0, uint32_t(i * 37 % 23), i % 3, i % 4, n }); }
		gSets.push_back(s);
	}
	// a 300-file set: the name table passes 4 KiB, the index table 4200 bytes
	{
		FileSet s;
		for (int i = 0; i < 300; ++i) {
			std::string n = std::string(1, char((i % 3 ? 'm' : 'M'))) + std::to_string((i * 77) % 300) + (i % 5 == 0 ? "_" : i % 5 == 1 ? "-" : "") + std::string(1, char('a' + i % 26)) + (i % 4 ? ".bin" : ".TXT");
			s.push_back({ 0, uint32_t(i * 13 % 37), i % 3, i % 4, n });
		}
		gSets.push_back(s);
	}
#if VOL_CHECK == 1
	gExtras.push_back({ 1000 });   // first: the longest case (about a second: 2 GiB of zeros copied between tmpfs files)
	for (int k = 0; k < 17; ++k) gExtras.push_back({ k });
#else
	gExtras.push_back({ 1000 });
	for (int k = 0; k < (ctx.thorough ? 64 : 16); ++k) gExtras.push_back({ k });
#endif
}

#if VOL_CHECK == 1
void refusalCase(Ctx& ctx, int k, Scenario& sc)
{
	auto F = [](int name, uint32_t size, int dir, int sp, const std::string& custom = "") { return FileDesc{ name, size, dir, sp, custom }; };
	switch (k) {
	// two inputs with names equal ignoring case (in different directories, or differing in case in one directory)
	case 0: sc.refusal({ F(2, 3, 1, 0), F(0, 4, 2, 0, "AB") }, "out.vol", false, "duplicate-names-ignoring-case"); break;
	case 1: sc.refusal({ F(2, 3, 0, 0), F(0, 4, 0, 0, "aB") }, "out.vol", true, "duplicate-names-ignoring-case"); break;
	case 2: sc.refusal({ F(2, 3, 1, 0), F(2, 5, 2, 1) }, "out.vol", true, "duplicate-names-ignoring-case"); break;
	case 3: sc.refusal({ F(0, 1, 0, 0), F(2, 3, 1, 0), F(8, 2, 0, 0), F(0, 4, 2, 0, "Ab") }, "sub/out.vol", false, "duplicate-names-ignoring-case"); break;
	// the output names one of the inputs
	case 4: sc.refusal({ F(0, 6, 0, 0, "x.vol"), F(0, 2, 0, 0) }, "x.vol", true, "output-is-an-input"); break;
	case 5: sc.refusal({ F(0, 6, 0, 0, "x.vol"), F(0, 2, 0, 0) }, "./x.vol", true, "output-is-an-input"); break;
	case 6: sc.refusal({ F(0, 6, 0, 1, "x.vol"), F(0, 2, 0, 0) }, "x.vol", true, "output-is-an-input"); break;
	case 7: sc.refusal({ F(0, 6, 0, 0, "x.vol"), F(0, 2, 0, 0) }, "X.VOL", false, "output-is-an-input-up-to-case"); break;
	case 8: sc.refusal({ F(0, 6, 0, 0, "x.vol") }, "./X.vol", false, "output-is-an-input-up-to-case"); break;
	case 9: sc.refusal({ F(0, 6, 1, 0, "x.vol"), F(0, 2, 0, 0) }, "d1/x.vol", true, "output-is-an-input-in-subdirectory"); break;
	case 10: sc.refusal({ F(0, 6, 1, 0, "x.vol"), F(0, 2, 0, 0) }, "./d1/x.vol", true, "output-is-an-input-in-subdirectory"); break;
	case 11: sc.refusal({ F(0, 6, 1, 1, "x.vol"), F(0, 2, 0, 0) }, "d1/x.vol", true, "output-is-an-input-in-subdirectory"); break;
	case 12: sc.refusal({ F(0, 6, 1, 0, "x.vol") }, "D1/X.VOL", false, "output-is-an-input-up-to-case"); break;
	// the same with the differently cased output already present as a file of its own (both spellings exist)
	case 13: sc.refusal({ F(0, 6, 0, 0, "x.vol"), F(0, 2, 0, 0) }, "X.VOL", true, "output-is-an-input-up-to-case"); break;
	case 14: sc.refusal({ F(0, 6, 0, 0, "x.vol") }, "./X.vol", true, "output-is-an-input-up-to-case"); break;
	case 15: sc.refusal({ F(0, 6, 1, 0, "x.vol"), F(0, 2, 0, 0) }, "D1/X.VOL", true, "output-is-an-input-up-to-case"); break;
	// a missing input: refused, and an existing output keeps its content
	default: {
		FileSet s = { F(0, 3, 0, 0), F(8, 2, 0, 0) };
		sc.materialise(s);
		mc::writeFile("out.vol", "SENTINEL-OUTPUT", 15);
		uint64_t before = mc::hashTree(sc.root);
		auto o = mc::guarded([&] { Archive::VolFile::CreateArchive("out.vol", { "a", "b", "missing.bin" }); });
		ctx.count("refusal/missing-input");
		if (o.cls == 'R') ctx.violation("C01/refusal/missing-input/accepted", "CreateArchive(out.vol,{a,b,missing.bin})", "");
		else if (mc::hashTree(sc.root) != before) ctx.violation("C01/refusal/missing-input/existing-file-modified", "CreateArchive(out.vol,{a,b,missing.bin})", o.what);
		ctx.state(); ctx.transition();
	}
	}
}
#else
// C02 (b): archives emitted by the reference encoder
void conformingCase(Ctx& ctx, int k, Scenario& sc)
{
	static const std::vector<std::string> names = { "a", "B", "ab", "aB.txt", "a_b", "A-b", "a.b", "Z9", "with space.txt", "UPPER123.TXT" };
	static const std::vector<uint32_t> sizes = { 0, 1, 3, 4, 5 };
	static const uint16_t kinds[4] = { 0x100, 0x103, 0x101, 0x102 };
	mc::removeTree(sc.root); mc::makeDir(sc.root);
	if (::chdir(sc.root.c_str()) != 0) std::abort();
	// dimension defaults and deviation enumeration: [count, name rotation, size idx, unused slots, garbage, extra pad, kind pattern]
	struct Cfg { int count, nameRot, sizeIdx, unused, garbage, pad, kindPat; };
	std::vector<Cfg> cfgs;
	const int maxDev = ctx.thorough ? 3 : 2;
	std::vector<int> dims = { 4, 10, 5, 3, 2, 3, 16 }, def = { 2, 0, 2, 0, 0, 0, 0 }, cur = def;
	std::function<void(std::size_t, int)> rec = [&](std::size_t d, int dev) {
		if (d == dims.size()) { cfgs.push_back({ cur[0], cur[1], cur[2], cur[3], cur[4], cur[5], cur[6] }); return; }
		for (int v = 0; v < dims[d]; ++v) { bool isDev = v != def[d]; if (isDev && dev == maxDev) continue; cur[d] = v; rec(d + 1, dev + isDev); }
		cur[d] = def[d];
	};
	rec(0, 0);
	std::size_t stride = ctx.thorough ? 64 : 16;
	for (std::size_t ci = std::size_t(k); ci < cfgs.size(); ci += stride) {
		const Cfg& c = cfgs[ci];
		std::vector<ref::VolMember> ms;
		std::vector<std::vector<uint8_t>> plain;
		for (int i = 0; i < c.count; ++i) {
			ref::VolMember m;
			m.name = names[(c.nameRot + i * 3) % names.size()];
			uint32_t sz = sizes[(c.sizeIdx + i) % sizes.size()];
			m.kind = kinds[(c.kindPat >> (2 * i)) & 3];
			std::vector<uint8_t> payload(sz);
			for (uint32_t j = 0; j < sz; ++j) payload[j] = mc::contentByte(uint32_t(ci * 4 + i), j);
			if (m.kind == 0x103) {
				std::vector<ref::LzhToken> toks; for (auto b : payload) toks.push_back(ref::Lit(b));
				// every other packed member consists of many distinct literals and no match: its stored form is longer than what it unpacks to
				if ((ci + std::size_t(i)) % 2 == 0) toks.push_back(ref::Match(3 + i, 1 + i));
				else for (int j = 0; j < 64; ++j) toks.push_back(ref::Lit(uint8_t(0x80 + 3 * j)));
				m.stored = ref::lzhEncode(toks);
				auto d = ref::lzhDecode(m.stored.data(), m.stored.size());
				if (m.stored.size() > d.out.size()) ctx.count("conforming/lzh-members-stored-longer-than-unpacked");
				plain.push_back(d.out); m.overrideIndexSize = true; m.indexSize = uint32_t(d.out.size());
			}
			else { m.stored = payload; plain.push_back(payload); }
			ms.push_back(m);
		}
		// conforming archives list their members in case-insensitive order
		std::vector<std::size_t> ord(ms.size()); for (std::size_t i = 0; i < ord.size(); ++i) ord[i] = i;
		std::sort(ord.begin(), ord.end(), [&](std::size_t a, std::size_t b) { return ref::cmpFold(ms[a].name, ms[b].name, true) < 0; });
		bool dup = false; for (std::size_t i = 1; i < ord.size(); ++i) if (ref::equalFold(ms[ord[i - 1]].name, ms[ord[i]].name)) dup = true;
		if (dup) continue;
		std::vector<ref::VolMember> sorted; std::vector<std::vector<uint8_t>> sortedPlain;
		for (auto i : ord) { sorted.push_back(ms[i]); sortedPlain.push_back(plain[i]); }
		ref::VolLayout lay; lay.unusedSlots = c.unused; lay.unusedGarbage = c.garbage; lay.extraStringPad = c.pad * 4;
		auto img = ref::encodeVol(sorted, lay);
		std::string key = "ref archive: members=" + std::to_string(c.count) + " unusedSlots=" + std::to_string(c.unused) + (c.garbage ? "(garbage)" : "") + " extraPad=" + std::to_string(c.pad * 4) + " kinds=" + std::to_string(c.kindPat) + " names:";
		for (auto& m : sorted) key += " '" + m.name + "'/" + std::to_string(m.stored.size());
		ctx.sub(key);
		auto strict = ref::parseVolStrict(img.bytes);
		if (!strict.ok) { ctx.violation("harness/reference-encoder-vs-strict-decoder", key, strict.why); continue; }
		mc::writeFile("ref.vol", img.bytes);
		ctx.state();
		auto bad = [&](const std::string& clause, const std::string& d) { ctx.violation("C02/conforming/" + clause, key, d); };
		auto o = mc::guarded([&] {
			Archive::VolFile v("ref.vol");
			if (v.GetCount() != sorted.size()) { bad("count", std::to_string(v.GetCount())); return; }
			for (std::size_t i = 0; i < sorted.size(); ++i) {
				ctx.transition(5);
				if (v.GetName(i) != sorted[i].name) { bad("name", v.GetName(i)); return; }
				uint32_t expSize = sorted[i].overrideIndexSize ? sorted[i].indexSize : uint32_t(sorted[i].stored.size());
				if (v.GetSize(i) != expSize) { bad("size", std::to_string(v.GetSize(i))); return; }
				if (uint16_t(v.GetCompressionCode(i)) != sorted[i].kind) { bad("kind", std::to_string(int(v.GetCompressionCode(i)))); return; }
				auto st = v.OpenStream(i);
				std::vector<uint8_t> got(std::size_t(st->Length()));
				st->Read(got.data(), got.size());
				if (got != sorted[i].stored) { bad("stored-payload", sorted[i].name + " got " + std::to_string(got.size()) + " bytes"); return; }
				std::string out = "x" + std::to_string(i);
				auto e = mc::guarded([&] { v.ExtractFile(i, out); });
				if (sorted[i].kind == 0x100 || sorted[i].kind == 0x103) {
					ctx.count(sorted[i].kind == 0x100 ? "conforming/stored-members" : "conforming/lzh-members");
					if (e.cls != 'R') { bad("extract-throws", sorted[i].name + ": " + e.what); return; }
					if (mc::readFile(out) != sortedPlain[i]) { bad("extracted-bytes", sorted[i].name); return; }
				}
				else { ctx.count("conforming/unsupported-kind-members"); if (e.cls == 'R') { bad("unsupported-kind-extracted", sorted[i].name); return; } }
				if (v.GetIndex(sorted[i].name) != i) { bad("lookup", sorted[i].name); return; }
			}
			if (c.unused) ctx.count("conforming/with-unused-slots");
			if (c.pad) ctx.count("conforming/with-extra-name-padding");
			ctx.trace();
		});
		if (o.cls != 'R') bad("open-or-query-throws", o.what);
		ctx.outcome(mc::fnv(img.bytes.data(), img.bytes.size()));
	}
}
#endif

std::size_t nChunks() { return (gSets.size() + kChunk - 1) / kChunk; }

// An archive larger than 2 GiB: the second member's block lies beyond offset 2^31 (every offset field is an unsigned 32-bit number).
//  C02: written sparse by the reference encoder (header and first block header, a hole, the second block), nothing is copied;
//  C01: really packed by the library from a sparse 2 GiB input.
void beyond2GiB(Ctx& ctx, Scenario& sc)
{
	mc::removeTree(sc.root); mc::makeDir(sc.root);
	if (::chdir(sc.root.c_str()) != 0) std::abort();
	const uint64_t N = 0x7FFFFFF0ull;
	std::vector<uint8_t> small; for (int i = 0; i < 43; ++i) small.push_back(uint8_t('a' + i % 26));
	std::string key = "members a_big.bin (2147483632 zero bytes) and b_small.txt (43 bytes)";
#if VOL_CHECK == 1
	{ int fd = ::open("a_big.bin", O_CREAT | O_TRUNC | O_WRONLY, 0644); if (fd < 0 || ::ftruncate(fd, off_t(N)) != 0) std::abort(); ::close(fd); }
	mc::writeFile("b_small.txt", small);
	auto oc = mc::guarded([&] { Archive::VolFile::CreateArchive("big.vol", { "b_small.txt", "a_big.bin" }); });
	ctx.transition();
	if (oc.cls != 'R') { ctx.violation("C01/beyond-2GiB/create-refused", key, oc.what); return; }
#else
	// three members: two of about 2 GiB and the small one, whose block header starts at 0xFFFFFFF8 - its data begins at offset 2^32
	std::vector<ref::VolMember> ms(3); ms[0].name = "a_big.bin"; ms[1].name = "b_big.bin"; ms[2].name = "c_small.txt"; ms[2].stored = small;
	auto img = ref::encodeVol(ms);
	auto fieldAt = [&](const std::string& n) { for (auto& f : img.fields) if (f.name == n) return f.offset; std::abort(); };
	const uint64_t H = img.blockOffsets[0];
	const uint64_t N1 = 0xFFFFFFF8ull - H - 16 - N;
	mc::set32(img.bytes, fieldAt("entry0.size"), uint32_t(N));
	mc::set32(img.bytes, fieldAt("block0.length+flag"), uint32_t(N) | 0x80000000u);
	mc::set32(img.bytes, fieldAt("entry1.size"), uint32_t(N1));
	mc::set32(img.bytes, fieldAt("block1.length+flag"), uint32_t(N1) | 0x80000000u);
	uint64_t second = H + 8 + N, third = second + 8 + N1;
	if (third != 0xFFFFFFF8ull) std::abort();
	mc::set32(img.bytes, fieldAt("entry1.blockOffset"), uint32_t(second));
	mc::set32(img.bytes, fieldAt("entry2.blockOffset"), uint32_t(third));
	{
		int fd = ::open("big.vol", O_CREAT | O_TRUNC | O_WRONLY, 0644); if (fd < 0) std::abort();
		std::size_t head = std::size_t(H) + 8;
		if (::pwrite(fd, img.bytes.data(), head, 0) != ssize_t(head)) std::abort();
		if (::pwrite(fd, img.bytes.data() + img.blockOffsets[1], 8, off_t(second)) != 8) std::abort();
		if (::pwrite(fd, img.bytes.data() + img.blockOffsets[2], img.bytes.size() - img.blockOffsets[2], off_t(third)) != ssize_t(img.bytes.size() - img.blockOffsets[2])) std::abort();
		::close(fd);
	}
	key = "members a_big.bin (2147483632 zero bytes), b_big.bin (about 2 GiB) and c_small.txt (43 bytes, data at offset 2^32)";
#endif
	ctx.sub(key);
	auto o = mc::guarded([&] {
		Archive::VolFile v("big.vol");
		const std::size_t last = VOL_CHECK == 1 ? 1 : 2;
		const std::string smallName = VOL_CHECK == 1 ? "b_small.txt" : "c_small.txt";
		if (v.GetCount() != last + 1 || v.GetName(0) != "a_big.bin" || v.GetName(last) != smallName) throw std::runtime_error("listing differs");
		if (v.GetSize(0) != N || v.GetSize(last) != small.size()) throw std::runtime_error("sizes " + std::to_string(v.GetSize(0)) + ", " + std::to_string(v.GetSize(last)));
		for (int byName = 0; byName < 2; ++byName) {
			Archive::ArchiveFile& av = v;
			std::string upper = smallName; for (auto& c : upper) c = char(std::toupper(static_cast<unsigned char>(c)));
			auto st = byName ? av.OpenStream(upper) : v.OpenStream(last);
			ctx.transition();
			std::vector<uint8_t> got(std::size_t(st->Length()));
			st->Read(got.data(), got.size());
			if (got != small) throw std::runtime_error("member stream of the member stored beyond 2 GiB differs");
		}
		v.ExtractFile(last, "x_small.txt");
		ctx.transition();
		if (mc::readFile("x_small.txt") != small) throw std::runtime_error("extraction of the member stored beyond 2 GiB differs");
		auto big = v.OpenStream(0);
		if (big->Length() != N) throw std::runtime_error("Length of the 2 GiB member stream " + std::to_string(big->Length()));
		uint8_t b[8] = { 1, 1, 1, 1, 1, 1, 1, 1 };
		big->Seek(N - 8); big->Read(b, 8);
		for (auto x : b) if (x) throw std::runtime_error("tail of the 2 GiB member differs");
	});
	if (o.cls != 'R') ctx.violation(std::string(kId) + "/beyond-2GiB/reopen-or-extract-throws", key, o.what);
	ctx.count("beyond-2GiB/archives");
	if (VOL_CHECK == 2 && o.cls == 'R') {
		// the second big member: its stream ends right in front of the third block header
		auto o2 = mc::guarded([&] { Archive::VolFile v("big.vol"); auto st = v.OpenStream(1); uint8_t b[8] = { 1, 1, 1, 1, 1, 1, 1, 1 }; st->Seek(st->Length() - 8); st->Read(b, 8); for (auto x : b) if (x) throw std::runtime_error("tail of the second 2 GiB member differs"); });
		if (o2.cls != 'R') ctx.violation(std::string(kId) + "/beyond-2GiB/reopen-or-extract-throws", key, o2.what);
	}
	ctx.state(); ctx.trace();
}

void runCase(std::size_t i, Ctx& ctx)
{
	Scenario sc{ ctx, ctx.scratch() + "/vol" };
	if (i < nChunks()) {
		for (std::size_t k = i * kChunk; k < std::min(gSets.size(), (i + 1) * kChunk); ++k) {
			ctx.sub("set " + std::to_string(k) + ": " + describe(gSets[k]));
			sc.packAllOrders(gSets[k]);
			if (k == 200) ctx.sample("file set " + describe(gSets[k]) + ": packed in every list order, reopened, every member listed/streamed/extracted/looked up");
		}
	}
	else {
		int k = gExtras[i - nChunks()].kind;
		if (k == 1000) { beyond2GiB(ctx, sc); if (::chdir("/") != 0) std::abort(); mc::removeTree(sc.root); return; }
#if VOL_CHECK == 1
		refusalCase(ctx, k, sc);
		if (k == 10) ctx.sample("refusal: CreateArchive(./d1/x.vol, {d1/x.vol, a}) must throw and leave d1/x.vol untouched");
#else
		conformingCase(ctx, k, sc);
		if (k == 0) ctx.sample("reference-encoded archive (sorted members, unused trailing slots, extra name-table padding, kinds stored/LZH/RLE/LZ) opened by VolFile");
#endif
	}
	if (::chdir("/") != 0) std::abort();
	mc::removeTree(sc.root);
}

} // namespace

int main(int argc, char** argv)
{
	mc::CheckDef def;
	def.id = kId;
	def.init = build;
	def.ncases = [](Ctx&) { return nChunks() + gExtras.size(); };
	def.run = runCase;
	def.describe = [](std::size_t i) { return i < nChunks() ? "file sets " + std::to_string(i * kChunk) + ".." : "extra case " + std::to_string(i - nChunks()); };
	def.caseTimeoutS = 300;
	def.fsizeLimit = std::size_t(5) << 30;   // the archives beyond 2 GiB and 4 GiB
	return mc::Main(argc, argv, def);
}
