// Shared by the PRT checks (C10, C11, C20): deep dump of an ArtFile, independent evaluation of the cross-field rules,
// reference structures from dimension vectors.
#pragma once
#include "mc/mc.hpp"
#include "ref/ref_prt.hpp"
#include "Sprite/ArtFile.h"
#include "Stream/MemoryReader.h"
#include "Stream/DynamicMemoryWriter.h"
#include <cstring>
#include <memory>
#include <string>
#include <vector>

namespace prtc {
using namespace OP2Utility;

inline std::string dump(const ArtFile& a)
{
	std::vector<uint8_t> v;
	mc::put32(v, uint32_t(a.palettes.size()));
	for (auto& p : a.palettes) for (auto& c : p) { v.push_back(c.red); v.push_back(c.green); v.push_back(c.blue); v.push_back(c.alpha); }
	mc::put32(v, uint32_t(a.imageMetas.size()));
	for (auto& m : a.imageMetas) { const uint8_t* p = reinterpret_cast<const uint8_t*>(&m); v.insert(v.end(), p, p + sizeof m); }
	mc::put32(v, uint32_t(a.animations.size()));
	for (auto& an : a.animations) {
		mc::put32(v, an.unknown);
		mc::put32(v, uint32_t(an.selectionRect.x1)); mc::put32(v, uint32_t(an.selectionRect.y1)); mc::put32(v, uint32_t(an.selectionRect.x2)); mc::put32(v, uint32_t(an.selectionRect.y2));
		mc::put32(v, uint32_t(an.pixelDisplacement.x)); mc::put32(v, uint32_t(an.pixelDisplacement.y)); mc::put32(v, an.unknown2);
		mc::put32(v, uint32_t(an.frames.size()));
		for (auto& f : an.frames) {
			uint8_t b0, b1; std::memcpy(&b0, &f.layerMetadata, 1); std::memcpy(&b1, &f.unknownBitfield, 1);
			v.push_back(b0); v.push_back(b1); v.push_back(f.optional1); v.push_back(f.optional2); v.push_back(f.optional3); v.push_back(f.optional4);
			mc::put32(v, uint32_t(f.layers.size()));
			for (auto& l : f.layers) { const uint8_t* p = reinterpret_cast<const uint8_t*>(&l); v.insert(v.end(), p, p + sizeof l); }
		}
		mc::put32(v, uint32_t(an.unknownContainer.size()));
		for (auto& u : an.unknownContainer) { const uint8_t* p = reinterpret_cast<const uint8_t*>(&u); v.insert(v.end(), p, p + sizeof u); }
	}
	mc::put32(v, a.unknownAnimationCount);
	return std::string(v.begin(), v.end());
}

// the format's cross-field rules, evaluated independently (64-bit arithmetic); "" if they hold
inline std::string rules(const ArtFile& a)
{
	for (std::size_t i = 0; i < a.imageMetas.size(); ++i) {
		const auto& m = a.imageMetas[i];
		if (uint64_t(m.paletteIndex) >= a.palettes.size()) return "image " + std::to_string(i) + " palette index " + std::to_string(m.paletteIndex) + " with " + std::to_string(a.palettes.size()) + " palettes";
		if (uint64_t(m.scanLineByteWidth) != ref::roundUp4(m.width)) return "image " + std::to_string(i) + " scan line " + std::to_string(m.scanLineByteWidth) + " for width " + std::to_string(m.width);
	}
	for (std::size_t ai = 0; ai < a.animations.size(); ++ai) for (std::size_t fi = 0; fi < a.animations[ai].frames.size(); ++fi) {
		const auto& f = a.animations[ai].frames[fi];
		if (f.layerMetadata.count != f.layers.size()) return "animation " + std::to_string(ai) + " frame " + std::to_string(fi) + " count " + std::to_string(f.layerMetadata.count) + " with " + std::to_string(f.layers.size()) + " layers";
	}
	return "";
}

inline ArtFile readArt(const std::vector<uint8_t>& bytes)
{
	std::unique_ptr<uint8_t[]> p(new uint8_t[bytes.size() ? bytes.size() : 1]);
	std::memcpy(p.get(), bytes.data(), bytes.size());
	Stream::MemoryReader r(p.get(), bytes.size());
	return ArtFile::Read(r);
}

// as readArt, also reporting how many bytes the reader consumed
inline ArtFile readArtConsumed(const std::vector<uint8_t>& bytes, uint64_t& consumed)
{
	std::unique_ptr<uint8_t[]> p(new uint8_t[bytes.size() ? bytes.size() : 1]);
	std::memcpy(p.get(), bytes.data(), bytes.size());
	Stream::MemoryReader r(p.get(), bytes.size());
	ArtFile a = ArtFile::Read(r);
	consumed = r.Position();
	return a;
}

inline std::vector<uint8_t> writeArt(const ArtFile& a)
{
	Stream::DynamicMemoryWriter w;
	a.Write(w);
	auto r = w.GetReader();
	std::vector<uint8_t> v(std::size_t(r.Length()));
	r.Read(v.data(), v.size());
	return v;
}

// does the parsed structure hold what the reference describes (incl. red/blue order)?
inline std::string compare(const ArtFile& a, const ref::RPrt& r)
{
	if (a.palettes.size() != r.palettes.size()) return "palette count";
	for (std::size_t i = 0; i < r.palettes.size(); ++i) for (int k = 0; k < 256; ++k) {
		const auto& c = a.palettes[i][k]; const auto& e = r.palettes[i][k];
		if (c.red != e.r || c.green != e.g || c.blue != e.b || c.alpha != e.a) return "palette " + std::to_string(i) + " entry " + std::to_string(k) + " (memory must be r,g,b where the file has b,g,r)";
	}
	if (a.imageMetas.size() != r.images.size()) return "image count";
	for (std::size_t i = 0; i < r.images.size(); ++i) {
		const auto& m = a.imageMetas[i]; const auto& e = r.images[i];
		uint16_t type; std::memcpy(&type, &m.type, 2);
		if (m.scanLineByteWidth != e.scanLine || m.pixelDataOffset != e.pixelOffset || m.height != e.height || m.width != e.width || type != e.type || m.paletteIndex != e.paletteIndex) return "image " + std::to_string(i);
	}
	if (a.animations.size() != r.animations.size()) return "animation count";
	for (std::size_t ai = 0; ai < r.animations.size(); ++ai) {
		const auto& x = a.animations[ai]; const auto& e = r.animations[ai];
		if (x.unknown != e.unknown || x.selectionRect.x1 != e.rect[0] || x.selectionRect.y1 != e.rect[1] || x.selectionRect.x2 != e.rect[2] || x.selectionRect.y2 != e.rect[3] || x.pixelDisplacement.x != e.disp[0] || x.pixelDisplacement.y != e.disp[1] || x.unknown2 != e.unknown2) return "animation " + std::to_string(ai) + " header";
		if (x.frames.size() != e.frames.size()) return "animation " + std::to_string(ai) + " frame count";
		for (std::size_t fi = 0; fi < e.frames.size(); ++fi) {
			const auto& f = x.frames[fi]; const auto& ef = e.frames[fi];
			std::string w = "animation " + std::to_string(ai) + " frame " + std::to_string(fi);
			if (f.layerMetadata.count != ef.count7 || bool(f.layerMetadata.bReadOptionalData) != ef.flag1 || f.unknownBitfield.count != ef.unknown7 || bool(f.unknownBitfield.bReadOptionalData) != ef.flag2) return w + " flag bytes";
			// an optional byte pair is compared where the file stores it; what the object holds for a pair that is not stored is the reader's choice
			if (ef.flag1 && (f.optional1 != ef.opt[0] || f.optional2 != ef.opt[1])) return w + " optional bytes";
			if (ef.flag2 && (f.optional3 != ef.opt[2] || f.optional4 != ef.opt[3])) return w + " optional bytes";
			if (f.layers.size() != ef.layers.size()) return w + " layer count";
			for (std::size_t li = 0; li < ef.layers.size(); ++li) { const auto& l = f.layers[li]; const auto& el = ef.layers[li]; if (l.bitmapIndex != el.bitmapIndex || l.unknown != el.unknown || l.frameIndex != el.frameIndex || l.pixelOffset.x != el.x || l.pixelOffset.y != el.y) return w + " layer " + std::to_string(li); }
		}
		if (x.unknownContainer.size() != e.containers.size()) return "animation " + std::to_string(ai) + " container count";
		for (std::size_t ci = 0; ci < e.containers.size(); ++ci) { const auto& u = x.unknownContainer[ci]; const auto& eu = e.containers[ci]; if (u.unknown1 != eu.v[0] || u.unknown2 != eu.v[1] || u.unknown3 != eu.v[2] || u.unknown4 != eu.v[3]) return "animation " + std::to_string(ai) + " container " + std::to_string(ci); }
	}
	if (a.unknownAnimationCount != r.unknownCount) return "unknown total";
	return "";
}

// ---- reference structures from a dimension vector ----
const int kDims = 12;
inline const std::vector<int>& dimSizes() { static std::vector<int> d = { 3, 3, 5, 3, 3, 3, 4, 4, 2, 3, 2, 3 }; return d; }
inline const char* dimName(int d) { static const char* n[] = { "palettes", "images", "width", "typeBits", "animations", "frames", "flags", "layers", "optionalByte", "containers", "unknownTotal", "paletteHeaderForm" }; return n[d]; }

inline ref::RPrt makePrt(const std::vector<int>& c)
{
	ref::RPrt p;
	static const int cnt[] = { 1, 0, 2 };
	static const uint32_t widths[] = { 4, 0, 1, 3, 5 };
	static const uint16_t types[] = { 0, 4, 0xFFFF };
	static const int layerCounts[] = { 1, 0, 2, 127 };
	int np = cnt[c[0]];
	for (int i = 0; i < np; ++i) { std::array<ref::RColor, 256> pal; for (int k = 0; k < 256; ++k) pal[k] = { uint8_t(k + i), uint8_t(2 * k + 1), uint8_t(255 - k - 7 * i), uint8_t(k % 5) }; p.palettes.push_back(pal); }
	int ni = np == 0 ? 0 : cnt[c[1]];
	for (int i = 0; i < ni; ++i) { ref::RImage im; im.width = widths[(c[2] + i) % 5]; im.scanLine = uint32_t(ref::roundUp4(im.width)); im.height = 3 + i; im.pixelOffset = 100 * i; im.type = types[c[3]]; im.paletteIndex = uint16_t((np - 1 + i) % np); p.images.push_back(im); }
	int na = cnt[c[4]], nf = cnt[c[5]];
	for (int a = 0; a < na; ++a) {
		ref::RAnimation an; an.unknown = 0x11111111u * (a + 1); an.rect[0] = -5; an.rect[1] = a; an.rect[2] = 0x7FFFFFFF; an.rect[3] = int32_t(0x80000000u); an.disp[0] = -1; an.disp[1] = 77; an.unknown2 = 0x3C;
		for (int f = 0; f < nf; ++f) {
			ref::RFrame fr; int fl = (c[6] + f + a) % 4; fr.flag1 = fl & 1; fr.flag2 = fl & 2;
			int lc = layerCounts[(c[7] + f) % 4]; fr.count7 = uint8_t(lc); fr.unknown7 = uint8_t(0x55 >> f);
			uint8_t ob = c[8] == 0 ? 0xA5 : 0; fr.opt[0] = ob; fr.opt[1] = uint8_t(ob + 1); fr.opt[2] = uint8_t(ob + 2); fr.opt[3] = uint8_t(ob ? ob + 3 : 0);
			for (int l = 0; l < lc; ++l) { ref::RLayer L; L.bitmapIndex = uint16_t(ni > 0 ? (l * 3 + f) % ni : l * 3 + f); /* names an image of the table where the table is not empty */ L.unknown = uint8_t(l); L.frameIndex = uint8_t(255 - l); L.x = int16_t(-l); L.y = int16_t(l * 100); fr.layers.push_back(L); }
			an.frames.push_back(fr);
		}
		for (int u = 0; u < c[9]; ++u) { ref::RUnknown U; for (int k = 0; k < 4; ++k) U.v[k] = uint32_t(u * 4 + k + 0xF0000000u); an.containers.push_back(U); }
		p.animations.push_back(an);
	}
	p.unknownCount = c[10] ? 3 : 0;
	if (c[11] == 1) { p.form.headLen = 8; p.form.dataLen = 1020; }     // lengths shifted, sum preserved
	if (c[11] == 2) { p.form.tagCount = 7; }
	return p;
}

inline std::string describe(const std::vector<int>& c)
{
	std::string s;
	for (int d = 0; d < kDims; ++d) if (c[d] != 0) s += std::string(dimName(d)) + "#" + std::to_string(c[d]) + " ";
	return s.empty() ? "default PRT (1 palette, 1 image, 1 animation, 1 frame with 1 layer)" : s;
}

} // namespace prtc
