// C08 - indexed bitmaps read back valid and round-trip pixels, palette, geometry.
// Small-scope exhaustive: depth x width 0..66 (every residue of row bits mod 32) x height -8..8 x palette forms,
// factory grid, scan-line flips; against an independent BMP encoder/decoder.
#include "mc/mc.hpp"
#include "Stream/FileWriter.h"
#include "Stream/FileReader.h"
#include "ref/ref_bmp.hpp"
#include "Bitmap/BitmapFile.h"
#include "Stream/MemoryReader.h"
#include "Stream/DynamicMemoryWriter.h"
#include <memory>
#include <set>
#include <functional>

using namespace OP2Utility;
using mc::Ctx;

namespace {

ref::RBmp makeBmp(int depth, int32_t w, int32_t h, int palForm, uint32_t important, uint32_t seed)
{
	ref::RBmp b; b.depth = depth; b.width = w; b.height = h; b.importantColors = important;
	uint32_t full = 1u << depth;
	b.usedColors = palForm == 0 ? 0 : palForm == 1 ? 1 : palForm == 2 ? full - 1 : full;
	if (b.usedColors == 0 && palForm != 0) b.usedColors = full;   // depth 1: 2^d-1 = 1 handled above; never 0 by accident
	std::size_t n = b.paletteEntries();
	for (std::size_t i = 0; i < n; ++i) b.palette.push_back({ uint8_t(i * 3 + 1), uint8_t(i * 5 + 2), uint8_t(i * 7 + 3), uint8_t(i & 1 ? 0 : 255) });
	uint64_t pitch = b.pitch(), rows = b.absHeight();
	b.rows.resize(std::size_t(pitch * rows));
	for (std::size_t i = 0; i < b.rows.size(); ++i) b.rows[i] = uint8_t(mc::contentByte(seed, i) | 1);   // non-zero also in the row padding
	return b;
}

std::vector<uint8_t> paletteBytes(const BitmapFile& f)
{
	std::vector<uint8_t> v;
	for (auto& c : f.palette) { v.push_back(c.red); v.push_back(c.green); v.push_back(c.blue); v.push_back(c.alpha); }
	return v;
}

BitmapFile readBmp(const std::vector<uint8_t>& bytes)
{
	std::unique_ptr<uint8_t[]> p(new uint8_t[bytes.size() ? bytes.size() : 1]);
	std::memcpy(p.get(), bytes.data(), bytes.size());
	Stream::MemoryReader r(p.get(), bytes.size());
	return BitmapFile::ReadIndexed(r);
}

std::vector<uint8_t> writeBmp(const BitmapFile& f)
{
	Stream::DynamicMemoryWriter w;
	f.WriteIndexed(w);
	auto r = w.GetReader();
	std::vector<uint8_t> v(std::size_t(r.Length()));
	r.Read(v.data(), v.size());
	return v;
}

// looser but common spellings of the same picture: the optional image size field filled in, unused bytes between the colour
// table and the pixel array. The property does not say that they must be accepted; whatever is accepted must be a valid
// bitmap of the declared geometry, and a filled image size field alone must not change the outcome
void looseForms(Ctx& ctx)
{
	for (int depth : { 1, 4, 8 }) for (int32_t w : { 1, 5, 8, 32 }) for (int32_t h : { 2, -3, 32, -32 }) for (int palForm : { 0, 2 }) for (uint32_t gap : { 0u, 4u, 8u, 74u }) for (int filled = 0; filled < 2; ++filled) {
		ref::RBmp b = makeBmp(depth, w, h, palForm, 0, uint32_t(depth * 77 + w * 5 + h));
		ref::RBmp plain = b;
		b.gapBeforePixels = gap; b.fillImageSize = filled != 0;
		if (!gap && !filled) continue;
		std::string key = "depth " + std::to_string(depth) + " width " + std::to_string(w) + " height " + std::to_string(h) + " paletteForm " + std::to_string(palForm) + " gap " + std::to_string(gap) + (filled ? " image size field filled" : "");
		ctx.sub(key);
		auto bad = [&](const std::string& c, const std::string& d) { ctx.violation("C08/loose-form/" + c, key, d); };
		BitmapFile f, p;
		auto o = mc::guarded([&] { f = readBmp(ref::encodeBmp(b)); });
		ctx.transition();
		if (o.cls == 'X') { bad("non-std-exception", ""); continue; }
		if (!gap) {
			auto op = mc::guarded([&] { p = readBmp(ref::encodeBmp(plain)); });
			if ((op.cls == 'R') != (o.cls == 'R')) { bad("filled-image-size-field-changes-acceptance", o.what + op.what); continue; }
			if (o.cls == 'R' && (f.pixels != p.pixels || f.palette.size() != p.palette.size() || f.imageHeader.height != p.imageHeader.height)) { bad("filled-image-size-field-changes-the-picture", ""); continue; }
		}
		if (o.cls != 'R') { ctx.count("loose-form/refused"); continue; }
		ctx.count("loose-form/accepted");
		auto v = mc::guarded([&] { f.Validate(); });
		if (v.cls != 'R') { bad("accepted-result-fails-validation", v.what); continue; }
		if (f.palette.size() > (std::size_t(1) << depth)) { bad("palette-longer-than-depth-allows", std::to_string(f.palette.size())); continue; }
		if (f.imageHeader.width != w || f.imageHeader.height != h || f.imageHeader.bitCount != depth) { bad("geometry", ""); continue; }
		if (f.pixels.size() != ref::RBmp::pitchOf(depth, w) * b.absHeight()) { bad("pixel-container-size", std::to_string(f.pixels.size())); continue; }
		std::vector<uint8_t> w1; BitmapFile g;
		auto ow = mc::guarded([&] { w1 = writeBmp(f); g = readBmp(w1); });
		if (ow.cls != 'R') { bad("accepted-result-cannot-be-written-and-read-back", ow.what); continue; }
		if (g.pixels.size() != f.pixels.size() || g.imageHeader.height != h) { bad("reread-differs", ""); continue; }
	}
	ctx.state(); ctx.trace();
}

std::string keyOf(int depth, int32_t w, int32_t h, int palForm, uint32_t imp) { return "depth " + std::to_string(depth) + " width " + std::to_string(w) + " height " + std::to_string(h) + " paletteForm " + std::to_string(palForm) + " important " + std::to_string(imp); }

void accepted(Ctx& ctx, int depth, int32_t w, int32_t h, int palForm, uint32_t imp)
{
	std::string key = keyOf(depth, w, h, palForm, imp);
	ctx.sub(key);
	ref::RBmp b = makeBmp(depth, w, h, palForm, imp, uint32_t(depth * 1000 + w * 10 + h + 5));
	auto bytes = ref::encodeBmp(b);
	auto bad = [&](const std::string& c, const std::string& d) { ctx.violation("C08/" + c, key, d); };
	BitmapFile f;
	auto o = mc::guarded([&] { f = readBmp(bytes); });
	ctx.transition();
	// acceptance is demanded of the form the library itself writes (full colour table, both colour counts 0): the round trips need
	// it. The other spellings (a used-colour count, a short colour table, an important-colour count) need not be accepted
	ctx.count(palForm == 0 || b.usedColors == (1u << depth) ? "forms/full-palette-tried" : "forms/partial-palette-tried");
	if (o.cls != 'R' && (palForm != 0 || imp != 0)) { ctx.count("forms/optional-spelling-refused"); return; }
	if (o.cls != 'R') { bad("accepted-form-rejected", o.what); return; }
	auto v = mc::guarded([&] { f.Validate(); });
	if (v.cls != 'R') { bad("read-result-fails-validation", v.what); return; }
	uint64_t pitch = ref::RBmp::pitchOf(depth, w), absH = b.absHeight(), rowBytes = ref::RBmp::rowBytesOf(depth, w);
	if (f.imageHeader.width != w || f.imageHeader.width < 0) { bad("width", std::to_string(f.imageHeader.width)); return; }
	if (f.imageHeader.height != h) { bad("height", std::to_string(f.imageHeader.height)); return; }
	if (f.imageHeader.bitCount != depth) { bad("depth", std::to_string(f.imageHeader.bitCount)); return; }
	if (f.pixels.size() != pitch * absH) { bad("pixel-container-size", std::to_string(f.pixels.size()) + " expected " + std::to_string(pitch * absH)); return; }
	if (f.pixels != b.rows) { bad("pixels-as-read", ""); return; }
	if (f.palette.size() > (std::size_t(1) << depth)) { bad("palette-longer-than-depth-allows", std::to_string(f.palette.size())); return; }
	if (f.palette.size() != b.palette.size()) { bad("palette-size-as-read", std::to_string(f.palette.size())); return; }
	{ auto pb = paletteBytes(f); std::vector<uint8_t> fb(bytes.begin() + 54, bytes.begin() + 54 + 4 * b.palette.size()); if (pb != fb) { bad("palette-as-read", ""); return; } }
	// write and read back
	std::vector<uint8_t> w1;
	auto ow = mc::guarded([&] { w1 = writeBmp(f); });
	ctx.transition();
	if (ow.cls != 'R') { bad("write-throws", ow.what); return; }
	auto pw = ref::parseBmp(w1);
	if (!pw.ok) { bad("written-file-not-well-formed", pw.why); return; }
	if (pw.bmp.width != w || pw.bmp.height != h || pw.bmp.depth != depth) { bad("written-geometry", ""); return; }
	for (uint64_t r = 0; r < absH; ++r) {
		if (rowBytes && std::memcmp(&pw.bmp.rows[std::size_t(r * pitch)], &b.rows[std::size_t(r * pitch)], std::size_t(rowBytes)) != 0) { bad("written-pixels", "row " + std::to_string(r)); return; }
		for (uint64_t k = rowBytes; k < pitch; ++k) if (pw.bmp.rows[std::size_t(r * pitch + k)] != 0) { bad("written-row-padding-not-zero", "row " + std::to_string(r)); return; }
	}
	BitmapFile g;
	auto o2 = mc::guarded([&] { g = readBmp(w1); });
	ctx.transition();
	if (o2.cls != 'R') { bad("reread-rejected", o2.what + " (palette form " + std::to_string(palForm) + ": " + std::to_string(f.palette.size()) + " entries read, header of the written file says " + std::to_string(pw.bmp.usedColors) + ")"); return; }
	if (g.imageHeader.width != w || g.imageHeader.height != h || g.imageHeader.bitCount != depth) { bad("reread-geometry", ""); return; }
	{ auto pa = paletteBytes(f), pb = paletteBytes(g); if (pb.size() < pa.size() || !std::equal(pa.begin(), pa.end(), pb.begin())) { bad("reread-palette-entry-changed", ""); return; } }
	if (g.pixels.size() != f.pixels.size()) { bad("reread-pixel-size", ""); return; }
	for (uint64_t r = 0; r < absH; ++r) if (rowBytes && std::memcmp(&g.pixels[std::size_t(r * pitch)], &f.pixels[std::size_t(r * pitch)], std::size_t(rowBytes)) != 0) { bad("reread-pixels", "row " + std::to_string(r)); return; }
	// flips
	BitmapFile fl = f;
	auto of = mc::guarded([&] { fl.InvertScanLines(); });
	if (of.cls != 'R') { bad("flip-throws", of.what); return; }
	if (fl.imageHeader.height != -h) { bad("flip-height-not-negated", std::to_string(fl.imageHeader.height)); return; }
	if (fl.pixels.size() != f.pixels.size()) { bad("flip-pixel-size", ""); return; }
	for (uint64_t r = 0; r < absH; ++r) if (pitch && std::memcmp(&fl.pixels[std::size_t(r * pitch)], &f.pixels[std::size_t((absH - 1 - r) * pitch)], std::size_t(pitch)) != 0) { bad("flip-rows-not-reversed", "row " + std::to_string(r)); return; }
	fl.InvertScanLines();
	if (!(fl == f)) { bad("double-flip-not-identity", ""); return; }
	ctx.transition(2);
	// file-name overloads
	{
		std::string dir = ctx.scratch(), in = dir + "/in.bmp", out = dir + "/out.bmp";
		mc::writeFile(in, bytes);
		BitmapFile ff; std::vector<uint8_t> wf;
		auto o3 = mc::guarded([&] { ff = BitmapFile::ReadIndexed(in); ff.WriteIndexed(out); wf = mc::readFile(out); });
		if (o3.cls != 'R') { bad("file-overloads-throw", o3.what); return; }
		if (!(ff == f)) { bad("file-overload-read-differs-from-stream-read", ""); return; }
		if (wf != w1) { bad("file-overload-write-differs-from-stream-write", ""); return; }
		// the overloads taking temporary streams; the output path already holds a longer file
		BitmapFile ft; std::vector<uint8_t> wt;
		auto o4 = mc::guarded([&] { ft = BitmapFile::ReadIndexed(Stream::FileReader(in)); mc::writeFile(out, std::vector<uint8_t>(w1.size() + 777, 0xEE)); ft.WriteIndexed(Stream::FileWriter(out)); wt = mc::readFile(out); });
		if (o4.cls != 'R') { bad("temporary-stream-overloads-throw", o4.what); return; }
		if (!(ft == f)) { bad("temporary-stream-overload-read-differs", ""); return; }
		if (wt != w1) { bad("temporary-stream-overload-write-differs", std::to_string(wt.size()) + " bytes for " + std::to_string(w1.size())); return; }
		ctx.count("file-overloads/round-trips");
	}
	ctx.state(); ctx.trace();
	ctx.count(palForm == 0 || b.usedColors == (1u << depth) ? "accepted/full-palette" : "accepted/partial-palette");
	if (h < 0) ctx.count("accepted/top-down"); if (h == 0 || w == 0) ctx.count("accepted/empty-image");
	ctx.outcome(mc::fnv(w1.data(), w1.size()));
}

void factory(Ctx& ctx, int depth, int32_t w, int32_t h)
{
	std::string key = "CreateIndexed(" + std::to_string(depth) + "," + std::to_string(w) + "," + std::to_string(h) + ")";
	ctx.sub(key);
	auto bad = [&](const std::string& c, const std::string& d) { ctx.violation("C08/factory/" + c, key, d); };
	for (int form = 0; form < 3; ++form) {
		BitmapFile f;
		std::vector<Color> pal;
		for (int i = 0; i < (form == 1 ? 1 : (1 << depth)); ++i) pal.push_back(Color{ uint8_t(i + 1), uint8_t(2 * i), uint8_t(255 - i), uint8_t(i & 3) });
		uint64_t pitch = ref::RBmp::pitchOf(depth, w), absH = uint64_t(h < 0 ? -int64_t(h) : h);
		std::vector<uint8_t> px(std::size_t(pitch * absH)); for (std::size_t i = 0; i < px.size(); ++i) px[i] = uint8_t(i * 13 + 1);
		auto o = mc::guarded([&] { if (form == 0) f = BitmapFile::CreateIndexed(uint16_t(depth), uint32_t(w), h); else if (form == 1) f = BitmapFile::CreateIndexed(uint16_t(depth), uint32_t(w), h, pal); else f = BitmapFile::CreateIndexed(uint16_t(depth), uint32_t(w), h, pal, px); });
		ctx.transition();
		if (o.cls != 'R') { bad("throws", "form " + std::to_string(form) + ": " + o.what); return; }
		if (mc::guarded([&] { f.Validate(); }).cls != 'R') { bad("factory-object-fails-validation", "form " + std::to_string(form)); return; }
		if (f.pixels.size() != pitch * absH) { bad("pixel-size", std::to_string(f.pixels.size())); return; }
		// the row padding of a factory object is zero only if the caller supplied zeros; compare after masking the padding
		if (form == 2) for (uint64_t r = 0; r < absH; ++r) for (uint64_t k = ref::RBmp::rowBytesOf(depth, w); k < pitch; ++k) f.pixels[std::size_t(r * pitch + k)] = 0;
		BitmapFile g;
		auto o2 = mc::guarded([&] { g = readBmp(writeBmp(f)); });
		ctx.transition(2);
		if (o2.cls != 'R') { bad("round-trip-throws", "form " + std::to_string(form) + ": " + o2.what); return; }
		if (!(g == f)) { bad("round-trip-not-equal", "form " + std::to_string(form) + (g.bmpHeader == f.bmpHeader ? "" : " bmpHeader") + (g.imageHeader == f.imageHeader ? "" : " imageHeader") + (g.palette == f.palette ? "" : " palette") + (g.pixels == f.pixels ? "" : " pixels")); return; }
		ctx.count("factory/round-trips");
	}
	ctx.state(); ctx.trace();
}

struct CaseDef { int kind, depth; int32_t w0, w1; };
std::vector<CaseDef> gCases;
std::vector<int32_t> gWidths, gHeights;

void build(Ctx& ctx)
{
	gCases.clear(); gWidths.clear(); gHeights.clear();
	for (int32_t w = 0; w <= 66; ++w) gWidths.push_back(w);
	for (int32_t h = -8; h <= 8; ++h) gHeights.push_back(h);  // from 4 rows on an in-place flip has a second swap to get wrong (seeded change S08r)
	if (ctx.thorough) { for (int32_t w = 67; w <= 130; ++w) gWidths.push_back(w); for (int32_t w : { 255, 256, 257, 1023, 1024, 1025, 4095, 4097 }) gWidths.push_back(w); for (int32_t h : { 9, 31, 32, 33, -9, -31, -32, -33 }) gHeights.push_back(h); }
	for (int d : { 1, 4, 8 }) for (std::size_t i = 0; i < gWidths.size(); i += 6) { gCases.push_back({ 0, d, int32_t(i), int32_t(std::min(i + 6, gWidths.size())) }); gCases.push_back({ 1, d, int32_t(i), int32_t(std::min(i + 6, gWidths.size())) }); }
	gCases.push_back({ 2, 0, 0, 0 });
	gCases.push_back({ 3, 0, 0, 0 });
	for (int d : { 1, 4, 8 }) gCases.push_back({ 4, d, 0, 0 });
	gCases.push_back({ 5, 0, 0, 0 });
	for (int d : { 1, 4, 8 }) gCases.push_back({ 6, d, 0, 0 });
}

void runCase(std::size_t i, Ctx& ctx)
{
	const CaseDef& c = gCases[i];
	if (c.kind == 5) { looseForms(ctx); return; }
	if (c.kind == 6) {
		// histories: every narrow bitmap is written straight after a wider one whose bytes are all ones (pixels and padding alike),
		// in this process; which worker ran which case before must not decide whether a writer's kept state is seen
		for (int32_t w = 0; w <= 40; ++w) for (int32_t h : { 1, -2, 3 }) {
			uint64_t widePitch = ref::RBmp::pitchOf(c.depth, 64 * 8 / c.depth + 8);
			std::vector<uint8_t> ones(std::size_t(widePitch * 3), 0xFF);
			std::vector<Color> pal; for (int i = 0; i < (1 << c.depth); ++i) pal.push_back(Color{ 0xFF, 0xFF, 0xFF, 0xFF });
			auto o = mc::guarded([&] { writeBmp(BitmapFile::CreateIndexed(uint16_t(c.depth), uint32_t(64 * 8 / c.depth + 8), 3, pal, ones)); });
			if (o.cls != 'R') { ctx.violation("C08/history/wide-bitmap-refused", "depth " + std::to_string(c.depth), o.what); return; }
			accepted(ctx, c.depth, w, h, 0, 0);
			o = mc::guarded([&] { writeBmp(BitmapFile::CreateIndexed(uint16_t(c.depth), uint32_t(64 * 8 / c.depth + 8), -3, pal, ones)); });
			factory(ctx, c.depth, w, h);
			ctx.count("history/after-a-wider-bitmap-of-ones");
		}
		return;
	}
	if (c.kind == 0) {
		for (int32_t wi = c.w0; wi < c.w1; ++wi) for (int32_t h : gHeights) for (int pal = 0; pal < 4; ++pal) for (uint32_t imp = 0; imp < 2; ++imp) accepted(ctx, c.depth, gWidths[wi], h, pal, imp);
		if (c.depth == 4 && c.w0 == 6) ctx.sample("accepted BMP " + keyOf(4, gWidths[c.w0], -2, 1, 0) + ": read, validate, geometry, write == well-formed with zero padding, re-read, flip, double flip");
	}
	else if (c.kind == 1) {
		for (int32_t wi = c.w0; wi < c.w1; ++wi) for (int32_t h : gHeights) factory(ctx, c.depth, gWidths[wi], h);
	}
	else if (c.kind == 4) {
		// widths that do not fit 16 bits (a pitch helper called with swapped or narrowed arguments shows only here)
		for (int32_t w : { 65535, 65536, 65537, 65544, 70000, 131073 }) for (int32_t h : { 1, 2, -3 }) { accepted(ctx, c.depth, w, h, 0, 0); factory(ctx, c.depth, w, h); ctx.count("wide/widths-beyond-16-bits"); }
	}
	else if (c.kind == 3) {
		// headers whose size cross-check holds only modulo 2^32: pitch = 2^p, |height| = 2^(32-p) + j with j rows of pixel bytes present
		for (int d : { 1, 4, 8 }) for (int64_t w : { int64_t(1), int64_t(8), int64_t(32), int64_t(64), int64_t(256), int64_t(65536), int64_t(1) << 20, int64_t(1) << 28 }) {
			uint64_t pitch = ((uint64_t(w) * uint64_t(d) + 7) / 8 + 3) & ~uint64_t(3);
			if (pitch & (pitch - 1)) continue;
			int pw = 0; while ((uint64_t(1) << pw) < pitch) ++pw;
			for (int64_t j : { int64_t(0), int64_t(1), int64_t(2), int64_t(3) }) for (int sign = 0; sign < 2; ++sign) {
				int64_t h = (int64_t(1) << (32 - pw)) + j; if (h > INT32_MAX) continue; if (sign) h = -h;
				uint64_t s32 = uint64_t(j) * pitch;
				if (s32 > 4096) continue;
				ref::RBmp b; b.depth = d; b.width = int32_t(w); b.height = int32_t(h);
				for (int i = 0; i < (1 << d); ++i) b.palette.push_back({ uint8_t(i), 0, 0, 0 });
				b.rows.assign(std::size_t(s32), 0x11);
				std::string key = "depth " + std::to_string(d) + " width " + std::to_string(w) + " height " + std::to_string(h) + " pixel bytes " + std::to_string(s32) + " (= pitch*|height| mod 2^32)";
				ctx.sub(key);
				BitmapFile f;
				auto o = mc::guarded([&] { f = readBmp(ref::encodeBmp(b)); });
				ctx.transition(); ctx.count("tall/wrap-consistent-headers");
				if (o.cls == 'R') ctx.violation("C08/accepted-with-fewer-rows-than-height", key, "returned height " + std::to_string(f.imageHeader.height) + " with " + std::to_string(f.pixels.size()) + " pixel bytes");
			}
		}
		// headers with a negative width whose size cross-check holds modulo 2^64: must not come back as a success
		for (int d : { 1, 4, 8 }) for (int64_t w : { int64_t(-1), int64_t(-2), int64_t(-3), int64_t(-4), int64_t(-8), int64_t(-31), int64_t(-32), int64_t(-33), int64_t(INT32_MIN), int64_t(INT32_MIN) + 1 })
			for (int k = 0; k < 32; ++k) for (int sign = 0; sign < 2; ++sign) for (int mul : { 1, 3 }) {
				int64_t h = int64_t(mul) << k; if (h > INT32_MAX) continue; if (sign) h = -h;
				uint64_t pitch = ((uint64_t(int64_t(w)) * uint64_t(d) + 7) / 8 + 3) & ~uint64_t(3);
				uint64_t s = pitch * uint64_t(h < 0 ? -h : h);     // modulo 2^64
				if (s > 4096) continue;
				ref::RBmp b; b.depth = d; b.width = int32_t(w); b.height = int32_t(h);
				for (int i = 0; i < (1 << d); ++i) b.palette.push_back({ uint8_t(i), 0, 0, 0 });
				b.rows.assign(std::size_t(s), 0x11);
				std::string key = "depth " + std::to_string(d) + " width " + std::to_string(w) + " height " + std::to_string(h) + " pixel bytes " + std::to_string(s) + " (= pitch*|height| mod 2^64)";
				ctx.sub(key);
				BitmapFile f;
				auto o = mc::guarded([&] { f = readBmp(ref::encodeBmp(b)); });
				ctx.transition(); ctx.count("negative-width/wrap-consistent-headers");
				if (o.cls == 'R') ctx.violation("C08/negative-width-accepted", key, "returned width " + std::to_string(f.imageHeader.width) + " with " + std::to_string(f.pixels.size()) + " pixel bytes");
			}
		// headers whose row bit count width*depth is >= 2^32, with exactly the pixel bytes a pitch computed in 32 bits asks
		// for: accepting one returns an object whose rows are not "the smallest multiple of four holding width x depth bits"
		for (int d : { 4, 8 }) for (uint64_t k : { uint64_t(1), uint64_t(2), uint64_t(3) }) for (int64_t j : { int64_t(0), int64_t(1), int64_t(3), int64_t(5), int64_t(9) }) for (int64_t h : { int64_t(0), int64_t(1), int64_t(2), int64_t(-2), int64_t(3) }) {
			int64_t w = int64_t((k << 32) / uint64_t(d)) + j; if (w > INT32_MAX) continue;
			uint32_t bits32 = uint32_t(uint64_t(w) * uint64_t(d));
			uint64_t pitch32 = ((uint64_t(bits32) + 7) / 8 + 3) & ~uint64_t(3);
			uint64_t s = pitch32 * uint64_t(h < 0 ? -h : h);
			uint64_t truePitch = ((uint64_t(w) * uint64_t(d) + 7) / 8 + 3) & ~uint64_t(3);
			ref::RBmp b; b.depth = d; b.width = int32_t(w); b.height = int32_t(h);
			for (int i = 0; i < (1 << d); ++i) b.palette.push_back({ uint8_t(i), 0, 0, 0 });
			b.rows.assign(std::size_t(s), 0x11);
			std::string key = "depth " + std::to_string(d) + " width " + std::to_string(w) + " height " + std::to_string(h) + " pixel bytes " + std::to_string(s) + " (row bits modulo 2^32; true pitch " + std::to_string(truePitch) + ")";
			ctx.sub(key);
			BitmapFile f;
			auto o = mc::guarded([&] { f = readBmp(ref::encodeBmp(b)); });
			ctx.transition(); ctx.count("wide-rows/wrap-consistent-headers");
			if (o.cls == 'R' && uint64_t(f.pixels.size()) != truePitch * uint64_t(h < 0 ? -h : h)) ctx.violation("C08/accepted-with-wrong-row-length", key, "returned width " + std::to_string(f.imageHeader.width) + " with " + std::to_string(f.pixels.size()) + " pixel bytes");
		}
		ctx.state(); ctx.trace();
	}
	else {
		for (int d : { 0, 2, 3, 5, 7, 9, 15, 16, 24, 32, 64, 255 }) {
			// depths the indexed reader/writer does not support: the factory or the writer must refuse
			auto o = mc::guarded([&] { auto f = BitmapFile::CreateIndexed(uint16_t(d), 4, 4); writeBmp(f); });
			ctx.transition(); ctx.count("factory/unsupported-depths");
			if (o.cls == 'R') ctx.violation("C08/factory/unsupported-depth-accepted", "depth " + std::to_string(d), "");
		}
		ctx.state();
	}
}

} // namespace

int main(int argc, char** argv)
{
	mc::CheckDef def;
	def.id = "C08";
	def.init = build;
	def.ncases = [](Ctx&) { return gCases.size(); };
	def.run = runCase;
	def.caseTimeoutS = 300;
	return mc::Main(argc, argv, def);
}
