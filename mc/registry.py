"""Per-property registry: harness source, build configurations, bounds text for the evidence file."""

CHECKS = {
    'C12': dict(
        technique='explicit-state reachability (BFS to fixpoint) over the real reader objects in lock-step with a reference cursor',
        level_text='Every operation history of any length over a boundary-valued alphabet (about 330 operation instances per state: Read/ReadPartial/Peek/Seek*/typed/prefixed/string/Slice with arguments 0,1,rem-1,rem,rem+1,len,2^31,2^32,2^63,2^64-pos,2^64-1,...) is covered because the reachable product state graph (real reader state x reference position) is explored to a fixpoint for 10 sources x 5 backends; each edge compares returned bytes, counts, Position(), Length() and error/no error with the reference, under ASan+UBSan with exact-size destination buffers.',
        level_note='Trusts g++/libstdc++/ASan, tmpfs files, and the 60-line reference cursor in the harness. Values outside the boundary sets and sources longer than 10 bytes are not explored. Weaker reading: after a rejected size-prefixed or string read the cursor may be at the old position or past the prefix/scanned data.',
        src='checks/c12_readers.cpp',
        runs=[dict(cfg='asan')],
        rule='explicit-state BFS to a fixpoint over the product (real reader, reference cursor); a case = one (source, backend) pair; '
             'a state = reader private state + model position; every operation of the boundary-valued alphabet is applied in every reachable state',
        bounds={'quick': '10 sources (len 0..10) x 5 backends (memory, memory slice, file slice, slice of slice, slice-at-position); ~330 op instances per state; fixpoint',
                'thorough': 'same as quick (the state graphs are small and explored to a fixpoint at both tiers)'},
        must_hit={'any': ['read/in-bounds', 'read/out-of-bounds', 'read/wraps-64-bit', 'readpartial/short', 'readpartial/full', 'peek/in-bounds',
                          'peek/out-of-bounds', 'seek/in-bounds', 'seek/out-of-bounds', 'typed/prefixed-ok', 'typed/prefixed-reject',
                          'typed/cstr-ok', 'typed/cstr-reject', 'slice/contained', 'slice/not-contained', 'slice/wraps-64-bit']},
        assumptions=['x86-64 little endian; harness reads private cursor fields via -fno-access-control for state keys only',
                     'argument values outside the boundary sets are not explored'],
    ),
}

CHECKS['C13'] = dict(
    src='checks/c13_slices.cpp',
    runs=[dict(cfg='asan')],
    technique='small-scope exhaustive construction grid + joint explicit-state BFS over several live readers + lock-step BFS across five backends',
    level_text='(a) every (start,length) boundary pair incl. 2^63, 2^64-1, 2^64-start at every parent position, both Slice forms, nested to depth 3, on memory readers, file readers and file slices: accepted iff contained (128-bit arithmetic), the slice exposes exactly its window, refusal leaves the parent untouched; (b) the joint state graph of parent + two overlapping slices + a copy + a nested slice under 7 operations each is explored to a fixpoint in memory and to a depth bound on files, and two member streams of a VolFile/ClmFile are interleaved with archive calls: every object must follow its own reference cursor; (c) all in-bounds histories (fixpoint) are driven in lock-step over memory, file, slice-of-memory, slice-of-file and slice-of-slice and must give identical bytes, positions and lengths.',
    level_note='Trusts g++/libstdc++/ASan and tmpfs. Parent lengths 0,1,4,6; file-backed joint graphs are depth-bounded (4 quick / 6 thorough) because each transition replays its history on freshly opened files.',
    rule='case = one construction grid (backend x parent length), one joint system, or one lock-step system; states = distinct product states / accepted slices; transitions = operations executed and compared',
    bounds={'quick': 'grid: 3 backends x parent lengths {0,1,4,6} x all positions x ~12x11 (start,len) pairs x depth 3; joint: memory fixpoint, file/VOL/CLM depth 4; equivalence: lengths {0,1,3,5} fixpoint',
            'thorough': 'as quick with file/VOL/CLM joint depth 6'},
    must_hit={'any': ['grid/accepted', 'grid/refused-by-wrap', 'grid/refused-out-of-range', 'interleaving/edges', 'interleaving/archive-cases', 'equivalence/edges', 'equivalence/partial-read-past-end']},
    assumptions=['archives for the member-stream interleavings are produced by the library itself (their format is checked in C01-C03)'],
)

CHECKS['C14'] = dict(
    src='checks/c14_writers.cpp',
    runs=[dict(cfg='asan')],
    technique='explicit-state BFS to a fixpoint over (writer private state, buffer bytes, reference vector) plus small-scope exhaustive products for prefixes, stream copies and open flags',
    level_text='MemoryWriter: all histories of any length over Write/typed writes/Seek* with boundary arguments (0,1,rem-1,rem,rem+1,len,2^31,2^32,2^63,2^64-pos,2^64-1) on exact-size heap buffers of length 0,1,2,4 (quick) / 0..5 (thorough), explored to a fixpoint with position, length and the complete buffer compared to a reference vector after every edge (ASan catches any byte written outside). DynamicMemoryWriter: same with the content length capped. Size prefixes: every prefix type x sizes {0,1,2,max-1,max,max+1,max+2} x three container types, refusal iff too large, exact little-endian encoding, Read<S> is the inverse. Stream copy: full product of 8 chunk sizes x 21+ source lengths around every chunk boundary x start positions x 5 reader backends x 3 writer kinds. FileWriter: all 16 flag values x file exists/absent x directory exists/absent, disk content compared.',
    level_note='Trusts g++/libstdc++/ASan, tmpfs. Weaker readings: a refused size-prefixed write may already have emitted the prefix; for open modes with neither Truncate nor Append only the existence rules are asserted; directory creation as a side effect of a refused open is not judged.',
    rule='case = one BFS (buffer length) or one product family; states = distinct product states; transitions = writer operations executed and compared',
    bounds={'quick': 'MemoryWriter n in {0,1,2,4} fixpoint; DynamicMemoryWriter length cap 4 (with and without preallocation); copy chunk sizes {1,2,3,4,7,8,16,131072}',
            'thorough': 'MemoryWriter n in {0,1,2,3,4,5} fixpoint; DynamicMemoryWriter cap 6; rest as quick'},
    must_hit={'any': ['memwriter/write-fits', 'memwriter/write-wraps', 'memwriter/write-too-big', 'memwriter/seek-fits', 'memwriter/seek-refused', 'dynwriter/append', 'dynwriter/write-wraps',
                      'dynwriter/zero-fill', 'dynwriter/truncate', 'dynwriter/refusals', 'prefix/too-large-refused', 'prefix/fits', 'typed/inverse', 'copy/multi-chunk', 'copy/single-chunk',
                      'filewriter/invalid-flags', 'filewriter/existing-not-allowed', 'filewriter/new-not-allowed', 'filewriter/truncate-or-new', 'filewriter/append-existing']},
    assumptions=['allocation requests above 64 MiB are refused by the harness allocator (environment model)'],
)

CHECKS['C15'] = dict(
    src='checks/c15_huffman.cpp',
    runs=[dict(cfg='asan')],
    technique='explicit-state BFS over all update histories (depth-bounded) on small trees + exhaustive capacity-tail enumeration, lock-step with an independent pointer-based reference tree',
    level_text='For 2..6 symbols (thorough: 2..8) every update history up to a depth bound per tree size (quick 12,12,12,11,9 for 2..6 symbols; thorough 40,24,18,14,12,10,9 for 2..8) is explored with full-state deduplication, together with every out-of-range update/accessor/encoder call in every state. In every state the tree walked through the public accessors must be a full binary prefix code over exactly its symbols, equal in shape to ref_huff run on the same history, and the encoder bit string of every symbol (LSB first) must drive the decoder walk from the root to that symbol in exactly bitCount steps; refused calls must leave the tree unchanged. On 314 symbols eight deterministic adversarial schedules (single symbol, round robin, sawtooth, reverse, ping-pong, skewed, stride, last) are checked after every update up to 20000 (thorough: all 65221) updates, and from 3 updates short of capacity all continuations of depth 5 over 5-6 representative symbols are enumerated: the first 3 succeed, every later one is refused without change (also for 2 and 3 symbols).',
    level_note='Trusts ref_huff (150 lines, self-checked list invariants) and g++/ASan/UBSan. Deciding clauses use only public accessors; private arrays are used for state keys and diagnostics. Pseudo-random long histories are sampling and are not claimed.',
    rule='state = (three private arrays, reference tree with weights); transition = one UpdateCodeCount or one invalid call, followed by the full oracle',
    bounds={'quick': 'n=2..6 depth 12/12/12/11/9; 314 symbols: 8 schedules x 20000 updates (encoder checked every 16th); capacity tail for n in {314 (3 schedules), 2, 3}',
            'thorough': 'n=2..8 depth 40/24/18/14/12/10/9; 314 symbols: 8 schedules x 65221 updates, encoder after every update'},
    must_hit={'any': ['small/updates', 'small/invalid-operations', 'long/histories', 'capacity/last-updates-within-capacity', 'capacity/updates-beyond-capacity']},
    assumptions=['capacity = 65535 - symbols updates (the 16-bit root count n + updates must stay representable)'],
)

CHECKS['C04'] = dict(
    src='checks/c04_lzh.cpp',
    runs=[dict(cfg='asan', env={'VERIF_PART': 'main'}), dict(cfg='plain', env={'VERIF_PART': 'len3'}, tiers=('thorough',))],
    technique='small-scope exhaustive input/token enumeration + explicit-state BFS (full-state hash) over all drain schedules of the real decoder, against an independent LZHUF reference codec',
    level_text='Every byte string of length 0..2 (thorough: also all 16.7 M of length 3) and every token sequence of depth <= 3 (thorough 4) over 4 literals and 28 matches (lengths 3,4,59,60 x distances 1,2,63,64,65,4095,4096), plus the full grid of every match length 3..60 x every distance 1..4096, is decoded by the real HuffLZ and compared byte for byte with ref_lzh (the token payload must be a prefix and fewer than eight padding codes may follow). For six fixed streams the graph of ALL drain schedules over GetData(k) / GetInternalBuffer is explored to a fixpoint with full decoder-state hashing: every edge must deliver exactly the next reference bytes and report 0 only at the end. Streams beyond the 65221-code capacity must end in an error with only a reference prefix delivered, for three stream kinds x three drain modes, and all 121 continuations of depth <= 4 across the capacity boundary are enumerated. LZH members of a reference-encoded volume must extract to the reference bytes.',
    level_note='Trusts ref_lzh/ref_huff (about 300 lines, cross-checked by encode->decode->expand self-consistency on every token sequence), g++/ASan/UBSan. Inputs outside the enumerated sets (long random strings) are represented only by the six drain streams. The empty input is checked for safety, termination and drain independence only.',
    rule='case = one enumeration chunk or one drain-schedule BFS; states = inputs/token sequences/decoder states; transitions = decodes or drain calls compared with the reference',
    bounds={'quick': 'inputs len 0..2; token depth 3; match grid 58x4096; drain BFS: 6 streams with the 4-op alphabet {GetData(1),GetData(62),GetData(4096),GetInternalBuffer} (stream 0: 15 ops); capacity 3x3 + 121 tails',
            'thorough': 'adds all 3-byte inputs (plain -O2 build), token depth 4, 15-op drain alphabet {0,1,2,61,62,63,100,4033,4034,4035,4095,4096,4097,5000,IB} on all six streams'},
    must_hit={'any': ['short/with-match', 'short/literals-only', 'tokens/with-padding-codes', 'tokens/exact-end', 'grid/lengths', 'drain/data-returns', 'drain/zero-returns',
                      'drain/internal-buffer-calls', 'capacity/over-long-streams', 'capacity/tail-over', 'capacity/tail-within', 'volume/members-extracted', 'volume/over-capacity-member']},
    assumptions=['capacity: 65221 codes (16-bit counters, 314 symbols)'],
)

_VOL_NOTE = 'Trusts ref_vol (strict decoder + encoder, cross-checked against each other on every emitted archive), g++/ASan/UBSan, tmpfs. Names are drawn from an 11-name alphabet (both cases, digits, _ - ., prefixes of each other, every residue of the name-table length mod 4), sizes from {0,1,2,3,4,5,7,8} and six sizes around the 128 KiB copy chunk; sets of 5+ files are represented only by one 40-file set.'
CHECKS['C01'] = dict(
    src='checks/c01_c02_vol.cpp', defs=['-DVOL_CHECK=1'],
    runs=[dict(cfg='asan')],
    technique='small-scope exhaustive enumeration of file sets (built by add-file transitions) x every list order x path spellings, executed on the real packer/reader',
    level_text='Every file set with k<=2 files over 11 names x 8 sizes (full product), k=3 over all 165 name triples with <=2 sizes off default, k=4 over an 8-name core with <=1 size off default (thorough: k<=3 full product, k=4 with <=2 sizes off default), plus sets around the 128 KiB copy chunk and a 40-file set, is created on tmpfs in three directories and packed with VolFile::CreateArchive in every list order (k<=3: all k!) and four path spellings. The reopened archive must list exactly the inputs in ascending case-insensitive order with exact sizes and the uncompressed kind, stream and extract (all three extraction paths) the exact bytes, and find every member under upper, lower and swapped case. Sets with names equal ignoring case, and outputs that name an input up to case and a leading ./, must be refused with every pre-existing file byte-identical afterwards (directory tree re-hashed).',
    level_note=_VOL_NOTE + ' Listing order is accepted if ascending under tolower- or toupper-folding (weaker reading).',
    rule='state = one file set (names, sizes, directories, spellings); transitions = CreateArchive calls and member interrogations',
    bounds={'quick': 'k<=2 full; k=3: 165 name triples x 169 size vectors; k=4: 70 core quadruples x 29; big sizes; 40-file set; 14 refusal scenarios',
            'thorough': 'k<=3 full product (84480 triples), k=4 deviation<=2 (106590), big-size pairs and mixes'},
    must_hit={'any': ['interrogations', 'orders/identical-archives', 'refusal/duplicate-names-ignoring-case', 'refusal/output-is-an-input', 'refusal/output-is-an-input-up-to-case', 'refusal/output-is-an-input-in-subdirectory']},
    assumptions=['case-insensitive = ASCII folding'],
)
CHECKS['C02'] = dict(
    src='checks/c01_c02_vol.cpp', defs=['-DVOL_CHECK=2'],
    runs=[dict(cfg='asan')],
    technique='small-scope exhaustive enumeration: every archive written for the C01 file sets is decoded by a strict independent VOL decoder; reference-encoded conforming archives (deviation-bounded layout product) are opened by the real reader',
    level_text='(a) every archive the library writes for the C01 state space (all list orders) is parsed by the strict ref_vol decoder: tags, padding flags, lengths tiling the header exactly, name table = NUL-terminated names in index order at the recorded offsets with zero padding, every entry pointing at a 4-aligned contiguous block whose VBLK tag and length match, zero padded, last block ending at EOF, and a reference case-insensitive binary search finding every member; payloads must equal the inputs. (b) the ref_vol encoder emits conforming archives over member count 0..3, 10 names, 5 payload sizes, 0..2 unused trailing slots (zero or garbage filled), extra name-table padding, and per-member kind stored/LZH/RLE/LZ, with at most 2 (thorough 3) dimensions off default: VolFile must report the same count, names, sizes, kinds and stored payloads, extract stored and LZH members to the right bytes and refuse RLE/LZ.',
    level_note=_VOL_NOTE,
    rule='state = one written or reference-encoded archive; transitions = strict decodes / reader queries',
    bounds={'quick': 'C01 quick file sets; conforming archives: deviation<=2 over 7 layout dimensions', 'thorough': 'C01 thorough file sets; deviation<=3'},
    must_hit={'any': ['written/strict-decodes', 'conforming/stored-members', 'conforming/lzh-members', 'conforming/unsupported-kind-members', 'conforming/with-unused-slots', 'conforming/with-extra-name-padding']},
    assumptions=['index size field of an LZH member = decoded length; VBLK length = stored length'],
)

CHECKS['C03'] = dict(
    src='checks/c03_clm.cpp',
    runs=[dict(cfg='asan')],
    technique='small-scope exhaustive enumeration of WAV sets x every list order on the real packer/reader, against an independent RIFF builder/parser and CLM layout decoder',
    level_text='Every single WAV over 7 base names x 6 data lengths x all 16 chunk layouts (extra chunk before fmt / between fmt and data / after data, fmt size 16 or 18), every pair over 21 name pairs x 6x6 lengths x 8x8 layouts (thorough 16x16), every name triple with 4 (thorough 24) variants per member, lengths around the 128 KiB copy chunk and a 12-track set, in three common formats, two extension spellings and three directories, is packed with ClmFile::CreateArchive in every list order. The raw CLM bytes must decode under the independent layout description (version string, common format with cbSize 0, constant bytes, count, zero-padded names in case-insensitive order, offsets contiguous from 60+16k, file ends with the last data), the reopened archive must list, size, stream and extract exactly each data chunk, and every extracted file must parse as a self-consistent canonical WAV with the common format. Twelve families of invalid inputs (bad tags, RIFF size mismatch, any differing format field, 9-character names, duplicate names ignoring case, data length beyond the file, non-WAV bytes, missing input) must be refused in both list orders.',
    level_note='Trusts ref_wav and the 40-line CLM decoder in the harness, g++/ASan/UBSan, tmpfs. Odd-length data followed by another chunk gets the RIFF pad byte. Sets of 4+ tracks are represented by one 12-track set only.',
    rule='state = one WAV set; transitions = CreateArchive calls and member interrogations',
    bounds={'quick': 'k=1 full (672); k=2: 21 pairs x 36 lengths x 64 layouts; k=3: 35 triples x 64 variants; big lengths; 12-track set; 12 refusal families',
            'thorough': 'k=2: 21 pairs x 36 x 256; k=3: 35 triples x 13824 variants'},
    must_hit={'any': ['interrogations', 'orders/identical-archives', 'layout/chunk-after-data', 'layout/chunk-before-fmt', 'layout/chunk-between', 'layout/fmt-16',
                      'refusal/bad-riff-tag', 'refusal/riff-size-mismatch', 'refusal/format-mismatch', 'refusal/name-too-long', 'refusal/duplicate-names-ignoring-case', 'refusal/data-length-beyond-file']},
    assumptions=['base names are letters, digits and underscores (as the property states)'],
)

CHECKS['C05'] = dict(
    src='checks/c05_archive_faults.cpp',
    runs=[dict(cfg='asan')],
    technique='deviation-bounded fault enumeration over reference-encoded archives + explicit-state reachability over all call sequences of each opened archive (differential against a fresh object)',
    level_text='Seeds: six reference VOL archives (0-3 members, an LZH member, unused slots), three reference CLM archives and four WAV layouts. Level 1: every proper prefix, every integer field x ~45 boundary values (0,1,x+-1,x+-14,13..15,27..29,2^31,2^32-9..2^32-1,file size relatives, with and without the padding-flag bit) and every byte x 4 substitutions; level 2 (thorough): every pair of fields x 10x10 values; coordinated corruptions: index length = 14k+r with enclosing lengths consistent (blocks shifted or not), more valid entries than names, merged names, missing final NUL, block offsets into the header/at EOF-8/EOF-7/EOF, VBLK length != index size, CLM counts running into the data, CLM extents ending at/after EOF. Every file is opened by VolFile/ClmFile under ASan+UBSan (vector annotations on); for every file that opens, the reachable states of the shared file reader (position, stream flags) under the full call alphabet (GetCount, GetName/GetSize/GetCompressionCode/OpenStream+drain/ExtractFile by every index in {0,1,2,count-1,count,count+1,SIZE_MAX}, GetIndex/Contains/ExtractFile/OpenStream by every member name, an absent and an empty name) are explored to a fixpoint and every call in every state must give the observation of the same call on a freshly opened archive; returned member streams must have a recorded length, lie inside the file and deliver exactly those file bytes. Mutated WAVs are offered to ClmFile::CreateArchive alone and next to a valid WAV in both orders: error or an archive that reopens, within the watchdog.',
    level_note='Trusts ref_vol/ref_clm/ref_wav encoders, g++/ASan/UBSan. Coverage-guided mutation is sampling and is not used. Allocation requests above 64 MiB are answered with bad_alloc by the harness allocator. Either recorded member length (VBLK length or index size) is accepted for a stream.',
    rule='case = 150 mutants of one seed; states = opened archives + reader states expanded; transitions = constructor calls and archive calls compared',
    bounds={'quick': 'level 1 + coordinated corruptions on 13 seeds', 'thorough': 'adds level 2 (all field pairs x 10x10 values)'},
    must_hit={'any': ['open/refused', 'open/accepted', 'calls/returned', 'calls/ordinary-error', 'extent/streams-verified', 'sequences/states-expanded', 'faults/prefixes', 'faults/single-field-or-byte', 'faults/coordinated', 'wav/archive-produced', 'wav/refused']},
    assumptions=['an archive object is judged against a freshly opened object on the same bytes: behaviour common to both is judged by clauses 1 and 3 only'],
)

NOT_APPLICABLE = {}
