// C17 - name lookup and resource resolution are case-blind, consistent, loose-file-first.
//  (1) archives (reference-encoded VOL and CLM): membership/index lookup over all case and "./" variants, index bounds
//  (2) resource manager: enumeration of directory layouts (each name loose / in v1.vol / in v2.vol) x all queries
#include "mc/mc.hpp"
#include <cstdio>
#include <cctype>
#include "ref/ref_vol.hpp"
#include "ref/ref_clm.hpp"
#include "ResourceManager.h"
#include "Archive/VolFile.h"
#include "Archive/ClmFile.h"
#include "Stream/BidirectionalReader.h"
#include <memory>
#include <set>
#include <map>
#include <functional>
#include <algorithm>
#include <regex>
#include <unistd.h>
#include <sys/stat.h>

using namespace OP2Utility;
using mc::Ctx;

namespace {

std::string upper(std::string s) { for (auto& c : s) if (c >= 'a' && c <= 'z') c -= 32; return s; }
std::string lower(std::string s) { for (auto& c : s) if (c >= 'A' && c <= 'Z') c += 32; return s; }
std::string swapc(std::string s) { for (auto& c : s) { if (c >= 'a' && c <= 'z') c -= 32; else if (c >= 'A' && c <= 'Z') c += 32; } return s; }
std::vector<uint8_t> bytesOf(const std::string& s) { return std::vector<uint8_t>(s.begin(), s.end()); }

std::vector<std::string> variants(const std::string& n)
{
	std::set<std::string> v;
	for (const std::string& b : { n, upper(n), lower(n), swapc(n) }) { v.insert(b); v.insert("./" + b); }
	return std::vector<std::string>(v.begin(), v.end());
}

bool sameName(const std::string& member, std::string query)
{
	if (query.rfind("./", 0) == 0) query = query.substr(2);
	return ref::equalFold(member, query);
}

// ---- (1) archives ----
void archiveLookup(Ctx& ctx, Archive::ArchiveFile& a, const std::vector<std::string>& members, const std::string& label, bool vol)
{
	std::size_t n = members.size();
	auto bad = [&](const std::string& c, const std::string& key, const std::string& d) { ctx.violation("C17/archive/" + c, label + " " + key, d); };
	if (a.GetCount() != n) { bad("count", "", std::to_string(a.GetCount())); return; }
	std::set<std::string> queries = { "absent", "zz.txt", "", "./", "a/b", "./absent" };
	for (auto& m : members) for (auto& v : variants(m)) queries.insert(v);
	for (auto& m : members) { queries.insert(m + "x"); if (m.size() > 1) queries.insert(m.substr(0, m.size() - 1)); }
	for (auto& qy : queries) {
		ctx.sub(label + " query '" + qy + "'");
		bool contains = false; std::size_t idx = SIZE_MAX;
		auto oc = mc::guarded([&] { contains = a.Contains(qy); });
		auto oi = mc::guarded([&] { idx = a.GetIndex(qy); });
		ctx.transition(2);
		if (oc.cls != 'R') { bad("contains-throws", "'" + qy + "'", oc.what); continue; }
		if (contains != (oi.cls == 'R')) { bad("contains-and-index-disagree", "'" + qy + "'", contains ? "Contains is true, GetIndex throws" : "Contains is false, GetIndex returns " + std::to_string(idx)); continue; }
		bool expect = false; for (auto& m : members) if (sameName(m, qy)) expect = true;
		if (contains != expect) { bad(expect ? "member-not-found" : "absent-name-found", "'" + qy + "'", ""); continue; }
		if (contains) {
			ctx.count("archive/lookups-found"); ctx.outcome(mc::fnv(label + qy));
			if (idx >= n) { bad("index-out-of-range", "'" + qy + "'", std::to_string(idx)); continue; }
			std::string got = a.GetName(idx);
			if (!sameName(got, qy)) { bad("index-names-another-member", "'" + qy + "'", "GetName(" + std::to_string(idx) + ") = '" + got + "'"); continue; }
		}
		else ctx.count("archive/lookups-absent");
	}
	for (std::size_t i = 0; i < n; ++i) {
		std::size_t idx = SIZE_MAX;
		auto o = mc::guarded([&] { idx = a.GetIndex(a.GetName(i)); });
		ctx.transition();
		if (o.cls != 'R' || idx != i) bad("index-of-ith-name", "member " + std::to_string(i), "GetIndex(GetName(i)) = " + std::to_string(idx));
	}
	for (std::size_t i : { n, n + 1, SIZE_MAX, SIZE_MAX - 1, std::size_t(1) << 32, (std::size_t(1) << 32) + (n ? n - 1 : 0) }) {
		std::string key = "index " + (i == SIZE_MAX ? std::string("SIZE_MAX") : std::to_string(i)) + " of " + std::to_string(n);
		ctx.sub(label + " " + key);
		std::string out = ctx.scratch() + "/oob.bin";
		std::vector<std::pair<const char*, mc::Outcome>> r;
		r.push_back({ "GetName", mc::guarded([&] { a.GetName(i); }) });
		r.push_back({ "GetSize", mc::guarded([&] { a.GetSize(i); }) });
		r.push_back({ "OpenStream", mc::guarded([&] { a.OpenStream(i); }) });
		r.push_back({ "ExtractFile", mc::guarded([&] { a.ExtractFile(i, out); }) });
		if (vol) r.push_back({ "GetCompressionCode", mc::guarded([&] { static_cast<Archive::VolFile&>(a).GetCompressionCode(i); }) });
		for (auto& x : r) { ctx.transition(); ctx.count("archive/out-of-range-indices"); if (x.second.cls == 'R') bad(std::string("out-of-range-index-accepted/") + x.first, key, ""); }
	}
	ctx.state(); ctx.trace();
}

void archiveCases(Ctx& ctx, int part)
{
	static const std::vector<std::string> pool = { "a", "B", "ab", "aB.txt", "a_b", "A-b", "a.b", "Z9", "with space.txt", "UPPER123.TXT", "mixed.Case.Ext" };
	std::string dir = ctx.freshDir("c17a");
	std::size_t k = 0;
	// every subset of size 0..3 of the pool (sorted as a conforming archive requires)
	std::vector<std::vector<std::string>> sets = { {} };
	for (std::size_t i = 0; i < pool.size(); ++i) { sets.push_back({ pool[i] }); for (std::size_t j = i + 1; j < pool.size(); ++j) { sets.push_back({ pool[i], pool[j] }); for (std::size_t l = j + 1; l < pool.size(); ++l) sets.push_back({ pool[i], pool[j], pool[l] }); } }
	// names that differ in one punctuation character of a pair 0x20 apart, and names with consecutive dots
	for (auto& tw : std::vector<std::vector<std::string>>{ { "slot[1].txt", "slot{1].txt" }, { "a]b", "a}b" }, { "x\\y", "x|y" }, { "p^q", "p~q" }, { "m@n", "m`n" }, { "v..2.txt", "v.2.txt", "v2.txt" }, { "..a", "a..", ".a." }, { "[", "{", "a" } }) sets.push_back(tw);
	// one archive of 300 members (lookups far from both ends of the index)
	{ std::vector<std::string> big; for (int i = 0; i < 300; ++i) big.push_back(std::string(1, char(i % 3 ? 'm' : 'M')) + std::to_string((i * 77) % 300) + (i % 5 == 0 ? "_" : i % 5 == 1 ? "-" : "") + std::string(1, char('a' + i % 26)) + (i % 4 ? ".bin" : ".TXT")); sets.push_back(big); }
	for (auto& names : sets) {
		if (int(k++ % 8) != part) continue;
		bool dup = false; for (std::size_t i = 0; i < names.size(); ++i) for (std::size_t j = i + 1; j < names.size(); ++j) if (ref::equalFold(names[i], names[j])) dup = true;
		if (dup) continue;
		auto sorted = names; std::sort(sorted.begin(), sorted.end(), [](const std::string& a, const std::string& b) { return ref::cmpFold(a, b, true) < 0; });
		std::vector<ref::VolMember> ms; for (auto& n : sorted) { ref::VolMember m; m.name = n; m.stored = bytesOf("content of " + n); ms.push_back(m); }
		ref::VolLayout lay; lay.unusedSlots = int(k % 3);
		// member orders: the conforming (sorted) one, and - lookup must hold for every archive the reader opens - reversed and rotated ones
		for (int order = 0; order < 3; ++order) {
			auto mo = ms; auto no = sorted;
			if (order == 1) { std::reverse(mo.begin(), mo.end()); std::reverse(no.begin(), no.end()); }
			if (order == 2) { if (mo.size() < 3) continue; std::rotate(mo.begin(), mo.begin() + 1, mo.end()); std::rotate(no.begin(), no.begin() + 1, no.end()); }
			if (order == 1 && mo.size() < 2) continue;
			mc::writeFile(dir + "/t.vol", ref::encodeVol(mo, lay).bytes);
			std::string label = std::string(order == 0 ? "vol {" : order == 1 ? "vol (members in reverse order) {" : "vol (members rotated) {"); for (auto& n : no) label += "'" + n + "' "; label += "}";
			if (order) ctx.count("archive/unsorted-archives");
			auto o = mc::guarded([&] { Archive::VolFile v(dir + "/t.vol"); archiveLookup(ctx, v, no, label, true); });
			if (o.cls != 'R') ctx.violation("C17/archive/open-throws", label, o.what);
		}
	}
	// CLM archives: names up to 8 characters
	static const std::vector<std::string> tracks = { "a", "B", "ab", "A_1", "abcdefgh", "Z", "b2" };
	for (std::size_t i = 0; i < tracks.size(); ++i) for (std::size_t j = i; j < tracks.size(); ++j) {
		if (int(k++ % 8) != part) continue;
		std::vector<std::string> names = i == j ? std::vector<std::string>{ tracks[i] } : std::vector<std::string>{ tracks[i], tracks[j] };
		if (names.size() == 2 && ref::equalFold(names[0], names[1])) continue;
		std::sort(names.begin(), names.end(), [](const std::string& a, const std::string& b) { return ref::cmpFold(a, b, true) < 0; });
		for (int order = 0; order < 2; ++order) {
			if (order == 1) { if (names.size() < 2) break; std::reverse(names.begin(), names.end()); ctx.count("archive/unsorted-archives"); }
			std::vector<std::pair<std::string, std::vector<uint8_t>>> ms; for (auto& n : names) ms.push_back({ n, bytesOf("pcm" + n) });
			mc::writeFile(dir + "/t.clm", ref::encodeClm(ref::waveFormat(0), ms).bytes);
			std::string label = order ? "clm (members in reverse order) {" : "clm {"; for (auto& n : names) label += "'" + n + "' "; label += "}";
			auto o = mc::guarded([&] { Archive::ClmFile c(dir + "/t.clm"); archiveLookup(ctx, c, names, label, false); });
			if (o.cls != 'R') ctx.violation("C17/archive/open-throws", label, o.what);
		}
	}
	mc::removeTree(dir);
}

// ---- (2) resource manager ----
struct Layout { std::map<std::string, int> place; /* bit0 loose, bit1 v1.vol, bit2 v2.vol */ std::string rootName; bool unsortedVolumes = false; int rootSpelling = 0; /* 0 absolute, 1 "", 2 ".", 3 "./", 4 absolute + "/", 5 "../<name>" from a sub-directory */ };

std::string contentOf(const std::string& name, const char* where) { return name + "@" + where; }

void resourceLayout(Ctx& ctx, const Layout& L, const std::string& label)
{
	std::string base = ctx.freshDir("c17r");
	std::string root = base + "/" + L.rootName;
	mc::makeDir(root); mc::makeDir(root + "/sub"); mc::makeDir(root + "/dir.vol"); mc::makeDir(root + "/dir.clm");
	mc::writeFile(root + "/sub/inner.txt", bytesOf("inner"));
	std::vector<std::string> loose;
	std::map<std::string, std::vector<std::string>> volMembers;   // file name -> members
	for (auto& p : L.place) {
		if (p.second & 1) { mc::writeFile(root + "/" + p.first, bytesOf(contentOf(p.first, "loose"))); loose.push_back(p.first); }
		if (p.second & 2) volMembers["v1.vol"].push_back(p.first);
		if (p.second & 4) volMembers["v2.vol"].push_back(p.first);
	}
	volMembers["v1.vol"]; volMembers["v2.vol"];
	for (auto& vm : volMembers) {
		auto names = vm.second; std::sort(names.begin(), names.end(), [](const std::string& a, const std::string& b) { return ref::cmpFold(a, b, true) < 0; });
		if (L.unsortedVolumes) std::reverse(names.begin(), names.end());
		std::vector<ref::VolMember> ms; for (auto& n : names) { ref::VolMember m; m.name = n; m.stored = bytesOf(contentOf(n, vm.first == "v1.vol" ? "v1" : "v2")); ms.push_back(m); }
		mc::writeFile(root + "/" + vm.first, ref::encodeVol(ms).bytes);
	}
	if (L.unsortedVolumes) mc::writeFile(root + "/music.clm", ref::encodeClm(ref::waveFormat(0), { { "t1", bytesOf("pcm-t1") }, { "S", bytesOf("pcm-S") } }).bytes);
	else mc::writeFile(root + "/music.clm", ref::encodeClm(ref::waveFormat(0), { { "S", bytesOf("pcm-S") }, { "t1", bytesOf("pcm-t1") } }).bytes);
	loose.push_back("v1.vol"); loose.push_back("v2.vol"); loose.push_back("music.clm");
	std::map<std::string, std::vector<std::string>> archiveMembers = volMembers; archiveMembers["music.clm"] = { "S", "t1" };
	auto memberContent = [&](const std::string& arch, const std::string& member) { return arch == "music.clm" ? "pcm-" + member : contentOf(member, arch == "v1.vol" ? "v1" : "v2"); };

	auto bad = [&](const std::string& c, const std::string& key, const std::string& d) { ctx.violation("C17/resources/" + c, label + " " + key, d); };
	// the same directory under different spellings (relative ones are resolved against the working directory, which stays put for the whole layout)
	std::string ctorArg = root;
	switch (L.rootSpelling) {
	case 1: if (::chdir(root.c_str()) != 0) std::abort(); ctorArg = ""; break;
	case 2: if (::chdir(root.c_str()) != 0) std::abort(); ctorArg = "."; break;
	case 3: if (::chdir(root.c_str()) != 0) std::abort(); ctorArg = "./"; break;
	case 4: ctorArg = root + "/"; break;
	case 5: if (::chdir((root + "/sub").c_str()) != 0) std::abort(); ctorArg = "../../" + L.rootName; break;
	default: break;
	}
	ctx.count(("resources/root-spelling-" + std::to_string(L.rootSpelling)).c_str());
	std::unique_ptr<ResourceManager> rm;
	auto oc = mc::guarded([&] { rm = std::make_unique<ResourceManager>(ctorArg); });
	ctx.transition();
	if (oc.cls != 'R') { bad("construction-throws", "", oc.what); mc::removeTree(base); return; }
	std::vector<std::string> order;   // archive file names in load order
	for (auto& p : rm->GetArchiveFilenames()) { auto s = p.rfind('/'); order.push_back(s == std::string::npos ? p : p.substr(s + 1)); }
	{ std::set<std::string> got(order.begin(), order.end()); if (got != std::set<std::string>{ "v1.vol", "v2.vol", "music.clm" }) { std::string all; for (auto& o : order) all += o + " "; bad("loaded-archives", "", all); mc::removeTree(base); return; } }

	// --- streams ---
	std::set<std::string> queryNames = { "a.txt", "B.TXT", "c.map", "s", "t1", "zz.txt", "inner.txt", "n..o.txt", "v..2.txt", "q{1].txt", "q[1].txt", "absent..x" };
	for (auto& qn : queryNames) for (auto& q : variants(qn)) for (int access = 0; access < 2; ++access) {
		std::string key = "GetResourceStream('" + q + "', " + (access ? "true" : "false") + ")";
		ctx.sub(label + " " + key);
		std::string expect; bool expectNull = true;
		std::string plain = q.rfind("./", 0) == 0 ? q.substr(2) : q;
		if (std::find(loose.begin(), loose.end(), plain) != loose.end() && L.place.count(plain)) { expect = contentOf(plain, "loose"); expectNull = false; }
		// from an archive: "a member of that name from a loaded archive" - which archive, when several hold the name, is not said
		std::vector<std::string> alsoRight;
		if (expectNull && access) for (auto& arch : order) for (auto& m : archiveMembers[arch]) if (ref::equalFold(m, plain)) { if (expectNull) { expect = memberContent(arch, m); expectNull = false; } else alsoRight.push_back(memberContent(arch, m)); break; }
		std::unique_ptr<Stream::BidirectionalReader> st;
		auto o = mc::guarded([&] { st = rm->GetResourceStream(q, access != 0); });
		ctx.transition();
		if (o.cls != 'R') { bad("stream-throws", key, o.what); continue; }
		if (expectNull) { ctx.count("resources/expected-nothing"); if (st) bad("stream-for-missing-resource", key, "a stream was returned"); continue; }
		ctx.count(expect.find("@loose") != std::string::npos ? "resources/loose-first" : "resources/from-archive");
		if (!st) { bad("no-stream-for-existing-resource", key, "expected '" + expect + "'"); continue; }
		std::string got(std::size_t(st->Length()), '\0');
		auto orr = mc::guarded([&] { st->Read(&got[0], got.size()); });
		if (orr.cls == 'R' && got != expect && std::find(alsoRight.begin(), alsoRight.end(), got) != alsoRight.end()) { ctx.count("resources/from-another-archive-holding-the-name"); continue; }
		if (orr.cls != 'R' || got != expect) bad("wrong-bytes", key, "got '" + got + "' expected '" + expect + "'");
	}
	for (const std::string& q : { std::string("/a.txt"), std::string("/etc/passwd"), root + "/a.txt", std::string("/") }) {
		auto o = mc::guarded([&] { rm->GetResourceStream(q, true); });
		ctx.transition(); ctx.count("resources/rooted-paths");
		if (o.cls == 'R') bad("rooted-path-accepted", "GetResourceStream('" + q + "')", "");
	}
	for (const std::string& q : { std::string("sub"), std::string("./sub"), std::string("dir.vol") }) for (int access = 0; access < 2; ++access) {
		std::unique_ptr<Stream::BidirectionalReader> st;
		auto o = mc::guarded([&] { st = rm->GetResourceStream(q, access != 0); });
		ctx.transition(); ctx.count("resources/directory-names");
		if (o.cls == 'R' && st) bad("stream-for-a-directory", "GetResourceStream('" + q + "')", "a directory is not a loose file");
	}
	// --- type listings ---
	auto extOf = [](const std::string& n) { auto d = n.rfind('.'); return d == std::string::npos || d == 0 ? std::string() : n.substr(d); };
	for (const std::string& e : { std::string(".txt"), std::string("txt"), std::string(".TXT"), std::string(".map"), std::string(".vol"), std::string(".clm"), std::string(".zzz"), std::string(".tx2"), std::string(".tx3"), std::string("") }) for (int access = 0; access < 2; ++access) {
		std::string key = "GetAllFilenamesOfType('" + e + "', " + (access ? "true" : "false") + ")";
		ctx.sub(label + " " + key);
		std::vector<std::string> got;
		auto o = mc::guarded([&] { got = rm->GetAllFilenamesOfType(e, access != 0); });
		ctx.transition();
		if (o.cls != 'R') { bad("type-listing-throws", key, o.what); continue; }
		std::string dotted = !e.empty() && e[0] != '.' ? "." + e : e;
		// lower bound: loose regular files whose extension equals the query exactly
		for (auto& f : loose) if (extOf(f) == e && std::find(got.begin(), got.end(), f) == got.end()) bad("type-listing-misses-loose-file", key, f);
		// upper bound: nothing that fails a case-insensitive extension match; no directories; members only with archive access
		for (auto& g : got) {
			bool isLoose = std::find(loose.begin(), loose.end(), g) != loose.end();
			bool isMember = false; for (auto& am : archiveMembers) for (auto& m : am.second) if (m == g) isMember = true;
			if (!isLoose && !isMember) { bad("type-listing-contains-unknown-entry", key, g); continue; }
			if (!ref::equalFold(extOf(g), dotted)) bad("type-listing-contains-non-matching-entry", key, g);
			if (!isLoose && !access) bad("type-listing-contains-member-without-archive-access", key, g);
		}
		if (access) {
			// every member with an exactly matching extension is present itself or shadowed by an entry equal ignoring case
			for (auto& am : archiveMembers) for (auto& m : am.second) if (extOf(m) == dotted) { bool ok = false; for (auto& g : got) if (ref::equalFold(g, m)) ok = true; if (!ok) bad("type-listing-misses-member", key, m); }
			// a member appears only if no name already listed equals it ignoring case
			for (std::size_t i = 0; i < got.size(); ++i) for (std::size_t j = i + 1; j < got.size(); ++j) if (ref::equalFold(got[i], got[j])) { bool bothLoose = std::find(loose.begin(), loose.end(), got[i]) != loose.end() && std::find(loose.begin(), loose.end(), got[j]) != loose.end() && got[i] != got[j]; if (!bothLoose) bad("type-listing-duplicate-ignoring-case", key, got[i] + " / " + got[j]); }
		}
		ctx.count("resources/type-listings");
	}
	// --- pattern listings ---
	for (const std::string& pat : { std::string("a"), std::string("\\.txt$"), std::string("^b"), std::string("zzz"), L.rootName, std::string("vol") }) for (int access = 0; access < 2; ++access) {
		std::string key = "GetAllFilenames('" + pat + "', " + (access ? "true" : "false") + ")";
		ctx.sub(label + " " + key);
		std::vector<std::string> got;
		auto o = mc::guarded([&] { got = rm->GetAllFilenames(pat, access != 0); });
		ctx.transition();
		if (o.cls != 'R') { bad("pattern-listing-throws", key, o.what); continue; }
		std::regex exact(pat), blind(pat, std::regex_constants::icase);
		for (auto& f : loose) if (std::regex_search(f, exact) && std::find(got.begin(), got.end(), f) == got.end()) bad("pattern-listing-misses-loose-file", key, f);
		if (access) for (auto& am : archiveMembers) for (auto& m : am.second) if (std::regex_search(m, exact) && std::find(got.begin(), got.end(), m) == got.end()) bad("pattern-listing-misses-member", key, m);
		for (auto& g : got) {
			bool isLoose = std::find(loose.begin(), loose.end(), g) != loose.end();
			bool isMember = false; for (auto& am : archiveMembers) for (auto& m : am.second) if (m == g) isMember = true;
			if (!isLoose && !isMember) { bad("pattern-listing-contains-unknown-entry", key, g); continue; }
			if (!std::regex_search(g, blind)) bad("pattern-listing-contains-non-matching-entry", key, "'" + g + "' does not match /" + pat + "/i");
			if (!isLoose && !access) bad("pattern-listing-contains-member-without-archive-access", key, g);
		}
		ctx.count("resources/pattern-listings");
	}
	// --- containing archive ---
	for (auto& qn : queryNames) for (auto& q : variants(qn)) {
		std::string key = "FindContainingArchivePath('" + q + "')";
		std::string got;
		auto o = mc::guarded([&] { got = rm->FindContainingArchivePath(q); });
		ctx.transition();
		if (o.cls != 'R') { bad("containing-archive-throws", key, o.what); continue; }
		std::string plain = q.rfind("./", 0) == 0 ? q.substr(2) : q;
		bool any = false; for (auto& am : archiveMembers) for (auto& m : am.second) if (ref::equalFold(m, plain)) any = true;
		// the statement asks that a reported archive contain the name; that one is reported whenever some archive does is demanded
		// only where no loose file of that name takes precedence (then no archive serves the resource, and none need be reported)
		bool shadowed = false; for (auto& lf : loose) if (ref::equalFold(lf, plain)) shadowed = true;
		if (got.empty() && any && shadowed) { ctx.count("resources/containing-archive-not-reported-for-a-shadowed-name"); continue; }
		if (got.empty() != !any) { bad("containing-archive-emptiness", key, "returned '" + got + "'"); continue; }
		if (!got.empty()) {
			auto s = got.rfind('/'); std::string file = s == std::string::npos ? got : got.substr(s + 1);
			bool contains = false; for (auto& m : archiveMembers[file]) if (ref::equalFold(m, plain)) contains = true;
			if (!archiveMembers.count(file) || !contains) bad("containing-archive-does-not-contain-the-name", key, got);
			ctx.count("resources/containing-archive-found");
		}
	}
	ctx.state(); ctx.trace();
	rm.reset();
	if (::chdir("/") != 0) std::abort();
	mc::removeTree(base);
}

std::vector<Layout> gLayouts;

void build(Ctx& ctx)
{
	gLayouts.clear();
	int nc = 8;
	for (int a = 0; a < 8; ++a) for (int b = 0; b < 8; ++b) for (int c = 0; c < nc; ++c) for (int s = 0; s < (ctx.thorough ? 2 : 1); ++s) {
		Layout L; L.place["a.txt"] = a; L.place["B.TXT"] = b; L.place["c.map"] = c; L.place["s"] = ctx.thorough ? (s ? 7 : 2) : ((a * 3 + b) % 8);
		// in every layout: names with two consecutive dots (loose, and as a member), names that differ only in one punctuation
		// character of a pair 0x20 apart ('[' and '{') placed in different volumes, and - in every other layout - one volume
		// that holds two names equal ignoring case (the reader accepts such a volume; type listings must still list one of them)
		L.place["n..o.txt"] = 1; L.place["v..2.txt"] = 2; L.place["q{1].txt"] = 2; L.place["q[1].txt"] = 4;
		if ((a + c) % 2 == 0) { L.place["dupA.tx2"] = 4; L.place["DUPA.TX2"] = 4; }
		// every fourth layout: a hundred names of one type in the first volume and the same hundred, spelled in upper case, in the second
		if ((a + b + c) % 4 == 1) for (int i = 0; i < 100; ++i) { char n1[16], n2[16]; std::snprintf(n1, sizeof n1, "f%03d.tx3", i); std::snprintf(n2, sizeof n2, "F%03d.TX3", i); L.place[n1] = 2; L.place[n2] = 4; }
		L.rootName = (a + b + c) % 4 == 0 ? "txt_a_vol_root" : "res";
		L.unsortedVolumes = ((a ^ b ^ c ^ s) & 1) != 0;
		L.rootSpelling = int((gLayouts.size() * 7 + std::size_t(a)) % 6);
		gLayouts.push_back(L);
	}
}

const std::size_t kLayoutChunk = 4;
std::size_t nLayoutCases() { return (gLayouts.size() + kLayoutChunk - 1) / kLayoutChunk; }

void runCase(std::size_t i, Ctx& ctx)
{
	if (i < 8) { archiveCases(ctx, int(i)); if (i == 0) ctx.sample("reference-encoded VOL/CLM archives over all member subsets of size <= 3: Contains/GetIndex over every case and ./ variant, GetIndex(GetName(i)) == i, out-of-range indices refused by every per-member call"); return; }
	std::size_t k = i - 8;
	for (std::size_t j = k * kLayoutChunk; j < std::min(gLayouts.size(), (k + 1) * kLayoutChunk); ++j) {
		const Layout& L = gLayouts[j];
		static const char* spell[] = { "absolute", "\"\"", "\".\"", "\"./\"", "absolute/", "../../name from sub" };
		std::string label = "layout[" + L.rootName + " as " + spell[L.rootSpelling] + (L.unsortedVolumes ? ", volume members in reverse order" : "") + "]";
		for (auto& p : L.place) if (p.first.size() < 5 || p.first.substr(p.first.size() - 4) != ".tx3" ) { std::string lower = p.first; for (auto& ch : lower) ch = char(std::tolower(static_cast<unsigned char>(ch))); if (lower.size() > 4 && lower.substr(lower.size() - 4) == ".tx3") continue; label += " " + p.first + ":" + std::string(p.second & 1 ? "L" : "-") + (p.second & 2 ? "1" : "-") + (p.second & 4 ? "2" : "-"); }
		if (L.place.count("f000.tx3")) label += " +100 .tx3 names in each volume";
		resourceLayout(ctx, L, label);
		ctx.outcome(mc::fnv(label));
		if (j == 9) ctx.sample(label + ": every query name x case variants x ./ x accessArchives; rooted paths; directory names; 8 extensions; 6 patterns; containing archive");
	}
}

} // namespace

int main(int argc, char** argv)
{
	mc::CheckDef def;
	def.id = "C17";
	def.init = build;
	def.ncases = [](Ctx&) { return 8 + nLayoutCases(); };
	def.run = runCase;
	def.caseTimeoutS = 300;
	return mc::Main(argc, argv, def);
}
