// Reference encoder of the game's custom tileset format (DESIGN.md appendix A). One number is pinned to the tree
// rather than independently known: the outer PBMP length (1068 + 32*h).
#pragma once
#include "mc/mc.hpp"
#include "ref_bmp.hpp"
#include <string>
#include <vector>

namespace ref {

// a tileset picture as a viewer sees it: 32 pixels wide, rows listed top first, 256 colours (red, green, blue, alpha)
struct RPicture {
	uint32_t height = 0;
	std::vector<RColor> palette;       // 256 entries, in-memory meaning: r, g, b, a
	std::vector<uint8_t> rowsTopDown;  // height rows of 32 bytes
};

struct TilesetKnobs {   // deviations for refusal tests
	uint32_t width = 32, depth = 8, flags = 8, tagCount = 2;
	bool overrideHeight = false; uint32_t heightField = 0;
};

inline std::vector<uint8_t> encodeCustomTileset(const RPicture& p, std::vector<Field>* f = nullptr, const TilesetKnobs& k = TilesetKnobs())
{
	std::vector<uint8_t> v;
	auto F = [&](int w, const std::string& n) { if (f) f->push_back({ v.size(), w, n }); };
	uint32_t h = p.height;
	mc::putStr(v, "PBMP"); F(4, "PBMP.length"); mc::put32(v, 1068 + 32 * h);
	mc::putStr(v, "head"); F(4, "head.length"); mc::put32(v, 20);
	F(4, "head.tagCount"); mc::put32(v, k.tagCount);
	F(4, "head.width"); mc::put32(v, k.width);
	F(4, "head.height"); mc::put32(v, k.overrideHeight ? k.heightField : h);
	F(4, "head.bitDepth"); mc::put32(v, k.depth);
	F(4, "head.flags"); mc::put32(v, k.flags);
	mc::putStr(v, "PPAL"); F(4, "PPAL.length"); mc::put32(v, 1048);
	mc::putStr(v, "head"); F(4, "PPAL.head.length"); mc::put32(v, 4);
	F(4, "PPAL.tagCount"); mc::put32(v, 1);
	mc::putStr(v, "data"); F(4, "palette.length"); mc::put32(v, 1024);
	for (auto& c : p.palette) { v.push_back(c.b); v.push_back(c.g); v.push_back(c.r); v.push_back(c.a); }
	mc::putStr(v, "data"); F(4, "pixels.length"); mc::put32(v, 32 * h);
	v.insert(v.end(), p.rowsTopDown.begin(), p.rowsTopDown.end());
	return v;
}

} // namespace ref
