// Explorer core shared by every check: sharded, crash-isolated execution of deterministic cases,
// shared-memory statistics, violation records, replay of single cases.
#pragma once
#include <atomic>
#include <cstdint>
#include <cstdio>
#include <cstring>
#include <functional>
#include <string>
#include <vector>
#include <map>
#include <sstream>

namespace mc {

extern std::size_t alloc_cap;      // operator new refuses larger requests with bad_alloc
extern unsigned char heap_fill;    // byte pattern of fresh heap memory

std::string hex(const void* p, std::size_t n, std::size_t maxBytes = 96);
std::string jstr(const std::string& s);   // JSON string literal (with quotes)
uint64_t fnv(const void* p, std::size_t n, uint64_t h = 1469598103934665603ull);
inline uint64_t fnv(const std::string& s, uint64_t h = 1469598103934665603ull) { return fnv(s.data(), s.size(), h); }

struct Ctx {
	bool thorough = false;
	std::string tier = "quick";
	uint64_t seed = 0;
	std::size_t caseIndex = 0;
	int worker = 0;
	bool single = false;          // --case mode (replay)
	bool replaying = false;       // isolated re-run of a case whose worker died: detailed sub labels wanted

	void count(const char* name, uint64_t n = 1);
	void state(uint64_t n = 1);
	void transition(uint64_t n = 1);
	void trace(uint64_t n = 1);
	void outcome(uint64_t h);                       // distinct observed outcomes (hash set)
	void outcome(const std::string& s) { outcome(fnv(s)); }
	void sub(const std::string& label);             // current sub-case, for crash attribution
	void sample(const std::string& text);           // an example case for the evidence file
	void capHit(const char* what);                  // a bound/cap was hit: run is not exhaustive
	// site: oracle clause + operation; key: minimal identification of the failing case
	void violation(const std::string& site, const std::string& key, const std::string& detail);
	std::string scratch();                          // per-worker scratch directory (exists)
	std::string freshDir(const std::string& name);  // emptied sub-directory of scratch()
	bool deadlinePassed();
};

struct CheckDef {
	std::string id;
	std::function<void(Ctx&)> init;                       // build tables; runs once before forking
	std::function<std::size_t(Ctx&)> ncases;
	std::function<void(std::size_t, Ctx&)> run;
	std::function<std::string(std::size_t)> describe;     // optional
	int caseTimeoutS = 60;
	std::size_t fsizeLimit = 64u << 20;
};

int Main(int argc, char** argv, CheckDef& def);

// ---- small helpers used by many checks ----
struct Outcome {
	// class of a call's result: 'R' returned, 'E' std::exception, 'A' bad_alloc, 'X' other exception
	char cls = 'R';
	std::string what;
};

template <typename F>
Outcome guarded(F&& f)
{
	Outcome o;
	try { f(); }
	catch (const std::bad_alloc&) { o.cls = 'A'; o.what = "bad_alloc"; }
	catch (const std::exception& e) { o.cls = 'E'; o.what = e.what(); }
	catch (...) { o.cls = 'X'; o.what = "non-std exception"; }
	return o;
}

std::vector<uint8_t> readFile(const std::string& path, bool* ok = nullptr);
void writeFile(const std::string& path, const void* p, std::size_t n);
inline void writeFile(const std::string& path, const std::vector<uint8_t>& v) { writeFile(path, v.data(), v.size()); }
void removeTree(const std::string& path);
void makeDir(const std::string& path);
uint64_t hashTree(const std::string& dir);   // hash of names, types and contents below dir

// content byte j of logical file f
inline uint8_t contentByte(uint32_t f, uint64_t j)
{
	uint64_t x = (uint64_t(f) + 1) * 0x9E3779B97F4A7C15ull + j * 0xBF58476D1CE4E5B9ull;
	x ^= x >> 29; x *= 0x94D049BB133111EBull; x ^= x >> 32;
	return uint8_t(x);
}

// little-endian put/get on byte vectors
inline void put8(std::vector<uint8_t>& v, uint8_t x) { v.push_back(x); }
inline void put16(std::vector<uint8_t>& v, uint16_t x) { v.push_back(uint8_t(x)); v.push_back(uint8_t(x >> 8)); }
inline void put32(std::vector<uint8_t>& v, uint32_t x) { for (int i = 0; i < 4; ++i) v.push_back(uint8_t(x >> (8 * i))); }
inline void putStr(std::vector<uint8_t>& v, const std::string& s) { v.insert(v.end(), s.begin(), s.end()); }
inline void putZeros(std::vector<uint8_t>& v, std::size_t n) { v.insert(v.end(), n, 0); }
inline uint16_t get16(const std::vector<uint8_t>& v, std::size_t o) { return uint16_t(v[o] | (v[o + 1] << 8)); }
inline uint32_t get32(const std::vector<uint8_t>& v, std::size_t o) { return uint32_t(v[o]) | (uint32_t(v[o + 1]) << 8) | (uint32_t(v[o + 2]) << 16) | (uint32_t(v[o + 3]) << 24); }
inline void set32(std::vector<uint8_t>& v, std::size_t o, uint32_t x) { for (int i = 0; i < 4; ++i) v[o + i] = uint8_t(x >> (8 * i)); }
inline void set16(std::vector<uint8_t>& v, std::size_t o, uint16_t x) { v[o] = uint8_t(x); v[o + 1] = uint8_t(x >> 8); }

template <typename T>
std::string str(const T& v) { std::ostringstream o; o << v; return o.str(); }

} // namespace mc
