// C19 - ordering, path-equality and bit helpers obey the laws their callers assume.
// Exhaustive pairs and triples over all strings up to a length bound (relation bit-matrices), path laws over the
// same string set, all 2^32 inputs of the power-of-two test.
//   VERIF_PART=small : strings of length <= 3 over {a,A,b,B,_,.,/,0}        (ASan+UBSan build)
//   VERIF_PART=bits  : all 2^32 values, all 32 powers                      (plain -O2 build)
//   VERIF_PART=big   : strings of length <= 4; all 1-2 byte strings over all 256 byte values (plain build, thorough)
#include "mc/mc.hpp"
#include "StringUtility.h"
#include "XFile.h"
#include "BitTwiddle.h"
#include "Archive/ArchiveFile.h"
#include "Archive/VolFile.h"
#include <unistd.h>
#include <algorithm>
#include <memory>
#include <map>
#include <set>
#include <functional>
#include <thread>
#include <atomic>

using namespace OP2Utility;
using mc::Ctx;

namespace {

std::vector<std::string> allStrings(const std::string& alphabet, int maxLen)
{
	std::vector<std::string> v = { "" };
	std::size_t from = 0;
	for (int l = 1; l <= maxLen; ++l) { std::size_t to = v.size(); for (std::size_t i = from; i < to; ++i) for (char c : alphabet) v.push_back(v[i] + c); from = to; }
	return v;
}

struct BitMatrix {
	std::size_t n, words;
	std::vector<uint64_t> bits;
	explicit BitMatrix(std::size_t n) : n(n), words((n + 63) / 64), bits(n * ((n + 63) / 64), 0) {}
	void set(std::size_t i, std::size_t j) { bits[i * words + j / 64] |= uint64_t(1) << (j % 64); }
	bool get(std::size_t i, std::size_t j) const { return (bits[i * words + j / 64] >> (j % 64)) & 1; }
	const uint64_t* row(std::size_t i) const { return &bits[i * words]; }
};

template <class F>
void fill(BitMatrix& m, const std::vector<std::string>& S, F rel, int threads)
{
	std::atomic<std::size_t> next{ 0 };
	auto work = [&] { for (;;) { std::size_t i = next.fetch_add(1); if (i >= S.size()) break; for (std::size_t j = 0; j < S.size(); ++j) if (rel(S[i], S[j])) m.set(i, j); } };
	if (threads <= 1) { work(); return; }
	std::vector<std::thread> ts; for (int t = 0; t < threads; ++t) ts.emplace_back(work);
	for (auto& t : ts) t.join();
}

std::string q(const std::string& s) { return "'" + mc::hex(s.data(), s.size()) + "'(" + s + ")"; }

// strict weak ordering whose incomparability is EQ; all pairs and all triples (triples through row operations)
void orderingLaws(Ctx& ctx, const std::vector<std::string>& S, int threads, const std::string& label)
{
	std::size_t n = S.size();
	BitMatrix LT(n), EQ(n);
	fill(LT, S, [](const std::string& a, const std::string& b) { return StringUtility::IsEqualCaseInsensitive(a, b); }, threads);
	fill(EQ, S, [](const std::string& a, const std::string& b) { return StringUtility::IsEqual(a, b); }, threads);
	ctx.transition(2 * n * n);
	for (std::size_t i = 0; i < n; ++i) {
		if (LT.get(i, i)) { ctx.violation("C19/order/not-irreflexive", label + " " + q(S[i]), ""); return; }
		for (std::size_t j = 0; j < n; ++j) {
			bool a = LT.get(i, j), b = LT.get(j, i);
			if (a && b) { ctx.violation("C19/order/not-asymmetric", label + " " + q(S[i]) + " " + q(S[j]), ""); return; }
			bool incomparable = !a && !b;
			if (incomparable != EQ.get(i, j)) { ctx.violation("C19/order/incomparability-differs-from-case-insensitive-equality", label + " " + q(S[i]) + " " + q(S[j]), incomparable ? "incomparable but not equal ignoring case" : "equal ignoring case but ordered"); return; }
		}
	}
	ctx.count("order/pairs", n * n);
	for (std::size_t i = 0; i < n; ++i) ctx.outcome(mc::fnv(LT.row(i), LT.words * 8));   // distinct rows = classes of equal-ignoring-case strings
	// transitivity: a<b implies row(b) subset of row(a); incomparability transitive: a~b implies row_LT(a) == row_LT(b) (and columns by asymmetry+pairs)
	std::atomic<bool> failed{ false };
	std::atomic<std::size_t> next{ 0 };
	std::string failKey, failWhat;
	std::atomic<int> lock{ 0 };
	auto work = [&] {
		for (;;) {
			std::size_t a = next.fetch_add(1); if (a >= n || failed) break;
			const uint64_t* ra = LT.row(a);
			for (std::size_t b = 0; b < n; ++b) {
				const uint64_t* rb = LT.row(b);
				if (LT.get(a, b)) { for (std::size_t w = 0; w < LT.words; ++w) if (rb[w] & ~ra[w]) { if (!failed.exchange(true)) { std::size_t c = w * 64; uint64_t x = rb[w] & ~ra[w]; while (!(x & 1)) { x >>= 1; ++c; } failKey = q(S[a]) + " < " + q(S[b]) + " < " + q(S[c]); failWhat = "C19/order/not-transitive"; } return; } }
				else if (EQ.get(a, b)) { for (std::size_t w = 0; w < LT.words; ++w) if (rb[w] != ra[w]) { if (!failed.exchange(true)) { failKey = q(S[a]) + " ~ " + q(S[b]); failWhat = "C19/order/incomparability-not-transitive"; } return; } }
			}
		}
	};
	std::vector<std::thread> ts; for (int t = 0; t < std::max(1, threads); ++t) ts.emplace_back(work);
	for (auto& t : ts) t.join();
	if (failed) { ctx.violation(failWhat, label + " " + failKey, ""); return; }
	ctx.count("order/triples", n * n * n);
	ctx.transition(n * n * LT.words);
	ctx.state(n);
}

void pathEqualityLaws(Ctx& ctx, const std::vector<std::string>& S, int threads, const std::string& label)
{
	std::size_t n = S.size();
	BitMatrix PE(n), EQ(n);
	fill(PE, S, [](const std::string& a, const std::string& b) { return XFile::PathsAreEqual(a, b); }, threads);
	fill(EQ, S, [](const std::string& a, const std::string& b) { return StringUtility::IsEqual(a, b); }, threads);
	ctx.transition(2 * n * n);
	for (std::size_t i = 0; i < n; ++i) {
		if (!PE.get(i, i)) { ctx.violation("C19/path-equality/not-reflexive", label + " " + q(S[i]), ""); return; }
		for (std::size_t j = 0; j < n; ++j) {
			if (PE.get(i, j) != PE.get(j, i)) { ctx.violation("C19/path-equality/not-symmetric", label + " " + q(S[i]) + " " + q(S[j]), ""); return; }
			if (EQ.get(i, j) && !PE.get(i, j)) { ctx.violation("C19/path-equality/does-not-contain-case-insensitive-equality", label + " " + q(S[i]) + " " + q(S[j]), ""); return; }
		}
	}
	ctx.count("path-equality/pairs", n * n);
	for (std::size_t i = 0; i < n; ++i) ctx.outcome(mc::fnv(PE.row(i), PE.words * 8) ^ 0x5555);   // distinct rows = path-equality classes
	for (std::size_t a = 0; a < n; ++a) for (std::size_t b = a + 1; b < n; ++b) if (PE.get(a, b)) {
		const uint64_t* ra = PE.row(a); const uint64_t* rb = PE.row(b);
		for (std::size_t w = 0; w < PE.words; ++w) if (ra[w] != rb[w]) { std::size_t c = w * 64; uint64_t x = ra[w] ^ rb[w]; while (!(x & 1)) { x >>= 1; ++c; } ctx.violation("C19/path-equality/not-transitive", label + " " + q(S[a]) + " = " + q(S[b]) + " but they disagree about " + q(S[c]), ""); return; }
	}
	ctx.count("path-equality/triples", n * n * n);
	// a leading "./" is ignored for relative paths made of plain components
	for (auto& s : S) {
		bool plain = !s.empty() && s.front() != '/' && s.back() != '/' && s.find("//") == std::string::npos;
		if (plain) { std::size_t st = 0; while (st <= s.size()) { std::size_t e = s.find('/', st); if (e == std::string::npos) e = s.size(); std::string comp = s.substr(st, e - st); if (comp.empty() || comp == "." || comp == "..") plain = false; st = e + 1; } }
		if (!plain) continue;
		ctx.count("path-equality/dot-slash-prefix");
		if (!XFile::PathsAreEqual(s, "./" + s) || !XFile::PathsAreEqual("./" + s, s)) { ctx.violation("C19/path-equality/leading-dot-slash-not-ignored", label + " " + q(s), ""); return; }
	}
	ctx.state(n);
}

void pathLaws(Ctx& ctx, const std::vector<std::string>& S, const std::string& label)
{
	std::vector<std::string> dirs, names;
	for (auto& s : S) { if (s.empty() || s[0] != '/') dirs.push_back(s); if (!s.empty() && s.find('/') == std::string::npos) names.push_back(s); }
	// join then take the file name back
	for (auto& d : dirs) for (auto& f : names) {
		std::string joined, back;
		auto o = mc::guarded([&] { joined = XFile::Append(d, f); back = XFile::GetFilename(joined); });
		ctx.transition();
		if (o.cls != 'R') { ctx.violation("C19/path/join-throws", label + " Append(" + q(d) + "," + q(f) + ")", o.what); return; }
		if (back != f) { ctx.violation("C19/path/filename-of-join", label + " Append(" + q(d) + "," + q(f) + ") = " + q(joined), "GetFilename gives " + q(back)); return; }
	}
	ctx.count("path/join-filename", dirs.size() * names.size());
	// split and re-join
	for (auto& p : S) {
		std::string dir, file, joined; bool eq = false;
		auto o = mc::guarded([&] { dir = XFile::GetDirectory(p); file = XFile::GetFilename(p); joined = XFile::Append(dir, file); eq = XFile::PathsAreEqual(joined, p); });
		ctx.transition();
		if (o.cls != 'R') { ctx.count("path/split-rejoin-not-defined"); continue; }
		ctx.count(!p.empty() && p[0] == '/' ? "path/split-rejoin-rooted" : "path/split-rejoin-relative");
		if (!eq) { ctx.violation(std::string("C19/path/split-and-rejoin-differs/") + (!p.empty() && p[0] == '/' ? "rooted" : "relative"), label + " " + q(p), "GetDirectory " + q(dir) + " GetFilename " + q(file) + " re-joined " + q(joined)); return; }
	}
	// the same split-and-re-join law with a refused join in between: Append(dir, "/rooted") must throw and must not leave
	// anything behind that the next join of that directory picks up; likewise a join of another directory first
	{
		std::string prevDir;
		for (auto& p : S) {
			std::string dir, file, joined; bool eq = false;
			auto o0 = mc::guarded([&] { dir = XFile::GetDirectory(p); file = XFile::GetFilename(p); });
			if (o0.cls != 'R') continue;
			auto o1 = mc::guarded([&] { (void)XFile::Append(prevDir, "x"); });   // a successful join of the previous directory
			(void)o1;
			auto o2 = mc::guarded([&] { (void)XFile::Append(dir, "/rooted"); });   // a refused join of this directory
			ctx.transition(3);
			if (o2.cls == 'R') { ctx.violation("C19/path/rooted-second-operand-accepted", label + " Append(" + q(dir) + ",\"/rooted\")", ""); return; }
			auto o3 = mc::guarded([&] { joined = XFile::Append(dir, file); eq = XFile::PathsAreEqual(joined, p); });
			if (o3.cls != 'R') { prevDir = dir; continue; }
			ctx.count("path/split-rejoin-after-a-refused-join");
			if (!eq) { ctx.violation("C19/path/split-and-rejoin-differs/after-a-refused-join", label + " " + q(p), "GetDirectory " + q(dir) + " GetFilename " + q(file) + " re-joined " + q(joined) + " (after Append(" + q(prevDir) + ",x) and a refused Append(" + q(dir) + ",/rooted))"); return; }
			prevDir = dir;
		}
	}
	// replace the extension, then it matches in any letter case
	static const char* exts[] = { "x", "X", ".x", "txt", ".Txt", "a1" };
	for (auto& f : names) {
		if (f == "." || f == "..") continue;
		for (auto e : exts) {
			std::string changed;
			auto o = mc::guarded([&] { changed = XFile::ChangeFileExtension(f, e); });
			if (o.cls != 'R') { ctx.violation("C19/path/change-extension-throws", label + " " + q(f) + " " + e, o.what); return; }
			std::string bare = e[0] == '.' ? std::string(e + 1) : std::string(e);
			std::vector<std::string> variants;
			for (int dot = 0; dot < 2; ++dot) for (int mode = 0; mode < 3; ++mode) { std::string v = bare; for (auto& c : v) c = mode == 0 ? char(tolower(c)) : mode == 1 ? char(toupper(c)) : c; variants.push_back((dot ? "." : "") + v); }
			for (auto& v : variants) { ctx.transition(); if (!XFile::ExtensionMatches(changed, v)) { ctx.violation("C19/path/changed-extension-does-not-match", label + " ChangeFileExtension(" + q(f) + "," + e + ") = " + q(changed), "ExtensionMatches(..., " + v + ") is false"); return; } }
		}
	}
	ctx.count("path/extension-names", names.size());
	ctx.state(S.size());
}

void powerOfTwo(Ctx& ctx, uint64_t from, uint64_t to)
{
	uint64_t powers = 0;
	for (uint64_t v = from; v < to; ++v) {
		bool expect = __builtin_popcountll(v) == 1;
		if (IsPowerOf2(uint32_t(v)) != expect) { ctx.violation("C19/bits/power-of-two-test", std::to_string(v), expect ? "is a power of two" : "is not a power of two"); return; }
		powers += expect;
	}
	ctx.count("bits/values", to - from); ctx.count("bits/powers-in-range", powers);
	ctx.transition(to - from); ctx.state(to - from);
}

// "sorting is deterministic up to equal names and adjacent-duplicate detection is complete": every list of up to maxLen
// names over a pool (all orders, repetitions included) is sorted with the library's comparator as the archive writers
// do (by file name), then offered to the library's duplicate check: it must refuse exactly the lists holding two names
// equal ignoring case, wherever the pair ends up - first, middle or last - and every permutation of a duplicate-free
// list must sort to the same sequence
// The sort comparator and the duplicate check are protected helpers of ArchiveFile; when they are there they are called
// directly, otherwise (renamed or folded into their callers) the same lists go through VolFile::CreateArchive with real files.
template <class A, class = void> struct HasSortHelpers : std::false_type {};
template <class A> struct HasSortHelpers<A, std::void_t<
	decltype(A::ComparePathFilenames(std::declval<const std::string&>(), std::declval<const std::string&>())),
	decltype(A::VerifySortedContainerHasNoDuplicateNames(std::declval<const std::vector<std::string>&>()))>> : std::true_type {};

template <class A> mc::Outcome sortAndVerify(const std::vector<std::string>& names, std::vector<std::string>& sorted)
{
	if constexpr (HasSortHelpers<A>::value) {
		sorted = names;
		std::sort(sorted.begin(), sorted.end(), A::ComparePathFilenames);                   // as the archive writers do: sort the paths,
		for (auto& p : sorted) p = XFile::GetFilename(p);                                   // take the member names,
		return mc::guarded([&] { A::VerifySortedContainerHasNoDuplicateNames(sorted); });   // and check neighbours
	}
	else {
		sorted.clear();
		::unlink("o.vol");
		return mc::guarded([&] {
			Archive::VolFile::CreateArchive("o.vol", names);
			Archive::VolFile vol("o.vol");
			for (std::size_t i = 0; i < vol.GetCount(); ++i) sorted.push_back(vol.GetName(i));
		});
	}
}

void sortAndDuplicates(Ctx& ctx, int maxLen)
{
	// paths to pack: plain names, names with a backslash (an ordinary character here), and names below a directory (the member name is the last component)
	const std::vector<std::string> pool = { "a", "A", "ab", "aB", "a_", "b", "B.x", "b.X", "z9", "Z9", "z\\a", "Z\\A", "d/A" };
	auto nameOf = [](const std::string& p) { auto s = p.rfind('/'); return s == std::string::npos ? p : p.substr(s + 1); };
	auto fold = [](const std::string& x) { std::string r = x; for (auto& c : r) if (c >= 'A' && c <= 'Z') c = char(c + 32); return r; };
	std::vector<int> idx;
	uint64_t lists = 0;
	if (!HasSortHelpers<Archive::ArchiveFile>::value) {
		ctx.count("binding/fallback-keys");
		std::string dir = ctx.freshDir("sortdup");
		if (::chdir(dir.c_str()) != 0) std::abort();
		mc::makeDir("d");
		for (auto& n : pool) mc::writeFile(n, n.data(), 1);
	}
	std::map<std::vector<std::string>, std::vector<std::string>> sortedOf;   // set of names (sorted bytewise) -> sequence after the library sort
	std::function<void()> rec = [&] {
		{
			std::vector<std::string> names; for (int i : idx) names.push_back(pool[i]);
			std::vector<std::string> sorted;
			bool dup = false; { std::set<std::string> seen; for (auto& n : names) if (!seen.insert(fold(nameOf(n))).second) dup = true; }
			std::string key; for (auto& n : names) key += n + " ";
			if ((lists & 255) == 0) ctx.sub("names " + key);
			auto o = sortAndVerify<Archive::ArchiveFile>(names, sorted);
			ctx.transition(); ++lists;
			ctx.count(dup ? "duplicates/lists-with-a-duplicate" : "duplicates/duplicate-free-lists");
			if (dup && o.cls == 'R') { std::string so; for (auto& n : sorted) so += n + " "; ctx.violation("C19/duplicates/undetected", "names " + key, "sorted as " + so); }
			if (!dup && o.cls != 'R') ctx.violation("C19/duplicates/false-report", "names " + key, o.what);
			if (!dup) {
				std::vector<std::string> ms = names; std::sort(ms.begin(), ms.end());   // the same names (exact spelling) in another order
				auto it = sortedOf.find(ms);
				if (it == sortedOf.end()) sortedOf[ms] = sorted;
				else if (it->second != sorted) { std::string so; for (auto& n : sorted) so += n + " "; ctx.violation("C19/order/sort-depends-on-input-order", "names " + key, "sorted as " + so); }
			}
		}
		if (int(idx.size()) == maxLen) return;
		for (int i = 0; i < int(pool.size()); ++i) { idx.push_back(i); rec(); idx.pop_back(); }
	};
	rec();
	if (!HasSortHelpers<Archive::ArchiveFile>::value && ::chdir("/") != 0) std::abort();
	ctx.state(lists); ctx.trace(lists);
}

struct CaseDef { int kind; uint64_t a, b; };
std::vector<CaseDef> gCases;
std::string gPart;

void build(Ctx& ctx)
{
	gCases.clear();
	const char* part = std::getenv("VERIF_PART");
	gPart = part ? part : "small";
	if (gPart == "bits") { for (uint64_t c = 0; c < 64; ++c) gCases.push_back({ 10, c << 26, (c + 1) << 26 }); gCases.push_back({ 11, 0, 0 }); return; }
	if (gPart == "big") {
		uint64_t len = ctx.thorough ? 5 : 4;
		gCases.push_back({ 0, len, 16 }); gCases.push_back({ 1, len, 16 }); gCases.push_back({ 2, 4, 16 }); gCases.push_back({ 3, 0, 16 }); gCases.push_back({ 4, 0, 16 }); return;
	}
	gCases.push_back({ 0, 3, 1 }); gCases.push_back({ 1, 3, 1 }); gCases.push_back({ 2, 3, 1 }); gCases.push_back({ 5, 0, 1 });
	gCases.push_back({ 6, uint64_t(ctx.thorough ? 5 : 4), 1 });
	gCases.push_back({ 7, 3, 1 });
}

void runCase(std::size_t i, Ctx& ctx)
{
	const CaseDef& c = gCases[i];
	const std::string alphabet = "aAbB_./0";
	switch (c.kind) {
	case 0: { auto S = allStrings(alphabet, int(c.a)); orderingLaws(ctx, S, int(c.b), "len<=" + std::to_string(c.a)); ctx.trace(); ctx.sample("all " + std::to_string(S.size()) + " strings of length <= " + std::to_string(c.a) + " over {a,A,b,B,_,.,/,0}: comparator and IsEqual on all pairs, strict-weak-order laws on all triples (bit-matrix rows)"); break; }
	case 1: { auto S = allStrings(alphabet, int(c.a)); pathEqualityLaws(ctx, S, int(c.b), "len<=" + std::to_string(c.a)); ctx.trace(); break; }
	case 2: { auto S = allStrings(alphabet, int(c.a)); pathLaws(ctx, S, "len<=" + std::to_string(c.a)); ctx.trace(); ctx.sample("path laws: GetFilename(Append(d,f)) == f for all relative d and plain f; PathsAreEqual(Append(GetDirectory(p),GetFilename(p)),p) for all p; ExtensionMatches(ChangeFileExtension(f,e),e') for 6 extensions x 6 spellings"); break; }
	case 3: {   // all 1-byte strings over all 256 byte values: full laws; 2-byte strings: pairs against a 1-byte and a reduced 2-byte set
		std::string all; for (int b = 1; b < 256; ++b) all.push_back(char(b));
		auto S1 = allStrings(all, 1);
		orderingLaws(ctx, S1, int(c.b), "all single bytes");
		ctx.trace(); break;
	}
	case 4: {
		std::string bytes; for (int b : { 0x01, 0x40, 0x41, 0x5A, 0x5B, 0x60, 0x61, 0x7A, 0x7B, 0x7F, 0x80, 0x81, 0xC0, 0xC1, 0xDF, 0xE0, 0xE1, 0xFE, 0xFF }) bytes.push_back(char(b));
		auto S = allStrings(bytes, 3);
		orderingLaws(ctx, S, int(c.b), "19 boundary bytes incl. >= 0x80, length <= 3");
		ctx.trace(); break;
	}
	case 5: {   // quick: bytes >= 0x80 on a small set
		std::string bytes; for (int b : { 0x41, 0x61, 0x5B, 0x7F, 0x80, 0xC1, 0xE1, 0xFF }) bytes.push_back(char(b));
		auto S = allStrings(bytes, 2);
		orderingLaws(ctx, S, 1, "8 boundary bytes incl. >= 0x80, length <= 2");
		ctx.trace(); break;
	}
	case 7: { auto S = allStrings("aC:\\ ./-", int(c.a)); pathLaws(ctx, S, "len<=" + std::to_string(c.a) + " over {a,C,:,\\,space,.,/,-}"); ctx.trace(); break; }   // names that would be special elsewhere (a drive letter, a backslash) are plain names here
	case 6: sortAndDuplicates(ctx, int(c.a)); ctx.sample("every list of up to " + std::to_string(c.a) + " names over a 10-name pool: sorted with the library comparator, duplicate check must refuse exactly the lists with two names equal ignoring case"); break;
	case 10: powerOfTwo(ctx, c.a, c.b); ctx.trace(); if (c.a == 0) ctx.sample("IsPowerOf2(v) == (popcount(v) == 1) for every v in [0, 2^26) ... 64 such blocks cover all 2^32 values"); break;
	default:
		for (uint32_t k = 0; k < 32; ++k) { ctx.transition(); ctx.count("bits/logarithms"); if (Log2OfPowerOf2(uint32_t(1) << k) != k) ctx.violation("C19/bits/log2-of-power", "2^" + std::to_string(k), std::to_string(Log2OfPowerOf2(uint32_t(1) << k))); }
		ctx.state(32); ctx.trace();
	}
}

} // namespace

int main(int argc, char** argv)
{
	mc::CheckDef def;
	def.id = "C19";
	def.init = build;
	def.ncases = [](Ctx&) { return gCases.size(); };
	def.run = runCase;
	def.caseTimeoutS = 1500;
	mc::alloc_cap = std::size_t(4) << 30;   // the explorer's own tables (seen set, parent links, bit matrices) exceed the default 64 MiB environment cap; no library allocation in this check is driven by input sizes
	return mc::Main(argc, argv, def);
}
