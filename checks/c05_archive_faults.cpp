// C05 - VOL/CLM readers and WAV intake are safe on arbitrary bytes.
// Deviation-bounded fault enumeration over reference-encoded seed archives (prefixes, field x boundary value, byte
// substitutions, field pairs, coordinated multi-field corruptions); for every file that opens, explicit-state
// reachability over all call sequences of the archive object (state = shared file reader's position and flags),
// with a differential oracle against a freshly opened object.
#include "mc/mc.hpp"
#include "mc/faults.hpp"
#include "mc/peek.hpp"
#include "ref/ref_vol.hpp"
#include "ref/ref_clm.hpp"
#include "ref/ref_lzh.hpp"
#include "ref/ref_wav.hpp"
#include "Archive/VolFile.h"
#include "Archive/ClmFile.h"
#include <memory>
#include <set>
#include <map>
#include <deque>
#include <functional>
#include <unistd.h>

using namespace OP2Utility;
using mc::Ctx;

namespace {

enum OpKind { kGetCount, kGetName, kGetSize, kGetKind, kGetIndex, kContains, kOpenStreamI, kExtractI, kExtractN, kOpenStreamN };
struct AOp { int kind; std::size_t idx; std::string name; };

std::string showOp(const AOp& o)
{
	static const char* n[] = { "GetCount", "GetName", "GetSize", "GetCompressionCode", "GetIndex", "Contains", "OpenStream", "ExtractFile", "ExtractFile", "OpenStream" };
	std::string s = n[o.kind];
	if (o.kind == kGetCount) return s + "()";
	if (o.kind == kGetIndex || o.kind == kContains || o.kind == kExtractN || o.kind == kOpenStreamN) return s + "('" + o.name + "')";
	return s + "(" + (o.idx == SIZE_MAX ? std::string("SIZE_MAX") : std::to_string(o.idx)) + ")";
}

struct FileUnderTest {
	bool vol;
	std::string path, outPath;
	const std::vector<uint8_t>* bytes;
	std::string desc;
};

std::unique_ptr<Archive::ArchiveFile> openArchive(const FileUnderTest& f)
{
	if (f.vol) return std::make_unique<Archive::VolFile>(f.path);
	return std::make_unique<Archive::ClmFile>(f.path);
}

bool gReaderKeyAvailable = true;
std::string readerKey(Archive::ArchiveFile& a, bool vol)
{
	// full private state of the shared file reader; if the member was renamed, "" (the search then keys states by the last call)
	if (vol) return peek::volReaderKey(static_cast<Archive::VolFile&>(a), gReaderKeyAvailable);
	return peek::clmReaderKey(static_cast<Archive::ClmFile&>(a), gReaderKeyAvailable);
}

// recorded extent of member i according to the format description, read leniently from the (corrupted) bytes
bool recordedExtent(const FileUnderTest& f, std::size_t i, uint64_t& start, std::vector<uint64_t>& okLengths)
{
	const auto& v = *f.bytes;
	okLengths.clear();
	if (f.vol) {
		if (v.size() < 32) return false;
		uint64_t PS = mc::get32(v, 20) & 0x7FFFFFFFu;
		uint64_t e = 24 + PS + 8 + 14 * uint64_t(i);
		if (e + 14 > v.size()) return false;
		uint64_t block = mc::get32(v, std::size_t(e + 4));
		uint32_t indexSize = mc::get32(v, std::size_t(e + 8));
		start = block + 8;
		if (block + 8 <= v.size()) okLengths.push_back(mc::get32(v, std::size_t(block + 4)) & 0x7FFFFFFFu);
		okLengths.push_back(indexSize);   // either recorded length is accepted (weaker reading)
		return true;
	}
	uint64_t e = 60 + 16 * uint64_t(i);
	if (e + 16 > v.size()) return false;
	start = mc::get32(v, std::size_t(e + 8));
	okLengths.push_back(mc::get32(v, std::size_t(e + 12)));
	return true;
}

struct Explorer {
	Ctx& ctx;
	const FileUnderTest& f;
	std::string extentProblem;

	// observation of one call; never throws
	std::string observe(Archive::ArchiveFile& a, const AOp& op, bool judgeExtent)
	{
		std::string val;
		auto o = mc::guarded([&] {
			switch (op.kind) {
			case kGetCount: val = std::to_string(a.GetCount()); break;
			case kGetName: val = a.GetName(op.idx); break;
			case kGetSize: val = std::to_string(a.GetSize(op.idx)); break;
			case kGetKind: val = std::to_string(int(static_cast<Archive::VolFile&>(a).GetCompressionCode(op.idx))); break;
			case kGetIndex: val = std::to_string(a.GetIndex(op.name)); break;
			case kContains: val = a.Contains(op.name) ? "yes" : "no"; break;
			case kOpenStreamI: case kOpenStreamN: {
				auto st = op.kind == kOpenStreamI ? a.OpenStream(op.idx) : a.OpenStream(op.name);
				uint64_t len = st->Length();
				val = "len=" + std::to_string(len);
				if (len > f.bytes->size()) { if (judgeExtent) extentProblem = "stream Length() " + std::to_string(len) + " exceeds the file size " + std::to_string(f.bytes->size()); break; }
				std::vector<uint8_t> buf; buf.resize(std::size_t(len));
				st->Read(buf.data(), buf.size());
				val += " hash=" + std::to_string(mc::fnv(buf.data(), buf.size()));
				if (judgeExtent && extentProblem.empty()) {
					// a refused call on the member stream leaves it as usable as before: a seek across the end is refused, and the
					// stream then still delivers exactly its own bytes and nothing behind them
					st->Seek(0);
					bool refused = false;
					try { st->SeekForward(len + 1); } catch (const std::exception&) { refused = true; }
					if (!refused) extentProblem = "SeekForward(length + 1) on the member stream was accepted";
					else if (st->Position() != 0) extentProblem = "a refused SeekForward left the member stream at position " + std::to_string(st->Position());
					else {
						std::vector<uint8_t> again(std::size_t(len) + 16, 0xEE);
						std::size_t got = st->ReadPartial(again.data(), again.size());
						if (got != len || std::memcmp(again.data(), buf.data(), std::size_t(len)) != 0) extentProblem = "after a refused seek the member stream delivered " + std::to_string(got) + " bytes, it has " + std::to_string(len);
						else ctx.count("extent/streams-usable-after-a-refused-seek");
					}
				}
				if (judgeExtent && op.kind == kOpenStreamI) {
					uint64_t start; std::vector<uint64_t> lens;
					if (recordedExtent(f, op.idx, start, lens)) {
						bool lenOk = false; for (auto l : lens) if (l == len) lenOk = true;
						if (!lenOk) extentProblem = "stream Length() " + std::to_string(len) + " is none of the recorded lengths";
						else if (start + len > f.bytes->size()) extentProblem = "stream delivered although the recorded extent [" + std::to_string(start) + ",+" + std::to_string(len) + ") leaves the file";
						else if (std::memcmp(buf.data(), f.bytes->data() + start, std::size_t(len)) != 0) extentProblem = "stream bytes differ from the file bytes at the recorded extent";
						else ctx.count("extent/streams-verified");
					}
				}
				break;
			}
			case kExtractI: case kExtractN: {
				::unlink(f.outPath.c_str());
				if (op.kind == kExtractI) a.ExtractFile(op.idx, f.outPath); else a.ExtractFile(op.name, f.outPath);
				auto got = mc::readFile(f.outPath);
				val = "file=" + std::to_string(got.size()) + "/" + std::to_string(mc::fnv(got.data(), got.size()));
				break;
			}
			}
		});
		if (o.cls == 'R') return "R:" + val;
		if (o.cls == 'X') return "X";
		return "E";   // any std::exception (incl. bad_alloc): an ordinary error
	}

	void run()
	{
		std::unique_ptr<Archive::ArchiveFile> a0;
		auto o = mc::guarded([&] { a0 = openArchive(f); });
		ctx.transition();
		if (o.cls == 'X') { ctx.violation("C05/open/non-std-exception", f.desc, ""); return; }
		if (o.cls != 'R') {
			// the message names the archive, which lies in this worker's scratch directory: leave the directory out of the outcome
			std::string what = o.what, dir = ctx.scratch();
			for (std::size_t at; !dir.empty() && (at = what.find(dir)) != std::string::npos;) what.erase(at, dir.size());
			ctx.count("open/refused"); ctx.outcome(mc::fnv(what)); return;
		}
		ctx.count("open/accepted");
		ctx.state();
		std::size_t count = a0->GetCount();
		std::string key0 = readerKey(*a0, f.vol);
		// alphabet
		std::vector<AOp> ops;
		std::set<std::size_t> idx = { 0, 1, count, count + 1, SIZE_MAX, std::size_t(1) << 32, (std::size_t(1) << 32) + 1, (std::size_t(1) << 32) + count, std::size_t(1) << 63 };   // incl. indices that are in range only modulo 2^32
		if (count) idx.insert(count - 1);
		if (count > 2) idx.insert(2);
		std::set<std::string> names = { "absent.xyz", "" };
		for (std::size_t i = 0; i < count && i < 3; ++i) { auto g = mc::guarded([&] { std::string n = a0->GetName(i); names.insert(n); if (i == 0) { names.insert("./" + n); std::string u = n; for (auto& c : u) c = char(toupper(c)); names.insert(u); } }); (void)g; }
		ops.push_back({ kGetCount, 0, "" });
		for (auto i : idx) { ops.push_back({ kGetName, i, "" }); ops.push_back({ kGetSize, i, "" }); if (f.vol) ops.push_back({ kGetKind, i, "" }); ops.push_back({ kOpenStreamI, i, "" }); ops.push_back({ kExtractI, i, "" }); }
		for (auto& n : names) { ops.push_back({ kGetIndex, 0, n }); ops.push_back({ kContains, 0, n }); ops.push_back({ kExtractN, 0, n }); ops.push_back({ kOpenStreamN, 0, n }); }
		a0.reset();

		// observations on freshly opened objects, and the states they lead to
		std::vector<std::string> fresh(ops.size());
		std::map<std::string, std::vector<std::size_t>> states;   // key -> history (op indices)
		std::deque<std::string> queue;
		states[key0] = {};
		for (std::size_t k = 0; k < ops.size(); ++k) {
			ctx.sub(f.desc + " :: " + showOp(ops[k]));
			auto a = openArchive(f);
			extentProblem.clear();
			fresh[k] = observe(*a, ops[k], true);
			ctx.transition();
			ctx.outcome(mc::fnv(fresh[k]) ^ uint64_t(ops[k].kind));
			if (fresh[k] == "X") { ctx.violation("C05/call/non-std-exception", f.desc + " :: " + showOp(ops[k]), ""); return; }
			if (!extentProblem.empty()) { ctx.violation(std::string("C05/extent/") + (f.vol ? "vol" : "clm"), f.desc + " :: " + showOp(ops[k]), extentProblem); return; }
			ctx.count(fresh[k][0] == 'R' ? "calls/returned" : "calls/ordinary-error");
			std::string k2 = readerKey(*a, f.vol);
			if (!gReaderKeyAvailable) {
				// fallback: sequences of length 2 whose first call is one representative per (kind of call, what it gave); calls that
				// deliver no member data are represented per (kind, returned or refused)
				bool data = ops[k].kind == kOpenStreamI || ops[k].kind == kOpenStreamN || ops[k].kind == kExtractI || ops[k].kind == kExtractN;
				k2 = "after-" + std::to_string(int(ops[k].kind)) + ":" + (data ? fresh[k] : fresh[k].substr(0, 1));
			}
			if (!states.count(k2)) { states[k2] = { k }; queue.push_back(k2); }
		}
		// every call in every reachable state behaves as on a fresh object
		std::size_t expanded = 0;
		while (!queue.empty()) {
			std::string key = queue.front(); queue.pop_front();
			if (++expanded > (gReaderKeyAvailable ? 24u : 1000u)) { ctx.capHit("C05: more than 24 reader states for one file"); break; }
			ctx.state();
			std::vector<std::size_t> hist = states[key];
			for (std::size_t k = 0; k < ops.size(); ++k) {
				auto a = openArchive(f);
				for (auto h : hist) observe(*a, ops[h], false);
				if (gReaderKeyAvailable && readerKey(*a, f.vol) != key) { ctx.violation("harness/replay-diverged", f.desc, "history replay reached a different reader state"); return; }
				std::string got = observe(*a, ops[k], false);
				ctx.transition();
				if (got != fresh[k]) {
					std::string h; for (auto x : hist) h += showOp(ops[x]) + " ; ";
					ctx.violation(std::string("C05/differential/") + (f.vol ? "vol/" : "clm/") + showOp(ops[k]).substr(0, showOp(ops[k]).find('(')), f.desc + " :: " + h + showOp(ops[k]),
						"after that history the call gave [" + got.substr(0, 80) + "], on a freshly opened archive [" + fresh[k].substr(0, 80) + "]");
					return;
				}
				std::string k2 = readerKey(*a, f.vol);
				if (gReaderKeyAvailable && !states.count(k2)) { auto h2 = hist; h2.push_back(k); states[k2] = h2; queue.push_back(k2); }
			}
			ctx.count("sequences/states-expanded");
		}
		ctx.trace();
	}
};

// ------------------------------------------------------------------------------------------------
// seeds
// ------------------------------------------------------------------------------------------------
std::vector<mc::FField> conv(const std::vector<ref::Field>& f) { std::vector<mc::FField> r; for (auto& x : f) r.push_back({ x.offset, x.width, x.name }); return r; }

std::vector<uint8_t> pay(std::size_t n, uint8_t b) { std::vector<uint8_t> v(n); for (std::size_t i = 0; i < n; ++i) v[i] = uint8_t(b + i); return v; }

std::vector<mc::FaultSeed> volSeeds()
{
	std::vector<mc::FaultSeed> s;
	auto mk = [&](const std::string& name, const std::vector<ref::VolMember>& ms, const ref::VolLayout& lay) { auto img = ref::encodeVol(ms, lay); s.push_back({ name, img.bytes, conv(img.fields) }); };
	auto M = [&](const std::string& n, std::vector<uint8_t> p, uint16_t kind = 0x100) { ref::VolMember m; m.name = n; m.stored = p; m.kind = kind; return m; };
	mk("vol0", {}, {});
	mk("vol1", { M("a.txt", pay(5, 0x30)) }, {});
	mk("vol2", { M("ab", pay(3, 0x40)), M("b.bin", pay(8, 0x50)) }, {});
	mk("vol3", { M("a", pay(1, 0x60)), M("B.map", pay(0, 0)), M("cc.txt", pay(6, 0x70)) }, {});
	{
		auto lz = ref::lzhEncode({ ref::Lit('h'), ref::Lit('i'), ref::Match(5, 1), ref::Lit('!') });
		auto d = ref::lzhDecode(lz.data(), lz.size());
		ref::VolMember m = M("lz.txt", lz, 0x103); m.overrideIndexSize = true; m.indexSize = uint32_t(d.out.size());
		mk("vol_lzh", { M("a.txt", pay(4, 0x30)), m }, {});
	}
	{ ref::VolLayout lay; lay.unusedSlots = 2; lay.extraStringPad = 4; mk("vol_unused", { M("x.y", pay(2, 0x21)), M("z", pay(7, 0x22)) }, lay); }
	mk("vol4", { M("Alpha_long-name.1.txt", pay(9, 0x31)), M("b", pay(4, 0x32)), M("MiXeD.Case", pay(0, 0)), M("zz top.bin", pay(13, 0x33)) }, {});
	return s;
}

std::vector<mc::FaultSeed> clmSeeds()
{
	std::vector<mc::FaultSeed> s;
	auto mk = [&](const std::string& name, const std::vector<std::pair<std::string, std::vector<uint8_t>>>& ms) { auto img = ref::encodeClm(ref::waveFormat(0), ms); s.push_back({ name, img.bytes, conv(img.fields) }); };
	mk("clm0", {});
	mk("clm1", { { "a", pay(4, 0x11) } });
	mk("clm3", { { "ab", pay(2, 0x21) }, { "abcdefgh", pay(0, 0) }, { "c_1", pay(6, 0x31) } });
	mk("clm2x8", { { "ABCDEFGH", pay(5, 0x41) }, { "z2345678", pay(3, 0x51) } });
	return s;
}

std::vector<mc::FaultSeed> wavSeeds()
{
	std::vector<mc::FaultSeed> s;
	auto mk = [&](const std::string& name, int layout) {
		ref::WavSpec w; w.data = pay(6, 0x41); w.chunkBeforeFmt = layout & 1; w.chunkAfterData = layout & 4; w.fmtSize = (layout & 8) ? 18 : 16;
		auto bytes = ref::encodeWav(w);
		mc::FaultSeed fs{ name, bytes, {} };
		fs.fields.push_back({ 4, 4, "riff.size" });
		std::size_t o = 12;
		while (o + 8 <= bytes.size()) { std::string tag(bytes.begin() + o, bytes.begin() + o + 4); fs.fields.push_back({ o + 4, 4, "chunk[" + tag + "].length" }); o += 8 + mc::get32(bytes, o + 4); }
		s.push_back(fs);
	};
	mk("wav_min", 8); mk("wav_before", 9); mk("wav_after", 12); mk("wav_fmt16", 0);
	return s;
}

// coordinated corruptions of VOL seeds (consistent across several fields)
std::vector<mc::Mutant> coordinatedVol(const mc::FaultSeed& seed)
{
	std::vector<mc::Mutant> out;
	const auto& b = seed.bytes;
	uint32_t PS = mc::get32(b, 20) & 0x7FFFFFFFu;
	std::size_t voli = 24 + PS, E = voli + 8;
	uint32_t IL = mc::get32(b, voli + 4) & 0x7FFFFFFFu, PI = (IL + 3) & ~3u;
	uint32_t slots = IL / 14;
	auto setLen = [](std::vector<uint8_t>& v, std::size_t o, uint32_t len) { mc::set32(v, o, (len & 0x7FFFFFFFu) | 0x80000000u); };
	// index length = IL + r with the enclosing lengths kept consistent (blocks shifted) and without shifting
	for (uint32_t r = 1; r <= 13; ++r) {
		for (int shift = 0; shift < 2; ++shift) {
			mc::Mutant m; m.bytes = b;
			uint32_t nIL = IL + r, nPI = (nIL + 3) & ~3u;
			setLen(m.bytes, voli + 4, nIL);
			setLen(m.bytes, 4, PS + nPI + 24);
			if (shift) {
				m.bytes.insert(m.bytes.begin() + E + PI, nPI - PI, 0xEE);
				for (uint32_t k = 0; k < slots; ++k) { std::size_t o = E + 14 * k; if (mc::get32(m.bytes, o) != 0xFFFFFFFFu) mc::set32(m.bytes, o + 4, mc::get32(m.bytes, o + 4) + (nPI - PI)); }
			}
			m.desc = seed.name + " index-length=" + std::to_string(nIL) + (shift ? " (blocks shifted, lengths consistent)" : " (lengths consistent, blocks in place)");
			out.push_back(m);
		}
	}
	for (uint32_t r = 1; r <= 13 && r < IL; ++r) { mc::Mutant m; m.bytes = b; setLen(m.bytes, voli + 4, IL - r); m.desc = seed.name + " index-length=" + std::to_string(IL - r); out.push_back(m); }
	uint32_t SL = mc::get32(b, 24);
	if (slots >= 2 && SL > 2) {
		// more valid index entries than names
		std::size_t firstNul = 28; while (firstNul < 28 + SL && b[firstNul]) ++firstNul;
		{ mc::Mutant m; m.bytes = b; mc::set32(m.bytes, 24, uint32_t(firstNul + 1 - 28)); m.desc = seed.name + " name-table-length cut to the first name (more entries than names)"; out.push_back(m); }
		{ mc::Mutant m; m.bytes = b; m.bytes[firstNul] = 'x'; m.desc = seed.name + " first NUL of the name table replaced (two names merged)"; out.push_back(m); }
		{ mc::Mutant m; m.bytes = b; mc::set32(m.bytes, 24, 0); m.desc = seed.name + " name-table-length 0 with entries present"; out.push_back(m); }
	}
	if (SL) { mc::Mutant m; m.bytes = b; m.bytes[28 + SL - 1] = 'x'; m.desc = seed.name + " name table without a final NUL"; out.push_back(m); }
	for (uint32_t k = 0; k < slots; ++k) {
		std::size_t o = E + 14 * k;
		if (mc::get32(b, o) == 0xFFFFFFFFu) continue;
		uint32_t fs = uint32_t(b.size());
		for (uint32_t off : { 0u, 8u, 16u, 24u, uint32_t(voli), uint32_t(E), fs - 8, fs - 7, fs - 9, fs - 4, fs, fs + 1, 0xFFFFFFF8u }) { mc::Mutant m; m.bytes = b; mc::set32(m.bytes, o + 4, off); m.desc = seed.name + " entry" + std::to_string(k) + ".blockOffset=" + std::to_string(off); out.push_back(m); }
		uint32_t block = mc::get32(b, o + 4), sz = mc::get32(b, o + 8);
		for (uint32_t len : { sz + 1, sz - 1, 0u, sz + 4, fs, fs - block - 8, fs - block - 7, 0x7FFFFFFFu }) {
			mc::Mutant m; m.bytes = b; setLen(m.bytes, block + 4, len); m.desc = seed.name + " block" + std::to_string(k) + ".length=" + std::to_string(len & 0x7FFFFFFFu) + " (index size " + std::to_string(sz) + ")"; out.push_back(m);
			mc::Mutant m2 = m; mc::set32(m2.bytes, o + 8, len); m2.desc += " and index size set equal"; out.push_back(m2);
		}
		// VBLK tag damaged
		{ mc::Mutant m; m.bytes = b; m.bytes[block] = 'v'; m.desc = seed.name + " block" + std::to_string(k) + " tag damaged"; out.push_back(m); }
	}
	return out;
}

std::vector<mc::Mutant> coordinatedClm(const mc::FaultSeed& seed)
{
	std::vector<mc::Mutant> out;
	const auto& b = seed.bytes;
	uint32_t n = mc::get32(b, 56), fs = uint32_t(b.size());
	for (uint32_t c : { n + 1, n + 2, (fs - 60) / 16, (fs - 60) / 16 + 1, 0x0FFFFFFFu, 0x10000000u, 0xFFFFFFFFu }) { mc::Mutant m; m.bytes = b; mc::set32(m.bytes, 56, c); m.desc = seed.name + " count=" + std::to_string(c) + " (index runs into the data / past the file)"; out.push_back(m); }
	for (uint32_t k = 0; k < n; ++k) {
		std::size_t o = 60 + 16 * k;
		for (uint32_t off : { 0u, 59u, fs - 1, fs, fs + 1, 0xFFFFFFFFu }) for (uint32_t len : { 0u, 1u, fs - off, fs - off + 1, 0xFFFFFFFFu, 1u - off }) {
			mc::Mutant m; m.bytes = b; mc::set32(m.bytes, o + 8, off); mc::set32(m.bytes, o + 12, len);
			m.desc = seed.name + " entry" + std::to_string(k) + " offset=" + std::to_string(off) + " length=" + std::to_string(len); out.push_back(m);
		}
		{ mc::Mutant m; m.bytes = b; for (int j = 0; j < 8; ++j) m.bytes[o + j] = uint8_t('A' + j); m.desc = seed.name + " entry" + std::to_string(k) + " name without NUL"; out.push_back(m); }
	}
	return out;
}

// ------------------------------------------------------------------------------------------------
struct Space { int type; mc::FaultSeed seed; std::unique_ptr<mc::FaultSpace> faults; std::vector<mc::Mutant> extra; std::size_t total() const { return 1 + faults->size() + extra.size(); } };
std::vector<Space> gSpaces;
struct Chunk { std::size_t space, from, to; };
std::vector<Chunk> gChunks;
const std::size_t kChunk = 150;

void build(Ctx& ctx)
{
	gSpaces.clear(); gChunks.clear();
	auto add = [&](int type, const mc::FaultSeed& s) {
		Space sp; sp.type = type; sp.seed = s; sp.faults = std::make_unique<mc::FaultSpace>(s, ctx.thorough);
		if (type == 0 && s.name != "vol0") sp.extra = coordinatedVol(s);
		if (type == 1) sp.extra = coordinatedClm(s);
		gSpaces.push_back(std::move(sp));
	};
	for (auto& s : volSeeds()) add(0, s);
	for (auto& s : clmSeeds()) add(1, s);
	for (auto& s : wavSeeds()) add(2, s);
	for (std::size_t i = 0; i < gSpaces.size(); ++i) for (std::size_t f = 0; f < gSpaces[i].total(); f += kChunk) gChunks.push_back({ i, f, std::min(f + kChunk, gSpaces[i].total()) });
}

mc::Mutant mutantOf(const Space& sp, std::size_t k)
{
	if (k == 0) { mc::Mutant m; m.bytes = sp.seed.bytes; m.desc = sp.seed.name + " (unmodified seed)"; return m; }
	--k;
	if (k < sp.faults->size()) return sp.faults->get(k);
	return sp.extra[k - sp.faults->size()];
}

void wavIntake(Ctx& ctx, const mc::Mutant& m, const std::string& dir, bool isSeed)
{
	std::string p = dir + "/m.wav", good = dir + "/good.wav", out = dir + "/out.clm";
	mc::writeFile(p, m.bytes);
	ref::WavSpec w; w.data = pay(4, 0x51); w.fmtSize = 18;
	mc::writeFile(good, ref::encodeWav(w));
	for (int variant = 0; variant < 3; ++variant) {
		std::vector<std::string> list = variant == 0 ? std::vector<std::string>{ p } : variant == 1 ? std::vector<std::string>{ good, p } : std::vector<std::string>{ p, good };
		ctx.sub(m.desc + " :: CreateArchive variant " + std::to_string(variant));
		::unlink(out.c_str());
		auto o = mc::guarded([&] { Archive::ClmFile::CreateArchive(out, list); });
		ctx.transition();
		ctx.outcome(mc::fnv(m.desc.substr(0, 8)) ^ uint64_t(o.cls) ^ (uint64_t(variant) << 8));
		if (o.cls == 'X') { ctx.violation("C05/wav-intake/non-std-exception", m.desc, ""); return; }
		if (o.cls == 'R') {
			ctx.count("wav/archive-produced");
			auto r = mc::guarded([&] { Archive::ClmFile c(out); if (c.GetCount() != list.size()) throw std::runtime_error("member count " + std::to_string(c.GetCount())); for (std::size_t i = 0; i < c.GetCount(); ++i) { auto st = c.OpenStream(i); std::vector<uint8_t> buf(std::size_t(st->Length())); st->Read(buf.data(), buf.size()); } });
			if (r.cls != 'R') { ctx.violation("C05/wav-intake/produced-archive-does-not-reopen", m.desc + " variant " + std::to_string(variant), r.what); return; }
		}
		else { ctx.count("wav/refused"); if (isSeed) { ctx.violation("harness/valid-wav-seed-refused", m.desc, o.what); return; } }
	}
	ctx.state(); ctx.trace();
}

void runCase(std::size_t ci, Ctx& ctx)
{
	const Chunk& c = gChunks[ci];
	const Space& sp = gSpaces[c.space];
	std::string dir = ctx.freshDir("c05");
	for (std::size_t k = c.from; k < c.to; ++k) {
		mc::Mutant m = mutantOf(sp, k);
		ctx.sub(m.desc);
		if (sp.type == 2) { wavIntake(ctx, m, dir, k == 0); continue; }
		FileUnderTest f{ sp.type == 0, dir + (sp.type == 0 ? "/t.vol" : "/t.clm"), dir + "/extracted.bin", &m.bytes, m.desc };
		mc::writeFile(f.path, m.bytes);
		Explorer ex{ ctx, f };
		ex.run();
		if (k == 0) {
			// the unmodified seed must open (harness self-test)
			auto o = mc::guarded([&] { openArchive(f); });
			if (o.cls != 'R') ctx.violation("harness/valid-seed-refused", m.desc, o.what);
		}
		if (k > 0 && k - 1 < sp.faults->size() && sp.faults->isPrefix(k - 1)) ctx.count("faults/prefixes");
		else if (k > sp.faults->level1()) ctx.count(k - 1 < sp.faults->size() ? "faults/field-pairs" : "faults/coordinated");
		else ctx.count("faults/single-field-or-byte");
	}
	if (ci == 40) ctx.sample("mutants " + mutantOf(sp, c.from).desc + " ... " + mutantOf(sp, c.to - 1).desc + ": opened; all call sequences explored against fresh-object observations");
	if (peek::usedFallback()) ctx.count("binding/fallback-keys");
	if (ci == 0) ctx.sample(mutantOf(sp, 3).desc + " -> VolFile constructor must fail with an ordinary error");
	mc::removeTree(dir);
}

} // namespace

int main(int argc, char** argv)
{
	mc::CheckDef def;
	def.id = "C05";
	def.init = build;
	def.ncases = [](Ctx&) { return gChunks.size(); };
	def.run = runCase;
	def.describe = [](std::size_t i) { return gSpaces[gChunks[i].space].seed.name + " mutants " + std::to_string(gChunks[i].from) + ".." + std::to_string(gChunks[i].to); };
	def.caseTimeoutS = 30;
	return mc::Main(argc, argv, def);
}
