// C09 - tilesets load to the same picture from custom and standard formats.
// Full product of pictures (height x orientation x palette x pixels) x storage; all single-byte signature variants.
#include "mc/mc.hpp"
#include "ref/ref_tileset.hpp"
#include "Bitmap/BitmapFile.h"
#include "Sprite/TilesetLoader.h"
#include "Stream/MemoryReader.h"
#include "Stream/FileReader.h"
#include "Stream/FileWriter.h"
#include "Stream/SliceReader.h"
#include "Stream/DynamicMemoryWriter.h"
#include <memory>
#include <set>
#include <functional>

using namespace OP2Utility;
using mc::Ctx;

namespace {

ref::RPicture makePicture(uint32_t h, int pal, int pix)
{
	ref::RPicture p; p.height = h;
	for (int i = 0; i < 256; ++i) p.palette.push_back(pal == 0 ? ref::RColor{ uint8_t(i), uint8_t(255 - i), uint8_t((i * 7 + 13) | 1), uint8_t(i % 3) } : pal == 1 ? ref::RColor{} : ref::RColor{ uint8_t(i * 31), uint8_t(i * 17), uint8_t(i * 31 + 128), 255 });
	p.rowsTopDown.resize(32 * std::size_t(h));
	for (std::size_t i = 0; i < p.rowsTopDown.size(); ++i) p.rowsTopDown[i] = pix == 0 ? uint8_t(i / 32) : mc::contentByte(h + 77, i);
	return p;
}

// the picture as a BitmapFile in the given orientation
BitmapFile toBitmap(const ref::RPicture& p, bool topDown)
{
	std::vector<Color> pal;
	for (auto& c : p.palette) pal.push_back(Color{ c.r, c.g, c.b, c.a });
	std::vector<uint8_t> px;
	if (topDown) px = p.rowsTopDown;
	else for (uint32_t r = p.height; r-- > 0;) px.insert(px.end(), p.rowsTopDown.begin() + 32 * r, p.rowsTopDown.begin() + 32 * (r + 1));
	return BitmapFile::CreateIndexed(8, 32, topDown ? -int32_t(p.height) : int32_t(p.height), pal, px);
}

// what a viewer sees: rows top first + colours; "" if the object is not a valid tileset picture
bool visual(const BitmapFile& f, ref::RPicture& out, std::string& why)
{
	if (f.imageHeader.bitCount != 8 || f.imageHeader.width != 32) { why = "not 8 bit / 32 wide"; return false; }
	int64_t h = f.imageHeader.height; uint32_t H = uint32_t(h < 0 ? -h : h);
	if (f.pixels.size() != 32 * std::size_t(H)) { why = "pixel size " + std::to_string(f.pixels.size()); return false; }
	if (f.palette.size() != 256) { why = "palette size " + std::to_string(f.palette.size()); return false; }
	out.height = H; out.palette.clear(); out.rowsTopDown.clear();
	for (auto& c : f.palette) out.palette.push_back({ c.red, c.green, c.blue, c.alpha });
	if (h <= 0) out.rowsTopDown = f.pixels;
	else for (uint32_t r = H; r-- > 0;) out.rowsTopDown.insert(out.rowsTopDown.end(), f.pixels.begin() + 32 * r, f.pixels.begin() + 32 * (r + 1));
	return true;
}

bool samePicture(const ref::RPicture& a, const ref::RPicture& b) { return a.height == b.height && a.palette == b.palette && a.rowsTopDown == b.rowsTopDown; }

std::vector<uint8_t> drain(Stream::DynamicMemoryWriter& w) { auto r = w.GetReader(); std::vector<uint8_t> v(std::size_t(r.Length())); r.Read(v.data(), v.size()); return v; }

BitmapFile loadFrom(const std::vector<uint8_t>& bytes)
{
	std::unique_ptr<uint8_t[]> p(new uint8_t[bytes.size() ? bytes.size() : 1]);
	std::memcpy(p.get(), bytes.data(), bytes.size());
	Stream::MemoryReader r(p.get(), bytes.size());
	return Tileset::ReadTileset(r);
}

void pictureCase(Ctx& ctx, uint32_t h, int pal, int pix)
{
	ref::RPicture p = makePicture(h, pal, pix);
	std::string key = "height " + std::to_string(h) + " palette " + std::to_string(pal) + " pixels " + std::to_string(pix);
	auto bad = [&](const std::string& c, const std::string& d) { ctx.violation("C09/" + c, key, d); };
	auto expectBytes = ref::encodeCustomTileset(p);
	std::vector<uint8_t> customOf[2];
	for (int td = 0; td < 2; ++td) {
		std::string k2 = key + (td ? " top-down" : " bottom-up");
		ctx.sub(k2);
		BitmapFile src = toBitmap(p, td != 0);
		// custom storage
		Stream::DynamicMemoryWriter w;
		auto o = mc::guarded([&] { Tileset::WriteCustomTileset(w, src); });
		ctx.transition();
		if (o.cls != 'R') { bad("save-custom-refused-valid-picture", k2 + ": " + o.what); return; }
		customOf[td] = drain(w);
		if (customOf[td] != expectBytes) {
			std::size_t i = 0; while (i < customOf[td].size() && i < expectBytes.size() && customOf[td][i] == expectBytes[i]) ++i;
			bad("custom-bytes-differ-from-format-description", k2 + ": first difference at byte " + std::to_string(i) + " (lengths " + std::to_string(customOf[td].size()) + "/" + std::to_string(expectBytes.size()) + ")"); return;
		}
		{
			// the overload taking a temporary writer, onto a file that already holds longer content; loaded back through a file reader
			std::string path = ctx.scratch() + "/ts_rvalue.bin";
			mc::writeFile(path, std::vector<uint8_t>(expectBytes.size() + 3000, 0xEE));
			auto orv = mc::guarded([&] { Tileset::WriteCustomTileset(Stream::FileWriter(path), src); });
			ctx.transition();
			if (orv.cls != 'R') { bad("save-custom-through-temporary-writer-refused", k2 + ": " + orv.what); return; }
			if (mc::readFile(path) != expectBytes) { bad("custom-bytes-through-temporary-writer-differ", k2); return; }
			BitmapFile viaFile;
			auto ofr = mc::guarded([&] { Stream::FileReader fr(path); viaFile = Tileset::ReadTileset(fr); });
			ctx.transition();
			ref::RPicture seenF; std::string whyF;
			if (ofr.cls != 'R' || !visual(viaFile, seenF, whyF) || !samePicture(seenF, p)) { bad("load-custom-through-file-reader-differs", k2 + ": " + ofr.what + whyF); return; }
			BitmapFile viaTemp;
			auto otr = mc::guarded([&] { viaTemp = Tileset::ReadTileset(Stream::FileReader(path)); });   // the overload taking a temporary reader
			ctx.transition();
			ref::RPicture seenT; std::string whyT;
			if (otr.cls != 'R' || !visual(viaTemp, seenT, whyT) || !samePicture(seenT, p)) { bad("load-custom-through-temporary-reader-differs", k2 + ": " + otr.what + whyT); return; }
			ctx.count("pictures/through-temporary-writer-and-file-reader");
		}
		BitmapFile back;
		auto ol = mc::guarded([&] { back = loadFrom(customOf[td]); });
		ctx.transition();
		if (ol.cls != 'R') { bad("load-custom-rejected", k2 + ": " + ol.what); return; }
		ref::RPicture seen; std::string why;
		if (!visual(back, seen, why)) { bad("load-custom-not-a-tileset-picture", k2 + ": " + why); return; }
		if (back.imageHeader.height > 0) { bad("load-custom-not-top-down", std::to_string(back.imageHeader.height)); return; }
		if (!samePicture(seen, p)) { bad("load-custom-different-picture", k2 + (seen.palette == p.palette ? " (pixels)" : " (colours)")); return; }
		// standard storage
		Stream::DynamicMemoryWriter wb;
		auto ob = mc::guarded([&] { src.WriteIndexed(wb); });
		if (ob.cls != 'R') { bad("save-standard-throws", ob.what); return; }
		BitmapFile back2;
		auto stdBytes = drain(wb);
		auto ol2 = mc::guarded([&] { back2 = loadFrom(stdBytes); });
		ctx.transition(2);
		if (ol2.cls == 'R' && stdBytes.size() >= 54) {
			// the same standard bitmap as most tools write it: the optional image size field holds the size of the pixel array
			auto filled = stdBytes; mc::set32(filled, 34, uint32_t(filled.size() - mc::get32(filled, 10)));
			BitmapFile back3; ref::RPicture seen3; std::string why3;
			auto ol3 = mc::guarded([&] { back3 = loadFrom(filled); });
			ctx.transition();
			if (ol3.cls != 'R') { bad("load-standard-with-image-size-field-rejected", k2 + ": " + ol3.what); return; }
			if (!visual(back3, seen3, why3) || !samePicture(seen3, p)) { bad("load-standard-with-image-size-field-different-picture", k2); return; }
			ctx.count("pictures/standard-with-image-size-field");
		}
		if (ol2.cls != 'R') { bad("load-standard-rejected", k2 + ": " + ol2.what); return; }
		ref::RPicture seen2;
		if (!visual(back2, seen2, why)) { bad("load-standard-not-a-tileset-picture", why); return; }
		if (!samePicture(seen2, p)) { bad("load-standard-different-picture", k2 + (seen2.palette == p.palette ? " (pixels)" : " (colours)")); return; }
		ctx.count(td ? "pictures/top-down" : "pictures/bottom-up");
		ctx.state(); ctx.trace();
	}
	if (customOf[0] != customOf[1]) bad("custom-bytes-depend-on-orientation", "");
	ctx.outcome(mc::fnv(expectBytes.data(), expectBytes.size()));
}

// pictures whose palette holds fewer than 256 entries (a tileset loaded from a standard bitmap that declares n used
// colours keeps n entries): saving in the custom format must either be refused with an ordinary error or produce the
// format's bytes for the picture with the palette padded to 256 black entries, which load back to the same rows and the
// same first n colours. A file whose 1024-byte palette section is short is neither.
void partialPaletteCase(Ctx& ctx, uint32_t h, std::size_t n, bool viaStandardBitmap)
{
	ref::RPicture p = makePicture(h, 0, 1);
	for (auto& b : p.rowsTopDown) b = uint8_t(b % n);
	ref::RPicture padded = p;
	for (std::size_t i = n; i < 256; ++i) padded.palette[i] = ref::RColor{ 0, 0, 0, 0 };
	std::string key = "height " + std::to_string(h) + " palette of " + std::to_string(n) + " entries" + (viaStandardBitmap ? " (loaded from a standard bitmap declaring that many used colours)" : " (set on the object)");
	ctx.sub(key);
	BitmapFile src = toBitmap(p, true);
	src.palette.resize(n);
	if (viaStandardBitmap) {
		// through the library's own standard-bitmap reader: a bitmap whose used-colour field is n
		ref::RBmp b; b.depth = 8; b.width = 32; b.height = -int32_t(h); b.usedColors = uint32_t(n);
		for (std::size_t i = 0; i < n; ++i) b.palette.push_back({ p.palette[i].r, p.palette[i].g, p.palette[i].b, p.palette[i].a });
		b.rows = p.rowsTopDown;
		auto ol = mc::guarded([&] { src = loadFrom(ref::encodeBmp(b)); });
		ctx.transition();
		if (ol.cls != 'R') { ctx.count("partial-palette/standard-bitmap-refused"); return; }
		if (src.palette.size() != n) { ctx.count("partial-palette/reader-grew-the-palette"); }
		// the picture is what the loaded object shows (which channel of a standard bitmap lands in which Color member is C08's subject)
		for (std::size_t i = 0; i < 256; ++i) {
			ref::RColor c = i < src.palette.size() ? ref::RColor{ src.palette[i].red, src.palette[i].green, src.palette[i].blue, src.palette[i].alpha } : ref::RColor{ 0, 0, 0, 0 };
			p.palette[i] = c; padded.palette[i] = c;
		}
		n = std::min<std::size_t>(n, src.palette.size());
	}
	Stream::DynamicMemoryWriter w;
	auto o = mc::guarded([&] { Tileset::WriteCustomTileset(w, src); });
	ctx.transition();
	if (o.cls == 'X') { ctx.violation("C09/partial-palette/non-std-exception", key, ""); return; }
	if (o.cls != 'R') { ctx.count("partial-palette/save-refused"); return; }
	ctx.count("partial-palette/saved");
	auto bytes = drain(w);
	{
		// determined by the picture alone: the same object saved again after a picture whose 256 colours are all bright
		ref::RPicture brightPic = makePicture(32, 0, 1);
		for (std::size_t i = 0; i < 256; ++i) brightPic.palette[i] = ref::RColor{ uint8_t(200 + i % 50), uint8_t(255 - i % 40), uint8_t(180 + i % 70), 0 };
		BitmapFile bright = toBitmap(brightPic, true);
		Stream::DynamicMemoryWriter w1, w2;
		auto o2 = mc::guarded([&] { Tileset::WriteCustomTileset(w1, bright); Tileset::WriteCustomTileset(w2, src); });
		ctx.transition(2);
		if (o2.cls != 'R') { ctx.violation("C09/partial-palette/second-save-refused", key, o2.what); return; }
		if (drain(w2) != bytes) { ctx.violation("C09/partial-palette/bytes-depend-on-what-was-saved-before", key, "the same picture saved before and after a picture with 256 bright colours gave different bytes"); return; }
		ctx.count("partial-palette/saved-again-after-another-picture");
	}
	auto expect = ref::encodeCustomTileset(padded);
	if (bytes.size() != expect.size()) { ctx.violation("C09/partial-palette/custom-file-malformed", key, "wrote " + std::to_string(bytes.size()) + " bytes; the format's sections (1024-byte palette) need " + std::to_string(expect.size())); return; }
	// the first n colours and everything outside the palette must match the format description; padding entries are not judged
	auto a = bytes, e = expect;
	std::size_t palStart = e.size() - 32 * std::size_t(h) - 8 - 1024;
	for (std::size_t i = palStart + 4 * n; i < palStart + 1024; ++i) a[i] = e[i] = 0;
	if (a != e) { std::size_t i = 0; while (i < a.size() && a[i] == e[i]) ++i; ctx.violation("C09/partial-palette/custom-bytes-differ-from-format-description", key, "first difference at byte " + std::to_string(i)); return; }
	BitmapFile back;
	auto ol = mc::guarded([&] { back = loadFrom(bytes); });
	ctx.transition();
	if (ol.cls != 'R') { ctx.violation("C09/partial-palette/load-custom-rejected", key, ol.what); return; }
	ref::RPicture seen; std::string why;
	if (!visual(back, seen, why)) { ctx.violation("C09/partial-palette/load-custom-not-a-tileset-picture", key, why); return; }
	bool same = seen.height == p.height && seen.rowsTopDown == p.rowsTopDown;
	for (std::size_t i = 0; i < n && same; ++i) if (!(seen.palette[i] == p.palette[i])) same = false;
	if (!same) { ctx.violation("C09/partial-palette/load-custom-different-picture", key, ""); return; }
	if (src.palette.size() < 256 && !src.pixels.empty()) {
		// the picture is edited after loading: one more colour is appended and used by the first pixel. Header fields that
		// described the file it came from (the number of colours it declared) are not part of the picture
		BitmapFile grown = src;
		const std::size_t k = grown.palette.size();
		Color extra; extra.red = 255; extra.green = 128; extra.blue = 1; extra.alpha = 0;
		grown.palette.push_back(extra);
		grown.pixels[0] = uint8_t(k);
		Stream::DynamicMemoryWriter wg;
		BitmapFile back4; ref::RPicture seen4; std::string why4;
		auto og = mc::guarded([&] { Tileset::WriteCustomTileset(wg, grown); back4 = loadFrom(drain(wg)); });
		ctx.transition(2);
		if (og.cls != 'R') { ctx.violation("C09/partial-palette/edited-picture-save-or-load-throws", key, og.what); return; }
		if (!visual(back4, seen4, why4)) { ctx.violation("C09/partial-palette/edited-picture-not-a-tileset-picture", key, why4); return; }
		bool topDown = grown.imageHeader.height < 0;
		std::size_t first = topDown ? 0 : std::size_t(32) * (std::size_t(h) - 1);
		if (!(seen4.palette[k] == ref::RColor{ 255, 128, 1, 0 }) || seen4.rowsTopDown.size() <= first || seen4.rowsTopDown[first] != uint8_t(k))
			ctx.violation("C09/partial-palette/colour-appended-after-loading-is-lost", key, "colour " + std::to_string(k) + " loaded back as (" + std::to_string(seen4.palette[k].r) + "," + std::to_string(seen4.palette[k].g) + "," + std::to_string(seen4.palette[k].b) + ")");
		else ctx.count("partial-palette/edited-after-loading");
	}
	ctx.state(); ctx.trace();
}

// signature detection ------------------------------------------------------------------------------
void signatures(Ctx& ctx)
{
	auto base = ref::encodeCustomTileset(makePicture(32, 0, 0));
	auto probe = [&](std::vector<uint8_t> bytes, std::size_t startPos, const std::string& key, bool viaFile) {
		ctx.sub(key);
		std::unique_ptr<uint8_t[]> p(new uint8_t[bytes.size() ? bytes.size() : 1]);
		std::memcpy(p.get(), bytes.data(), bytes.size());
		std::unique_ptr<Stream::BidirectionalReader> r;
		std::string path;
		if (viaFile) { path = ctx.scratch() + "/sig.bin"; mc::writeFile(path, bytes); r = std::make_unique<Stream::FileReader>(path); }
		else r = std::make_unique<Stream::MemoryReader>(p.get(), bytes.size());
		r->Seek(startPos);
		bool expectThrow = bytes.size() < startPos + 4;
		bool expect = !expectThrow && std::memcmp(bytes.data() + startPos, "PBMP", 4) == 0;
		bool got = false;
		auto o = mc::guarded([&] { got = Tileset::PeekIsCustomTileset(*r); });
		ctx.transition();
		uint64_t pos = ~0ull;
		auto q = mc::guarded([&] { pos = r->Position(); });
		if (q.cls != 'R' || pos != startPos) { ctx.violation("C09/detector/moved-the-stream-position", key, "Position() " + std::to_string(pos) + " expected " + std::to_string(startPos) + (o.cls == 'R' ? "" : " (after the detector threw)")); return; }
		if (expectThrow) { ctx.count("detector/short-streams"); if (o.cls == 'R' && got) ctx.violation("C09/detector/short-stream-classified-as-custom", key, ""); return; }
		if (o.cls != 'R') { ctx.violation("C09/detector/throws", key, o.what); return; }
		if (got != expect) ctx.violation("C09/detector/classification", key, got ? "classified as custom" : "classified as not custom");
		{
			// the overload taking a temporary (or moved) reader: same answer, and the reader is left where it was as well
			bool got2 = !got;
			auto o2 = mc::guarded([&] { got2 = Tileset::PeekIsCustomTileset(std::move(*r)); });
			uint64_t pos2 = ~0ull;
			auto q2 = mc::guarded([&] { pos2 = r->Position(); });
			ctx.transition();
			if (o2.cls != 'R' || got2 != got) ctx.violation("C09/detector/temporary-reader-overload-differs", key, o2.what);
			else if (q2.cls != 'R' || pos2 != startPos) ctx.violation("C09/detector/moved-the-stream-position", key + " (overload taking a temporary reader)", "Position() " + std::to_string(pos2) + " expected " + std::to_string(startPos));
		}
		ctx.count(expect ? "detector/custom" : "detector/not-custom");
		ctx.outcome(mc::fnv(key.substr(0, 12)) ^ (got ? 1 : 0));
	};
	for (int byteIdx = 0; byteIdx < 4; ++byteIdx) for (int v = 0; v < 256; ++v) {
		auto b = base; b[byteIdx] = uint8_t(v);
		probe(b, 0, "signature byte " + std::to_string(byteIdx) + " = " + std::to_string(v), false);
	}
	{ auto b = base; b[0] = 'B'; b[1] = 'M'; probe(b, 0, "BM-led stream", false); }
	for (std::size_t n = 0; n <= 3; ++n) { std::vector<uint8_t> b(base.begin(), base.begin() + n); probe(b, 0, "stream of length " + std::to_string(n), false); probe(b, 0, "file of length " + std::to_string(n), true); }
	{ std::vector<uint8_t> b = { 1, 2, 3, 4, 5 }; b.insert(b.end(), base.begin(), base.end()); probe(b, 5, "custom tileset at position 5", false); probe(b, 5, "custom tileset at position 5 (file)", true); probe(b, 0, "junk before the tag, position 0", false); }
	{ std::vector<uint8_t> b = { 'x', 'P', 'B', 'M', 'P', 'q' }; probe(b, 1, "tag at position 1 of a 6 byte stream", false); probe(b, 3, "3 bytes left", false); probe(b, 6, "at the end", false); }
	probe(base, 0, "file-backed custom tileset", true);
	ctx.state(); ctx.trace();
}

// refusals -------------------------------------------------------------------------------------------
void refusals(Ctx& ctx)
{
	auto expectThrow = [&](const std::string& key, const std::function<void()>& f, const char* clause) {
		ctx.sub(key);
		auto o = mc::guarded(f);
		ctx.transition(); ctx.count("refusals/attempts");
		if (o.cls == 'R') ctx.violation(std::string("C09/refusal/") + clause, key, "accepted");
		else if (o.cls == 'X') ctx.violation("C09/refusal/non-std-exception", key, "");
	};
	struct Dim { int depth; int32_t w, h; };
	std::vector<Dim> dims = { { 1, 32, 32 }, { 4, 32, 32 }, { 8, 0, 32 }, { 8, 31, 32 }, { 8, 33, 32 }, { 8, 64, 32 }, { 8, 32, 1 }, { 8, 32, -1 }, { 8, 32, 31 }, { 8, 32, -31 }, { 8, 32, 33 }, { 8, 32, -33 }, { 8, 32, 48 }, { 8, 16, 16 } };
	for (auto& d : dims) {
		std::string key = "picture depth " + std::to_string(d.depth) + " " + std::to_string(d.w) + "x" + std::to_string(d.h);
		BitmapFile b;
		auto mk = mc::guarded([&] { b = BitmapFile::CreateIndexed(uint16_t(d.depth), uint32_t(d.w), d.h); });
		if (mk.cls != 'R') { ctx.violation("harness/cannot-build-violating-picture", key, mk.what); continue; }
		expectThrow(key + " -> WriteCustomTileset", [&] { Stream::DynamicMemoryWriter w; Tileset::WriteCustomTileset(w, b); }, "save-accepted-violating-picture");
		expectThrow(key + " -> ValidateTileset", [&] { Tileset::ValidateTileset(b); }, "validate-accepted-violating-picture");
		Stream::DynamicMemoryWriter wb; b.WriteIndexed(wb);
		auto bytes = drain(wb);
		expectThrow(key + " stored as standard bitmap -> ReadTileset", [&] { loadFrom(bytes); }, "load-standard-accepted-violating-picture");
	}
	// custom files whose header violates the constraints
	auto pic = makePicture(32, 0, 1);
	struct K { const char* what; ref::TilesetKnobs k; };
	std::vector<K> ks;
	{ ref::TilesetKnobs k; k.width = 31; ks.push_back({ "width 31", k }); } { ref::TilesetKnobs k; k.width = 33; ks.push_back({ "width 33", k }); } { ref::TilesetKnobs k; k.width = 0; ks.push_back({ "width 0", k }); } { ref::TilesetKnobs k; k.width = 64; ks.push_back({ "width 64", k }); }
	{ ref::TilesetKnobs k; k.depth = 1; ks.push_back({ "depth 1", k }); } { ref::TilesetKnobs k; k.depth = 4; ks.push_back({ "depth 4", k }); } { ref::TilesetKnobs k; k.depth = 16; ks.push_back({ "depth 16", k }); }
	{ ref::TilesetKnobs k; k.overrideHeight = true; k.heightField = 33; ks.push_back({ "height 33", k }); } { ref::TilesetKnobs k; k.overrideHeight = true; k.heightField = 31; ks.push_back({ "height 31", k }); } { ref::TilesetKnobs k; k.overrideHeight = true; k.heightField = 1; ks.push_back({ "height 1", k }); }
	{ ref::TilesetKnobs k; k.tagCount = 3; ks.push_back({ "tag count 3", k }); }
	for (auto& k : ks) { auto bytes = ref::encodeCustomTileset(pic, nullptr, k.k); expectThrow(std::string("custom file with ") + k.what + " -> ReadTileset", [&] { loadFrom(bytes); }, "load-custom-accepted-violating-header"); }
	ctx.state(); ctx.trace();
	ctx.sample("custom tileset file whose header says width 31 / depth 4 / height 33 must be refused; pictures 31x32, 32x33, depth 4 must be refused by WriteCustomTileset and by ReadTileset of their standard-bitmap form");
}

struct CaseDef { int kind; uint32_t h; int pal, pix; };
std::vector<CaseDef> gCases;

void build(Ctx& ctx)
{
	gCases.clear();
	// 2016 / 2048 / 2080 rows: the pixel section length 32*h passes 65535 (a 16-bit length computation shows there)
	std::vector<uint32_t> hs = { 0, 32, 64, 96, 2016, 2048, 2080 };
	if (ctx.thorough) { hs.push_back(128); hs.push_back(4096); hs.push_back(65536); hs.push_back(131072 + 32); hs.push_back(65536u * 32u); mc::alloc_cap = std::size_t(2) << 30; }   // up to 65536 tiles (64 MiB of pixels)
	for (uint32_t h : hs) for (int pal = 0; pal < 3; ++pal) for (int pix = 0; pix < 2; ++pix) gCases.push_back({ 0, h, pal, pix });
	gCases.push_back({ 1, 0, 0, 0 });
	gCases.push_back({ 2, 0, 0, 0 });
	gCases.push_back({ 3, 0, 0, 0 });
}

void runCase(std::size_t i, Ctx& ctx)
{
	const CaseDef& c = gCases[i];
	if (c.kind == 0) { pictureCase(ctx, c.h, c.pal, c.pix); if (c.h == 64 && c.pal == 0 && c.pix == 1) ctx.sample("picture 32x64, distinct palette (r != b), hashed pixels: both orientations -> custom bytes == format description, load(custom) and load(standard) show the same picture"); }
	else if (c.kind == 1) signatures(ctx);
	else if (c.kind == 3) { for (uint32_t h : { 32u, 64u }) for (std::size_t n : { std::size_t(1), std::size_t(2), std::size_t(16), std::size_t(200), std::size_t(255), std::size_t(256) }) for (int via = 0; via < 2; ++via) partialPaletteCase(ctx, h, n, via != 0); }
	else refusals(ctx);
}

} // namespace

int main(int argc, char** argv)
{
	mc::CheckDef def;
	def.id = "C09";
	def.init = build;
	def.ncases = [](Ctx&) { return gCases.size(); };
	def.run = runCase;
	def.caseTimeoutS = 300;
	def.fsizeLimit = std::size_t(256) << 20;   // a 65536-tile tileset file is 64 MiB
	return mc::Main(argc, argv, def);
}
