// Reference adaptive Huffman tree (FGK / LZHUF sibling-property update without rebuild), written as a
// node-and-pointer tree plus an explicit weight-ordered list. Independent of src/Archive/AdaptiveHuffmanTree.*:
// no packed link/data array, no code->node translation table, no index arithmetic for children.
#pragma once
#include <cstdint>
#include <string>
#include <vector>
#include <stdexcept>

namespace ref {

class HuffTree {
public:
	struct Node {
		int parent = -1, left = -1, right = -1;   // node ids (stable); -1 = none
		int symbol = -1;                          // >= 0 for leaves
		uint32_t weight = 0;
		int rank = 0;                             // position in the weight-ordered list
	};

	explicit HuffTree(int symbols) : n(symbols)
	{
		// leaves 0..n-1 with weight 1, paired left to right, level by level
		nodes.resize(2 * n - 1);
		order.resize(2 * n - 1);
		for (int i = 0; i < n; ++i) { nodes[i].symbol = i; nodes[i].weight = 1; nodes[i].rank = i; order[i] = i; }
		int next = 0;
		for (int i = n; i < 2 * n - 1; ++i) {
			Node& p = nodes[i];
			p.left = order[next]; p.right = order[next + 1];
			p.weight = nodes[p.left].weight + nodes[p.right].weight;
			nodes[p.left].parent = i; nodes[p.right].parent = i;
			p.rank = i; order[i] = i;
			next += 2;
		}
		root = 2 * n - 2;
		leafOf.resize(n);
		for (int i = 0; i < n; ++i) leafOf[i] = i;
	}

	int symbols() const { return n; }
	uint32_t rootWeight() const { return nodes[root].weight; }
	uint32_t updatesDone() const { return nodes[root].weight - uint32_t(n); }

	// one symbol occurrence: increment, exchange with the leader of its weight block, climb
	void update(int sym)
	{
		if (sym < 0 || sym >= n) throw std::out_of_range("symbol");
		int cur = leafOf[sym];
		for (;;) {
			uint32_t old = nodes[cur].weight;
			if (cur == root) { nodes[cur].weight = old + 1; break; }
			// leader: last node in list order (from cur upwards) whose weight is still `old`
			int r = nodes[cur].rank;
			int leaderRank = r;
			while (leaderRank + 1 < int(order.size()) && nodes[order[leaderRank + 1]].weight == old) ++leaderRank;
			nodes[cur].weight = old + 1;
			int leader = order[leaderRank];
			if (leader != cur) exchange(cur, leader);
			cur = nodes[cur].parent;
		}
	}

	// canonical description: (L R) for inner nodes, symbol number for leaves
	std::string shape() const { std::string s; shapeOf(root, s); return s; }
	std::string shapeWithWeights() const { std::string s; shapeOf(root, s, true); return s; }

	// path root -> leaf as a string of '0' (left) / '1' (right)
	std::string path(int sym) const
	{
		std::string p;
		int cur = leafOf[sym];
		while (cur != root) { int par = nodes[cur].parent; p.insert(p.begin(), nodes[par].right == cur ? '1' : '0'); cur = par; }
		return p;
	}

	// decode one symbol from a bit source (callable returning bool); used by ref_lzh
	template <class BitSource>
	int decode(BitSource&& bit) const
	{
		int cur = root;
		while (nodes[cur].symbol < 0) cur = bit() ? nodes[cur].right : nodes[cur].left;
		return nodes[cur].symbol;
	}

	// list invariants (weights non-decreasing in list order, siblings adjacent) - self check of the reference
	bool wellFormed() const
	{
		for (std::size_t i = 1; i < order.size(); ++i) if (nodes[order[i - 1]].weight > nodes[order[i]].weight) return false;
		for (std::size_t i = 0; i + 1 < order.size(); i += 2) if (nodes[order[i]].parent != nodes[order[i + 1]].parent) return false;
		return true;
	}

private:
	void exchange(int a, int b)
	{
		// the two subtrees trade places in the tree ...
		int pa = nodes[a].parent, pb = nodes[b].parent;
		bool aLeft = nodes[pa].left == a, bLeft = nodes[pb].left == b;
		if (aLeft) nodes[pa].left = b; else nodes[pa].right = b;
		if (bLeft) nodes[pb].left = a; else nodes[pb].right = a;
		nodes[a].parent = pb; nodes[b].parent = pa;
		// ... and in the ordered list
		int ra = nodes[a].rank, rb = nodes[b].rank;
		order[ra] = b; order[rb] = a;
		nodes[a].rank = rb; nodes[b].rank = ra;
	}

	void shapeOf(int id, std::string& s, bool weights = false) const
	{
		const Node& nd = nodes[id];
		if (nd.symbol >= 0) { s += std::to_string(nd.symbol); }
		else { s += "("; shapeOf(nd.left, s, weights); s += " "; shapeOf(nd.right, s, weights); s += ")"; }
		if (weights) s += ":" + std::to_string(nd.weight);
	}

	int n;
	int root;
	std::vector<Node> nodes;
	std::vector<int> order;     // node ids by non-decreasing weight
	std::vector<int> leafOf;
};

} // namespace ref
