// Explicit-state breadth-first search over the real object.
//
// A harness H supplies
//   using Op = ...;                          // one operation instance (copyable)
//   using State = ...;                       // implementation object(s) + reference model, the product state
//   std::unique_ptr<State> fresh();          // initial product state
//   std::unique_ptr<State> clone(const State&);   // may return nullptr: then states are rebuilt by history replay
//   std::vector<Op> enabled(const State&);   // operation alphabet in this state
//   bool apply(State&, const Op&, bool check, const std::string& hist);
//                                            // perform op on impl and model; with check=true compare and report;
//                                            // returns false if the edge violated the oracle (successor not expanded)
//   std::string key(const State&);           // FULL state (impl private state + model state): dedup only
//   std::string show(const Op&);
//
// Every state keeps the shortest history that reaches it. When clone() is unavailable the history is replayed on a
// fresh object and the key is recomputed; a key that differs from the one recorded at discovery is a hard error
// ("replay diverged"): that is how un-owned nondeterminism would show.
#pragma once
#include "mc.hpp"
#include <deque>
#include <memory>
#include <unordered_set>
#include <unordered_map>

namespace mc {

struct BfsResult {
	std::size_t states = 0, transitions = 0, maxDepth = 0;
	bool fixpoint = true;
};

template <class H>
BfsResult bfs(H& h, Ctx& ctx, std::size_t maxStates, std::size_t maxDepth, const std::string& label)
{
	using Op = typename H::Op;
	using State = typename H::State;
	struct Node { std::vector<Op> hist; std::string key; std::unique_ptr<State> st; };
	BfsResult res;
	std::unordered_set<std::string> seen;
	std::deque<Node> queue;

	auto histStr = [&](const std::vector<Op>& hist) {
		std::string s = label + " :";
		for (auto& o : hist) { s += " "; s += h.show(o); }
		return s;
	};
	auto rebuild = [&](const Node& n) -> std::unique_ptr<State> {
		if (n.st) { auto c = h.clone(*n.st); if (c) return c; }
		auto s = h.fresh();
		for (auto& o : n.hist) h.apply(*s, o, false, "");
		if (h.key(*s) != n.key) {
			ctx.violation("harness/replay-diverged", histStr(n.hist), "replaying the recorded history on a fresh object did not reproduce the recorded state key");
		}
		return s;
	};

	{
		Node n; n.st = h.fresh(); n.key = h.key(*n.st);
		seen.insert(n.key);
		if (!h.clone(*n.st)) n.st.reset();
		queue.push_back(std::move(n));
		res.states = 1;
	}
	while (!queue.empty()) {
		Node n = std::move(queue.front());
		queue.pop_front();
		if (n.hist.size() > res.maxDepth) res.maxDepth = n.hist.size();
		if (n.hist.size() >= maxDepth) { res.fixpoint = false; continue; }
		std::vector<Op> ops;
		{ auto base = rebuild(n); ops = h.enabled(*base); }
		for (auto& op : ops) {
			auto s = rebuild(n);
			std::vector<Op> hist2 = n.hist; hist2.push_back(op);
			std::string hs = histStr(hist2);
			ctx.sub(hs.size() > 230 ? hs.substr(hs.size() - 230) : hs);
			bool ok = h.apply(*s, op, true, hs);
			++res.transitions;
			if (!ok) continue;
			std::string k = h.key(*s);
			if (seen.insert(k).second) {
				++res.states;
				if (res.states > maxStates) { res.fixpoint = false; continue; }
				Node m; m.hist = std::move(hist2); m.key = std::move(k);
				if (h.clone(*s)) m.st = std::move(s);
				queue.push_back(std::move(m));
			}
		}
	}
	ctx.state(res.states);
	ctx.transition(res.transitions);
	if (!res.fixpoint) ctx.capHit(("bfs cap reached: " + label).c_str());
	return res;
}

} // namespace mc
