// Reference RIFF/WAVE builder and parser (independent of src/Archive/WaveFile.*), flat byte vectors.
#pragma once
#include "mc/mc.hpp"
#include <string>
#include <vector>

namespace ref {

struct WaveFormat {
	uint16_t tag = 1, channels = 1; uint32_t rate = 22050, avgBytes = 44100; uint16_t blockAlign = 2, bits = 16;
	bool operator==(const WaveFormat& o) const { return tag == o.tag && channels == o.channels && rate == o.rate && avgBytes == o.avgBytes && blockAlign == o.blockAlign && bits == o.bits; }
};

inline WaveFormat waveFormat(int k)
{
	switch (k) {
	case 1: return WaveFormat{ 1, 2, 44100, 176400, 4, 16 };
	case 2: return WaveFormat{ 1, 1, 8000, 8000, 1, 8 };
	default: return WaveFormat{};
	}
}

struct WavSpec {
	WaveFormat fmt;
	std::vector<uint8_t> data;
	bool chunkBeforeFmt = false, chunkBetween = false, chunkAfterData = false;
	uint32_t fmtSize = 16;           // 16 (no cbSize) or 18 (cbSize present)
	uint16_t cbSizeValue = 0;        // value stored in cbSize when fmtSize == 18
	bool decoys = false;             // the extra chunks carry bytes that look like 'data' / 'fmt ' chunk headers (the one before
	                                 // 'fmt ' puts a 'data' header at file offset 36, where a file without extra chunks has it)
};

inline std::vector<uint8_t> extraChunkBody(const WavSpec& w, int which)   // 0 before 'fmt ', 1 between, 2 after the data
{
	if (!w.decoys) return which == 0 ? std::vector<uint8_t>{ 1, 2, 3, 4 } : which == 1 ? std::vector<uint8_t>{ 9, 9 } : std::vector<uint8_t>{ 7, 7, 7, 7, 7, 7 };
	std::vector<uint8_t> b;
	if (which == 0) { for (int i = 0; i < 16; ++i) b.push_back(uint8_t(0xA1 + i)); mc::putStr(b, "data"); mc::put32(b, 4); for (int i = 0; i < 8; ++i) b.push_back(uint8_t(0x22 + i)); }
	else if (which == 1) { mc::putStr(b, "data"); mc::put32(b, 2); b.push_back(0x55); b.push_back(0x66); }
	else { mc::putStr(b, "data"); mc::put32(b, 0); mc::putStr(b, "fmt "); mc::put32(b, 16); for (int i = 0; i < 4; ++i) b.push_back(uint8_t(0x33 + i)); }
	return b;
}

inline void putChunk(std::vector<uint8_t>& v, const char* tag, const std::vector<uint8_t>& body)
{
	mc::putStr(v, std::string(tag, 4)); mc::put32(v, uint32_t(body.size())); v.insert(v.end(), body.begin(), body.end());
}

inline std::vector<uint8_t> encodeWav(const WavSpec& w)
{
	std::vector<uint8_t> body;
	mc::putStr(body, "WAVE");
	// with decoys the extra chunks also carry ids that equal the real tags except for letter case (RIFF ids are case sensitive)
	if (w.chunkBeforeFmt) putChunk(body, w.decoys ? "Fmt " : "LIST", extraChunkBody(w, 0));
	std::vector<uint8_t> f;
	mc::put16(f, w.fmt.tag); mc::put16(f, w.fmt.channels); mc::put32(f, w.fmt.rate); mc::put32(f, w.fmt.avgBytes); mc::put16(f, w.fmt.blockAlign); mc::put16(f, w.fmt.bits);
	if (w.fmtSize >= 18) mc::put16(f, w.cbSizeValue);
	putChunk(body, "fmt ", f);
	if (w.chunkBetween) putChunk(body, w.decoys ? "DATA" : "fact", extraChunkBody(w, 1));
	putChunk(body, "data", w.data);
	if (w.chunkAfterData) putChunk(body, w.decoys ? "Data" : "cue ", extraChunkBody(w, 2));
	std::vector<uint8_t> v;
	mc::putStr(v, "RIFF"); mc::put32(v, uint32_t(body.size())); v.insert(v.end(), body.begin(), body.end());
	return v;
}

struct ParsedWav { bool ok = false; std::string why; WaveFormat fmt; uint16_t cbSize = 0; uint32_t fmtSize = 0; std::vector<uint8_t> data; uint32_t riffSize = 0; };

// strict parser of the canonical extracted form: RIFF size WAVE 'fmt ' 18 WAVEFORMATEX 'data' n bytes
inline ParsedWav parseCanonicalWav(const std::vector<uint8_t>& v)
{
	ParsedWav p;
	if (v.size() < 46) { p.why = "shorter than the 46-byte canonical header"; return p; }
	if (std::string(v.begin(), v.begin() + 4) != "RIFF" || std::string(v.begin() + 8, v.begin() + 12) != "WAVE") { p.why = "RIFF/WAVE tags"; return p; }
	p.riffSize = mc::get32(v, 4);
	if (uint64_t(p.riffSize) + 8 != v.size()) { p.why = "RIFF size " + std::to_string(p.riffSize) + " != file size - 8 (" + std::to_string(v.size() - 8) + ")"; return p; }
	if (std::string(v.begin() + 12, v.begin() + 16) != "fmt ") { p.why = "fmt tag"; return p; }
	p.fmtSize = mc::get32(v, 16);
	if (p.fmtSize != 18) { p.why = "fmt chunk size " + std::to_string(p.fmtSize); return p; }
	p.fmt.tag = mc::get16(v, 20); p.fmt.channels = mc::get16(v, 22); p.fmt.rate = mc::get32(v, 24); p.fmt.avgBytes = mc::get32(v, 28); p.fmt.blockAlign = mc::get16(v, 32); p.fmt.bits = mc::get16(v, 34);
	p.cbSize = mc::get16(v, 36);
	if (p.cbSize != 0) { p.why = "cbSize not 0"; return p; }
	if (std::string(v.begin() + 38, v.begin() + 42) != "data") { p.why = "data tag"; return p; }
	uint32_t n = mc::get32(v, 42);
	if (uint64_t(n) + 46 != v.size()) { p.why = "data length " + std::to_string(n) + " does not end the file (" + std::to_string(v.size()) + ")"; return p; }
	p.data.assign(v.begin() + 46, v.end());
	p.ok = true;
	return p;
}

} // namespace ref
