// Deviation-bounded fault enumeration over byte strings.
// Given a valid seed file and its field map (offset, width, name) this enumerates, deterministically:
//   level 1: every proper prefix; every integer field x every boundary value; every byte x 4 substitutions
//   level 2: every pair of fields x a reduced value set
// Mutants are addressed by index so that work can be chunked and a single case replayed.
#pragma once
#include "mc.hpp"
#include <set>
#include <string>
#include <vector>

namespace mc {

struct FField { std::size_t offset; int width; std::string name; };

struct FaultSeed {
	std::string name;
	std::vector<uint8_t> bytes;
	std::vector<FField> fields;
	bool withPrefixes = true;                 // enumerate every proper prefix (checks that handle prefixes themselves switch this off)
	std::size_t subFrom = 0, subTo = ~std::size_t(0);   // byte substitutions only inside [subFrom, subTo)
};

struct Mutant { std::vector<uint8_t> bytes; std::string desc; };

inline uint64_t fieldGet(const std::vector<uint8_t>& v, const FField& f)
{
	uint64_t x = 0;
	for (int i = 0; i < f.width; ++i) x |= uint64_t(v[f.offset + i]) << (8 * i);
	return x;
}
inline void fieldSet(std::vector<uint8_t>& v, const FField& f, uint64_t x)
{
	for (int i = 0; i < f.width; ++i) v[f.offset + i] = uint8_t(x >> (8 * i));
}

// boundary values for a field currently holding x in a file of fileSize bytes
inline std::vector<uint64_t> fieldValues(const FField& f, uint64_t x, uint64_t fileSize, bool reduced)
{
	std::set<uint64_t> s;
	uint64_t mask = f.width >= 8 ? ~0ull : ((1ull << (8 * f.width)) - 1);
	if (f.width == 2) {
		for (uint64_t v : std::vector<uint64_t>{ 0, 1, 0xFF, 0x100, 0x101, 0x102, 0x103, 0x104, 0x7FFF, 0x8000, 0xFFFF, x + 1, x - 1 }) s.insert(v & mask);
	}
	else if (reduced) {
		for (uint64_t v : std::vector<uint64_t>{ 0, 1, x + 1, x - 1, 14, 0x7FFFFFFFull, 0x80000000ull, 0xFFFFFFFFull, fileSize, fileSize - 7 }) s.insert(v & mask);
	}
	else {
		uint64_t plain = x & 0x7FFFFFFFull;
		std::vector<uint64_t> base = { 0, 1, 2, 3, 4, 7, 8, x - 1, x, x + 1, x + 2, x + 4, x - 4, x + 14, x - 14, 13, 14, 15, 27, 28, 29, 0x7FFFFFFEull, 0x7FFFFFFFull, 0x80000000ull, 0x80000001ull,
			0xFFFFFFF0ull, 0xFFFFFFF4ull, 0xFFFFFFF7ull, 0xFFFFFFF8ull, 0xFFFFFFF9ull, 0xFFFFFFFEull, 0xFFFFFFFFull, 0 - x, 0 - x + 1, fileSize, fileSize - 1, fileSize + 1, fileSize - 8, fileSize - 7, fileSize - 4,
			fileSize - plain, 2 * plain, 0x10000ull, 0xFFFFull, 0x1000000ull };
		for (uint64_t v : base) { s.insert(v & mask); if (f.name.find("length+flag") != std::string::npos) { s.insert((v | 0x80000000ull) & mask); s.insert(v & 0x7FFFFFFFull); } }
	}
	s.erase(x & mask);
	return std::vector<uint64_t>(s.begin(), s.end());
}

class FaultSpace {
public:
	FaultSpace(const FaultSeed& seed, bool level2) : seed(seed)
	{
		std::size_t n = seed.bytes.size();
		// prefixes
		if (seed.withPrefixes) for (std::size_t k = 0; k < n; ++k) items.push_back({ 0, k, 0, 0, 0 });
		// field x value
		for (std::size_t fi = 0; fi < seed.fields.size(); ++fi)
			for (uint64_t v : fieldValues(seed.fields[fi], fieldGet(seed.bytes, seed.fields[fi]), n, false)) items.push_back({ 1, fi, v, 0, 0 });
		// byte substitutions
		for (std::size_t k = seed.subFrom; k < n && k < seed.subTo; ++k) for (int sub = 0; sub < 4; ++sub) items.push_back({ 2, k, uint64_t(sub), 0, 0 });
		level1Count = items.size();
		if (level2) {
			for (std::size_t a = 0; a < seed.fields.size(); ++a) for (std::size_t b = a + 1; b < seed.fields.size(); ++b) {
				auto va = fieldValues(seed.fields[a], fieldGet(seed.bytes, seed.fields[a]), n, true);
				auto vb = fieldValues(seed.fields[b], fieldGet(seed.bytes, seed.fields[b]), n, true);
				for (uint64_t x : va) for (uint64_t y : vb) items.push_back({ 3, a, x, b, y });
			}
		}
	}
	std::size_t size() const { return items.size(); }
	std::size_t level1() const { return level1Count; }

	Mutant get(std::size_t i) const
	{
		const Item& it = items[i];
		Mutant m; m.bytes = seed.bytes;
		switch (it.kind) {
		case 0: m.bytes.resize(it.a); m.desc = seed.name + " prefix " + std::to_string(it.a) + "/" + std::to_string(seed.bytes.size()); break;
		case 1: fieldSet(m.bytes, seed.fields[it.a], it.v); m.desc = seed.name + " " + seed.fields[it.a].name + "=" + std::to_string(it.v); break;
		case 2: {
			uint8_t& b = m.bytes[it.a];
			uint8_t old = b;
			switch (it.v) { case 0: b = 0x00; break; case 1: b = 0xFF; break; case 2: b ^= 0x80; break; default: b = uint8_t(b + 1); }
			if (b == old) b ^= 0x55;
			m.desc = seed.name + " byte[" + std::to_string(it.a) + "]=" + std::to_string(b);
			break;
		}
		default:
			fieldSet(m.bytes, seed.fields[it.a], it.v); fieldSet(m.bytes, seed.fields[it.b], it.w);
			m.desc = seed.name + " " + seed.fields[it.a].name + "=" + std::to_string(it.v) + " & " + seed.fields[it.b].name + "=" + std::to_string(it.w);
		}
		return m;
	}
	bool isPrefix(std::size_t i) const { return items[i].kind == 0; }

private:
	struct Item { int kind; std::size_t a; uint64_t v; std::size_t b; uint64_t w; };
	FaultSeed seed;
	std::vector<Item> items;
	std::size_t level1Count = 0;
};

} // namespace mc
