// C20 - writers refuse quantities that do not fit their on-disk fields.
// Every limit is enumerated at and just beyond: VOL member sizes and accumulated offsets (sparse files), CLM data
// offsets and name lengths, size-prefixed containers, the 32-bit container size of maps, frame layer counts.
#include <cctype>
#include <sys/mman.h>
#include "mc/mc.hpp"
#include "ref/ref_vol.hpp"
#include "ref/ref_clm.hpp"
#include "ref/ref_wav.hpp"
#include "checks/prt_common.hpp"
#include "Archive/VolFile.h"
#include "Archive/ClmFile.h"
#include "Map/Map.h"
#include "Stream/DynamicMemoryWriter.h"
#include <array>
#include <memory>
#include <set>
#include <functional>
#include <unistd.h>
#include <fcntl.h>
#include <sys/stat.h>

using namespace OP2Utility;
using mc::Ctx;

namespace {

void sparseFile(const std::string& path, uint64_t size, const std::vector<uint8_t>& head = {})
{
	int fd = ::open(path.c_str(), O_CREAT | O_TRUNC | O_WRONLY, 0644);
	if (fd < 0) std::abort();
	if (!head.empty() && ::write(fd, head.data(), head.size()) != ssize_t(head.size())) std::abort();
	if (::ftruncate(fd, off_t(size)) != 0) { std::perror("ftruncate"); std::abort(); }
	::close(fd);
}

bool exists(const std::string& p) { struct stat st; return ::stat(p.c_str(), &st) == 0; }

// ---- VOL ----
bool volCase(Ctx& ctx, const std::vector<uint64_t>& sizes, bool mustFit, const std::string& why)
{
	bool held = true;
	std::string dir = ctx.freshDir("c20vol");
	std::vector<std::string> files;
	std::string key = "VOL members of";
	for (std::size_t i = 0; i < sizes.size(); ++i) { std::string p = dir + "/m" + std::to_string(i) + ".bin"; sparseFile(p, sizes[i]); files.push_back(p); key += " " + std::to_string(sizes[i]); }
	key += " bytes (" + why + ")";
	for (int pre = 0; pre < (mustFit ? 1 : 2); ++pre) {
		std::string out = dir + "/out.vol";
		::unlink(out.c_str());
		if (pre) mc::writeFile(out, "SENTINEL-OUTPUT", 15);
		ctx.sub(key + (pre ? " pre-existing destination" : " absent destination"));
		auto o = mc::guarded([&] { Archive::VolFile::CreateArchive(out, files); });
		ctx.transition(); ctx.outcome(mc::fnv(key) ^ uint64_t(o.cls) ^ (uint64_t(pre) << 9));
		if (mustFit) {
			ctx.count("vol/at-the-limit-accepted");
			if (o.cls != 'R') { held = false, ctx.violation("C20/vol/refused-although-it-fits", key, o.what); break; }
			// the written fields must hold the exact values: decode index and block header independently
			auto r = mc::guarded([&] {
				Archive::VolFile v(out);
				if (v.GetCount() != sizes.size()) throw std::runtime_error("count");
				for (std::size_t i = 0; i < sizes.size(); ++i) { if (v.GetSize(i) != sizes[i]) throw std::runtime_error("size field " + std::to_string(v.GetSize(i))); auto st = v.OpenStream(i); if (st->Length() != sizes[i]) throw std::runtime_error("block length " + std::to_string(st->Length())); }
			});
			if (r.cls != 'R') held = false, ctx.violation("C20/vol/field-value-after-accepting", key, r.what);
			struct stat st; ::stat(out.c_str(), &st);
			uint64_t expect = 32 + 8 + ((2 * 8 + 3) / 4 * 4); (void)expect;
		}
		else {
			ctx.count("vol/beyond-the-limit");
			if (o.cls == 'R') { held = false, ctx.violation("C20/vol/accepted-although-it-does-not-fit", key, "archive written"); break; }
			if (o.cls == 'X') { held = false, ctx.violation("C20/vol/non-std-exception", key, ""); break; }
			if (pre) { auto now = mc::readFile(out); if (std::string(now.begin(), now.end()) != "SENTINEL-OUTPUT") { held = false, ctx.violation("C20/vol/destination-altered-by-refusal", key, "pre-existing destination now has " + std::to_string(now.size()) + " bytes"); break; } }
			else if (exists(out)) { held = false, ctx.violation("C20/vol/destination-created-by-refusal", key, ""); break; }
		}
	}
	ctx.state(); ctx.trace();
	mc::removeTree(dir);
	return held;
}

// every start of the third block from just beyond 2^32 down to exactly 2^32: two members of about 2 GiB and a small one. The header
// length is measured, not assumed: an archive of three empty members with the same names is header + three 8-byte block headers
void volBoundarySweep(Ctx& ctx)
{
	std::string dir = ctx.freshDir("c20sweep");
	std::vector<std::string> files;
	for (int i = 0; i < 3; ++i) { std::string p = dir + "/m" + std::to_string(i) + ".bin"; sparseFile(p, 0); files.push_back(p); }
	uint64_t header = 0;
	auto o = mc::guarded([&] { Archive::VolFile::CreateArchive(dir + "/probe.vol", files); header = mc::readFile(dir + "/probe.vol").size() - 24; });
	mc::removeTree(dir);
	if (o.cls != 'R' || header < 32 || header > 4096) { ctx.violation("C20/vol/probe-archive", "three empty members", o.what); return; }
	const uint64_t s0 = 0x7FFFFFF0ull;
	for (uint64_t d = 0; d < header + 64; d += 4) {
		uint64_t s1 = s0 - d;
		uint64_t third = header + 8 + s0 + 8 + s1;     // s0, s1 are multiples of 4: no padding
		if (third <= 0xFFFFFFFFull) continue;           // fits: packing it would really copy 4 GiB; the accepted side is covered by the smaller sets
		bool held = volCase(ctx, { s0, s1, 16 }, false, "third block would start at 2^32+" + std::to_string(third - 0x100000000ull) + " (header of " + std::to_string(header) + " bytes)");
		ctx.count("vol/third-block-just-beyond-2^32");
		if (!held) break;
	}
}

// ---- CLM ----
std::vector<uint8_t> wavHead(uint64_t dataLen)
{
	ref::WavSpec w; w.fmtSize = 18;
	auto v = ref::encodeWav(w);                       // 46-byte header with empty data
	mc::set32(v, 4, uint32_t(38 + dataLen));
	mc::set32(v, 42, uint32_t(dataLen));
	return v;
}

void clmCase(Ctx& ctx, const std::vector<uint64_t>& dataLens, const std::string& why)
{
	std::string dir = ctx.freshDir("c20clm");
	std::vector<std::string> files;
	std::string key = "CLM tracks with data of";
	for (std::size_t i = 0; i < dataLens.size(); ++i) { std::string p = dir + "/t" + std::to_string(i) + ".wav"; sparseFile(p, 46 + dataLens[i], wavHead(dataLens[i])); files.push_back(p); key += " " + std::to_string(dataLens[i]); }
	key += " bytes (" + why + ")";
	ctx.sub(key);
	auto o = mc::guarded([&] { Archive::ClmFile::CreateArchive(dir + "/out.clm", files); });
	ctx.transition(); ctx.count("clm/offset-beyond-32-bits"); ctx.outcome(mc::fnv(key) ^ uint64_t(o.cls));
	if (o.cls == 'R') ctx.violation("C20/clm/accepted-offset-beyond-32-bits", key, "");
	else if (o.cls == 'X') ctx.violation("C20/clm/non-std-exception", key, "");
	ctx.state(); ctx.trace();
	mc::removeTree(dir);
}

void clmNames(Ctx& ctx)
{
	std::string dir = ctx.freshDir("c20names");
	ref::WavSpec w; w.data = { 1, 2, 3, 4 }; w.fmtSize = 18;
	auto bytes = ref::encodeWav(w);
	// base names of 1, 7, 8 (fit) and 9, 10, 12, 13, 16 (do not fit) characters x extensions of every length incl. none:
	// the 8-character limit applies to the name without its extension, whatever the extension looks like
	for (const std::string& base : { std::string("a"), std::string("abcdefg"), std::string("abcdefgh"), std::string("ABCDEFG8"), std::string("abcdefghi"), std::string("a23456789"), std::string("abcdefghij"), std::string("twelvechars_"), std::string("thirteenchars"), std::string("abcdefghijklmnop"),
		std::string("track\\boss0001"), std::string("a\\b"), std::string("long name with spaces"),
		// the field holds 8 bytes, however few characters they spell: four two-byte letters fit, five do not, nor do three three-byte ones
		std::string("\xC3\xBC\xC3\xA4\xC3\xB6\xC3\x9F"), std::string("m\xC3\xBCsic\xC3\xA4\xC3\xB6"), std::string("\xC3\xBC\xC3\xA4\xC3\xB6\xC3\x9F\xC3\xA9"), std::string("\xE2\x82\xAC\xE2\x82\xAC\xE2\x82\xAC"), std::string("caf\xE9\xE9\xE9\xE9\xE9\xE9") })   // a backslash is an ordinary file name character here
	for (const std::string& ext : { std::string(".wav"), std::string(".WAV"), std::string(""), std::string(".w"), std::string(".wv"), std::string(".wave"), std::string(".") }) {
		std::string p = dir + "/" + base + ext;
		mc::writeFile(p, bytes);
		std::string out = dir + "/n.clm"; ::unlink(out.c_str());
		auto o = mc::guarded([&] { Archive::ClmFile::CreateArchive(out, { p }); });
		ctx.transition();
		std::string key = "CLM name '" + base + "' (" + std::to_string(base.size()) + " bytes)";
		if (base.size() <= 8) {
			ctx.count("clm/name-of-8");
			// a name that fits need not be accepted for all that: only names of letters, digits and underscores are (C03 packs those);
			// a writer may refuse blanks, separators or bytes beyond ASCII - what it accepts must come out whole (below)
			bool plain = !base.empty(); for (unsigned char ch : base) if (!(std::isalnum(ch) && ch < 0x80) && ch != '_') plain = false;
			if (o.cls != 'R' && !plain) { ctx.count("clm/unusual-name-refused"); continue; }
			if (o.cls != 'R') { ctx.violation("C20/clm/refused-8-character-name", key, o.what); continue; }
			auto p2 = ref::parseClm(mc::readFile(out));
			if (!p2.ok || p2.entries.size() != 1 || p2.entries[0].name != base) ctx.violation("C20/clm/name-field-after-accepting", key, p2.ok ? p2.entries[0].name : p2.why);
		}
		else { ctx.count("clm/name-of-9-or-more"); if (o.cls == 'R') ctx.violation("C20/clm/accepted-over-long-name", key, ""); }
		::unlink(p.c_str());
	}
	ctx.state(); ctx.trace();
	mc::removeTree(dir);
}

// ---- size prefixes ----
template <class S>
void prefixLimit(Ctx& ctx, const char* name)
{
	uint64_t maxv = uint64_t(std::numeric_limits<S>::max());
	for (uint64_t z : { maxv - 1, maxv, maxv + 1, maxv + 2 }) {
		std::vector<uint8_t> c(std::size_t(z), 0x5C);
		std::string s(std::size_t(z), 'q');
		for (int kind = 0; kind < 2; ++kind) {
			Stream::DynamicMemoryWriter w;
			auto o = mc::guarded([&] { if (kind == 0) w.template Write<S>(c); else w.template Write<S>(s); });
			ctx.transition();
			ctx.outcome(mc::fnv(name) ^ z ^ uint64_t(o.cls) << 20);
			std::string key = std::string("Write<") + name + ">(" + (kind ? "string" : "vector") + " of " + std::to_string(z) + ")";
			if (z > maxv) { ctx.count("prefix/beyond-the-limit"); if (o.cls == 'R') ctx.violation(std::string("C20/prefix/accepted-oversize/") + name, key, ""); else if (w.Length() != 0) ctx.violation("C20/prefix/partial-output-on-refusal", key, ""); }
			else {
				ctx.count("prefix/at-the-limit");
				if (o.cls != 'R') { ctx.violation(std::string("C20/prefix/refused-fitting/") + name, key, o.what); continue; }
				auto r = w.GetReader(); std::vector<uint8_t> got(std::size_t(r.Length())); r.Read(got.data(), got.size());
				uint64_t field = 0; for (std::size_t i = 0; i < sizeof(S); ++i) field |= uint64_t(got[i]) << (8 * i);
				if (field != z || got.size() != sizeof(S) + z) ctx.violation(std::string("C20/prefix/field-value/") + name, key, std::to_string(field));
			}
		}
	}
}

// 32- and 64-bit prefixes: a container of 2^32 elements cannot be built in the ordinary way, so a stand-in reports such a size.
// Up to 8 GiB its elements really exist (untouched, lazily mapped zero pages: a writer that copies them may), beyond that
// no memory can back it and the pointer must never be followed: such a size fits no prefix narrower than 64 bits and has to
// be refused before anything is read or written. The writer below only counts, and keeps the first eight bytes it is given.
struct ClaimsToBeHuge {
	using value_type = char;
	std::size_t n; char* mapped = nullptr;
	explicit ClaimsToBeHuge(std::size_t n) : n(n)
	{
		if (n > 0 && n <= (std::size_t(1) << 33)) { void* p = ::mmap(nullptr, n, PROT_READ, MAP_PRIVATE | MAP_ANONYMOUS | MAP_NORESERVE, -1, 0); if (p != MAP_FAILED) mapped = static_cast<char*>(p); }
	}
	ClaimsToBeHuge(const ClaimsToBeHuge&) = delete;
	~ClaimsToBeHuge() { if (mapped) ::munmap(mapped, n); }   // not trivially copyable: takes the container overloads
	std::size_t size() const { return n; }
	const char* data() const { static const char few[16] = { 0 }; return mapped ? mapped : few; }
	const char* begin() const { return data(); }
	const char* end() const { return data() + (mapped ? n : (n < 16 ? n : 16)); }
};
struct OnlyCounts : Stream::Writer {
	uint64_t total = 0; std::vector<uint8_t> head;
	void WriteImplementation(const void* buffer, std::size_t size) override { if (head.size() < 8) { const uint8_t* p = static_cast<const uint8_t*>(buffer); head.insert(head.end(), p, p + std::min<std::size_t>(size, 8 - head.size())); } total += size; }
};
template <class S>
void widePrefixLimit(Ctx& ctx, const char* name)
{
	const uint64_t maxv = uint64_t(std::numeric_limits<S>::max());
	std::vector<uint64_t> sizes = { 0, 5, 16, maxv - 1, maxv, (uint64_t(1) << 32) + 6 };
	if (maxv < ~uint64_t(0)) for (uint64_t z : { maxv + 1, maxv + 6, maxv * 2 + 1, ~uint64_t(0) >> 1, ~uint64_t(0) }) sizes.push_back(z);
	for (uint64_t z : sizes) {
		if (z > uint64_t(std::numeric_limits<std::size_t>::max())) continue;
		OnlyCounts w; ClaimsToBeHuge c{ std::size_t(z) };
		// a size that fits the prefix is a container that could exist: it is tried only when its elements really are there
		if (z <= maxv && z > 16 && !c.mapped) { ctx.count("prefix/fitting-size-no-memory-can-back"); continue; }
		auto o = mc::guarded([&] { w.template Write<S>(c); });
		ctx.transition();
		std::string key = std::string("Write<") + name + ">(container reporting " + std::to_string(z) + " elements)";
		if (z > maxv) { ctx.count("prefix/beyond-the-limit-wide"); if (o.cls == 'R') ctx.violation(std::string("C20/prefix/accepted-oversize/") + name, key, "prefix written: " + mc::hex(w.head.data(), w.head.size())); else if (w.total != 0) ctx.violation("C20/prefix/partial-output-on-refusal", key, std::to_string(w.total) + " bytes"); }
		else {
			ctx.count("prefix/at-the-limit-wide");
			// a writer that assembles prefix and data in memory first needs as much memory again as the container: under the
			// harness's allocation cap that is an exhausted resource, not a verdict on the limit
			if (o.cls != 'R' && z > (uint64_t(1) << 20) && o.what.find("bad_alloc") != std::string::npos) { ctx.count("prefix/at-the-limit-wide-out-of-memory"); continue; }
			if (o.cls != 'R') { ctx.violation(std::string("C20/prefix/refused-fitting/") + name, key, o.what); continue; }
			uint64_t field = 0; for (std::size_t i = 0; i < sizeof(S) && i < w.head.size(); ++i) field |= uint64_t(w.head[i]) << (8 * i);
			if (w.head.size() < sizeof(S) || field != z || w.total != sizeof(S) + z) ctx.violation(std::string("C20/prefix/field-value/") + name, key, std::to_string(field) + ", " + std::to_string(w.total) + " bytes in all");
		}
	}
}

struct CountingWriter : Stream::Writer {
	std::vector<uint8_t> bytes;
	void WriteImplementation(const void* buffer, std::size_t size) override { const uint8_t* p = static_cast<const uint8_t*>(buffer); bytes.insert(bytes.end(), p, p + size); }
};

template <class M, class = void> struct HasWriteContainerSize : std::false_type {};
template <class M> struct HasWriteContainerSize<M, std::void_t<decltype(M::WriteContainerSize(std::declval<Stream::Writer&>(), std::size_t(0)))>> : std::true_type {};
template <class M> bool callContainerSizeGuard(Stream::Writer& w, std::size_t z)
{
	if constexpr (HasWriteContainerSize<M>::value) { M::WriteContainerSize(w, z); return true; }
	else return false;
}

void mapContainerSize(Ctx& ctx)
{
	if (!HasWriteContainerSize<Map>::value) {
		// the private guard function is gone or renamed: a 2^32 element container cannot be built, so this limit is out of reach
		ctx.count("binding/fallback-keys"); ctx.count("map/beyond-the-limit"); ctx.count("map/at-the-limit"); ctx.state(); return;
	}
	for (uint64_t z : { uint64_t(0), uint64_t(1), uint64_t(0xFFFFFFFEull), uint64_t(0xFFFFFFFFull), uint64_t(0x100000000ull), uint64_t(0x100000001ull), uint64_t(0x1FFFFFFFFull), ~uint64_t(0) }) {
		CountingWriter w;
		auto o = mc::guarded([&] { callContainerSizeGuard<Map>(w, std::size_t(z)); });     // private guard function, called directly (a 2^32 element container cannot be built)
		ctx.transition();
		std::string key = "Map::WriteContainerSize(" + std::to_string(z) + ")";
		if (z > 0xFFFFFFFFull) { ctx.count("map/beyond-the-limit"); if (o.cls == 'R') ctx.violation("C20/map/accepted-container-size-beyond-32-bits", key, "wrote " + mc::hex(w.bytes.data(), w.bytes.size())); else if (!w.bytes.empty()) ctx.violation("C20/map/partial-output-on-refusal", key, ""); }
		else { ctx.count("map/at-the-limit"); if (o.cls != 'R' || w.bytes.size() != 4 || mc::get32(w.bytes, 0) != uint32_t(z)) ctx.violation("C20/map/container-size-field", key, o.what); }
	}
	ctx.state(); ctx.trace();
}

// ---- frames: every layer-list length x every 7-bit count ----
void frames(Ctx& ctx, int listFrom, int listTo)
{
	std::vector<int> z(prtc::kDims, 0);
	ArtFile base = prtc::readArt(ref::encodePrt(prtc::makePrt(z)));
	for (int len = listFrom; len < listTo; ++len) for (int count = 0; count < 128; ++count) for (int flag = 0; flag < 2; ++flag) {
		ArtFile a = base;
		auto& f = a.animations[0].frames[0];
		f.layers.assign(std::size_t(len), Animation::Frame::Layer{ 0, 1, 2, { 3, 4 } });
		f.layerMetadata.count = uint8_t(count); f.layerMetadata.bReadOptionalData = uint8_t(flag);
		std::vector<uint8_t> out;
		auto o = mc::guarded([&] { out = prtc::writeArt(a); });
		ctx.transition();
		ctx.outcome((uint64_t(len == count) << 1) ^ uint64_t(o.cls) ^ (uint64_t(flag) << 8) ^ (uint64_t(len > 127) << 12));
		std::string key = "frame with " + std::to_string(len) + " layers and 7-bit count " + std::to_string(count) + (flag ? " (optional flag set)" : "");
		if (len != count) { ctx.count("frames/mismatch"); if (o.cls == 'R') ctx.violation("C20/frames/accepted-layer-list-disagreeing-with-count", key, ""); }
		else {
			ctx.count("frames/match");
			if (o.cls != 'R') { ctx.violation("C20/frames/refused-matching-layer-list", key, o.what); continue; }
			ArtFile back; auto r = mc::guarded([&] { back = prtc::readArt(out); });
			if (r.cls != 'R' || back.animations[0].frames[0].layers.size() != std::size_t(len)) ctx.violation("C20/frames/field-value-after-accepting", key, r.what);
		}
	}
	ctx.state(); ctx.trace();
}

// layer lists whose length equals the count modulo 128, 256, 65536: still a mismatch
void framesModulo(Ctx& ctx)
{
	std::vector<int> z(prtc::kDims, 0);
	ArtFile base = prtc::readArt(ref::encodePrt(prtc::makePrt(z)));
	for (int count : { 0, 1, 2, 5, 126, 127 }) for (int add : { 128, 256, 384, 512, 1024, 65536, 65536 + 128 }) for (int flag = 0; flag < 2; ++flag) {
		int len = count + add;
		ArtFile a = base;
		auto& f = a.animations[0].frames[0];
		f.layers.assign(std::size_t(len), Animation::Frame::Layer{ 0, 1, 2, { 3, 4 } });
		f.layerMetadata.count = uint8_t(count); f.layerMetadata.bReadOptionalData = uint8_t(flag);
		auto o = mc::guarded([&] { prtc::writeArt(a); });
		ctx.transition();
		std::string key = "frame with " + std::to_string(len) + " layers and 7-bit count " + std::to_string(count) + " (equal modulo " + std::to_string(add) + ")";
		ctx.count("frames/mismatch-modulo-field-width");
		if (o.cls == 'R') ctx.violation("C20/frames/accepted-layer-list-disagreeing-with-count", key, "");
	}
	// several frames whose mismatches cancel in the totals (a check of the sums alone would pass): each frame is judged alone
	{
		std::vector<int> z2(prtc::kDims, 0); z2[5] = 2;   // two frames in the animation
		ArtFile two = prtc::readArt(ref::encodePrt(prtc::makePrt(z2)));
		if (two.animations.empty() || two.animations[0].frames.size() < 2) { ctx.violation("harness/two-frame-structure", "makePrt", ""); }
		else for (auto pr : std::vector<std::array<int, 4>>{ { 1, 3, 3, 1 }, { 0, 2, 2, 0 }, { 3, 130, 127, 0 }, { 2, 1, 1, 2 }, { 5, 4, 4, 5 } }) {
			ArtFile a = two;
			auto& f0 = a.animations[0].frames[0]; auto& f1 = a.animations[0].frames[1];
			f0.layerMetadata.count = uint8_t(pr[0]); f0.layers.assign(std::size_t(pr[1]), Animation::Frame::Layer{ 0, 1, 2, { 3, 4 } });
			f1.layerMetadata.count = uint8_t(pr[2]); f1.layers.assign(std::size_t(pr[3]), Animation::Frame::Layer{ 0, 1, 2, { 3, 4 } });
			auto o = mc::guarded([&] { prtc::writeArt(a); });
			ctx.transition();
			std::string key = "two frames: count " + std::to_string(pr[0]) + " with " + std::to_string(pr[1]) + " layers, count " + std::to_string(pr[2]) + " with " + std::to_string(pr[3]) + " layers (the sums agree)";
			ctx.count("frames/mismatches-cancelling-in-the-totals");
			if (o.cls == 'R') ctx.violation("C20/frames/accepted-layer-list-disagreeing-with-count", key, "");
		}
	}
	ctx.state(); ctx.trace();
}

struct CaseDef { int kind; int a, b; };
std::vector<CaseDef> gCases;

void build(Ctx& ctx)
{
	gCases.clear();
	for (int k = 0; k < 9; ++k) gCases.push_back({ 0, k, 0 });
	if (ctx.thorough) gCases.push_back({ 0, 100, 0 });
	for (int k = 0; k < 4; ++k) gCases.push_back({ 1, k, 0 });
	gCases.push_back({ 2, 0, 0 }); gCases.push_back({ 3, 0, 0 }); gCases.push_back({ 4, 0, 0 });
	for (int f = 0; f <= 130; f += 10) gCases.push_back({ 5, f, std::min(f + 10, 131) });
	gCases.push_back({ 6, 0, 0 });
	gCases.push_back({ 7, 0, 0 });
}

void runCase(std::size_t i, Ctx& ctx)
{
	const CaseDef& c = gCases[i];
	const uint64_t G2 = 0x80000000ull, G4 = 0x100000000ull;
	switch (c.kind) {
	case 0:
		switch (c.a) {
		case 0: volCase(ctx, { G2 }, false, "member of 2^31 bytes: the block length field has 31 bits"); break;
		case 1: volCase(ctx, { G4 - 1 }, false, "member of 2^32-1 bytes"); break;
		case 2: volCase(ctx, { G4 }, false, "member of 2^32 bytes"); break;
		case 3: volCase(ctx, { 5, G2 + 1, 7 }, false, "second member of 2^31+1 bytes"); break;
		case 4: volCase(ctx, { G2 - 1, G2 - 1, G2 - 1 }, false, "three members of 2^31-1 bytes: the third block offset crosses 2^32"); break;
		case 5: volCase(ctx, { G2 - 1, G2 - 1, 100 }, false, "2^31-1 + 2^31-1 + small: the third block offset crosses 2^32"); break;
		case 6: volCase(ctx, { 3, G2 - 1, G2 - 1, 1 }, false, "the fourth block offset crosses 2^32"); break;
		case 7: volCase(ctx, { G4 + 5, 1 }, false, "member of 2^32+5 bytes"); break;
		case 8: volCase(ctx, { 0x7FFFFFF, 0x8000001 }, true, "two members of about 128 MiB: well inside every field"); ctx.sample("VOL members of 2^31, 2^32-1, 2^32 bytes (sparse files) and sets whose block offsets cross 2^32 must be refused with the destination absent / untouched"); break;
		default: volCase(ctx, { G2 - 1 }, true, "member of 2^31-1 bytes: the largest representable block length (2 GiB really copied)"); break;
		}
		break;
	case 1:
		switch (c.a) {
		case 0: clmCase(ctx, { G4 - 1000, 2000 }, "second data offset + length crosses 2^32"); break;
		case 1: clmCase(ctx, { G4 - 93, 1 }, "first data ends exactly at 2^32-1, second crosses"); break;
		case 2: clmCase(ctx, { G2, G2 - 50, 100 }, "third data crosses 2^32"); break;
		default: clmCase(ctx, { G4 - 60 }, "single data chunk: header + index + data crosses 2^32"); break;
		}
		break;
	case 2: clmNames(ctx); break;
	case 3: prefixLimit<uint8_t>(ctx, "u8"); prefixLimit<int8_t>(ctx, "i8"); prefixLimit<uint16_t>(ctx, "u16"); prefixLimit<int16_t>(ctx, "i16"); widePrefixLimit<uint32_t>(ctx, "u32"); widePrefixLimit<int32_t>(ctx, "i32"); widePrefixLimit<uint16_t>(ctx, "u16"); widePrefixLimit<uint64_t>(ctx, "u64"); widePrefixLimit<int64_t>(ctx, "i64"); ctx.state(); ctx.trace(); break;
	case 4: mapContainerSize(ctx); break;
	case 6: framesModulo(ctx); break;
	case 7: volBoundarySweep(ctx); break;
	default: frames(ctx, c.a, c.b); if (c.a == 120) ctx.sample("ArtFile::Write with a frame of 127 layers and count 127 (accepted) / 128 layers and count 0 (refused): every layer-list length 0..130 x every count 0..127"); break;
	}
}

} // namespace

int main(int argc, char** argv)
{
	mc::CheckDef def;
	def.id = "C20";
	def.init = build;
	def.ncases = [](Ctx&) { return gCases.size(); };
	def.run = runCase;
	def.caseTimeoutS = 600;
	def.fsizeLimit = std::size_t(6) << 30;     // sparse inputs of up to 4 GiB + 5; a runaway copy ends at 6 GiB
	return mc::Main(argc, argv, def);
}
