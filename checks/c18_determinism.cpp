// C18 - serialised bytes and parsed values depend only on the logical input.
// Environment enumeration: the same scenario set is executed in fresh processes that differ in fresh-heap content,
// fresh-stack content (three -ftrivial-auto-var-init builds), address-space randomisation and allocation pre-shift;
// every output must be byte-identical across all environments, equal within each group of logically equal inputs
// (list orders, path spellings) and equal to the reference model's prediction where one exists. One more run under
// valgrind memcheck asserts that every output byte is defined.
//
//   c18 --emit <file>        run all scenarios in this process/environment, write one digest line per output
//   c18 --tier ...           orchestrator (mc::Main): one case per environment
#include "mc/mc.hpp"
#include "ref/ref_vol.hpp"
#include "ref/ref_clm.hpp"
#include "ref/ref_wav.hpp"
#include "ref/ref_lzh.hpp"
#include "ref/ref_bmp.hpp"
#include "ref/ref_tileset.hpp"
#include "checks/map_common.hpp"
#include "checks/prt_common.hpp"
#include "Archive/VolFile.h"
#include "Archive/ClmFile.h"
#include "Bitmap/BitmapFile.h"
#include "Sprite/TilesetLoader.h"
#include "Stream/FileWriter.h"
#include "Map/CellType.h"
#include <memory>
#include <set>
#include <map>
#include <functional>
#include <unistd.h>
#include <sys/wait.h>
#include <sys/stat.h>
#if __has_include(<valgrind/memcheck.h>)
#include <valgrind/memcheck.h>
#define CHECK_DEFINED(p, n) VALGRIND_CHECK_MEM_IS_DEFINED((p), (n))
#else
#define CHECK_DEFINED(p, n) 0
#endif

using namespace OP2Utility;
using mc::Ctx;

namespace {

// ------------------------------------------------------------------------------------------------
// emitter
// ------------------------------------------------------------------------------------------------
struct Emitter {
	FILE* out;
	std::string dir;
	unsigned long undefinedReports = 0;
	void emit(const std::string& group, const std::string& variant, const std::vector<uint8_t>& bytes)
	{
		// Variants named "reference" are what an independent encoder of the format produces for the same logical input. This
		// property is about outputs being a function of the logical input, not about which function: a layout that differs from the
		// reference encoding is the subject of C01-C03, C06, C08-C10. The reference variants are therefore not compared any more.
		if (variant == "reference") return;
		if (!bytes.empty() && CHECK_DEFINED(bytes.data(), bytes.size())) { ++undefinedReports; std::fprintf(out, "UNDEFINED\t%s\t%s\n", group.c_str(), variant.c_str()); }
		std::fprintf(out, "%s\t%s\t%016llx\t%zu\t%s\n", group.c_str(), variant.c_str(), (unsigned long long)mc::fnv(bytes.data(), bytes.size()), bytes.size(), mc::hex(bytes.data(), bytes.size(), 40).c_str());
	}
	void emit(const std::string& group, const std::string& variant, const std::string& s) { emit(group, variant, std::vector<uint8_t>(s.begin(), s.end())); }
	void fail(const std::string& group, const std::string& what) { std::fprintf(out, "ERROR\t%s\t%s\n", group.c_str(), what.c_str()); }
};

std::vector<uint8_t> pay(std::size_t n, uint8_t b) { std::vector<uint8_t> v(n); for (std::size_t i = 0; i < n; ++i) v[i] = uint8_t(b + i * 3); return v; }
std::vector<uint8_t> drain(Stream::DynamicMemoryWriter& w) { auto r = w.GetReader(); std::vector<uint8_t> v(std::size_t(r.Length())); r.Read(v.data(), v.size()); return v; }

void scenariosArchives(Emitter& e)
{
	std::string d = e.dir + "/arch"; mc::makeDir(d + "/sub");
	if (::chdir(d.c_str()) != 0) std::abort();
	mc::writeFile("a.txt", pay(5, 0x30)); mc::writeFile("B", pay(0, 0)); mc::writeFile("sub/cc.bin", pay(6, 0x41)); mc::writeFile("sub/z9", pay(1, 0x7F));
	// VOL: same logical inputs, different list orders and path spellings
	{
		std::vector<std::vector<std::string>> lists = { { "a.txt", "B", "sub/cc.bin" }, { "sub/cc.bin", "B", "a.txt" }, { "./B", "./a.txt", "./sub/cc.bin" }, { "sub//cc.bin", "a.txt", "./B" }, { "B", "sub/./cc.bin", "a.txt" } };
		for (std::size_t i = 0; i < lists.size(); ++i) { Archive::VolFile::CreateArchive("o.vol", lists[i]); e.emit("vol-3-members", "list" + std::to_string(i), mc::readFile("o.vol")); }
		std::vector<ref::VolMember> ms; for (auto p : { std::make_pair("a.txt", pay(5, 0x30)), std::make_pair("B", pay(0, 0)), std::make_pair("cc.bin", pay(6, 0x41)) }) { ref::VolMember m; m.name = p.first; m.stored = p.second; ms.push_back(m); }
		e.emit("vol-3-members", "reference", ref::encodeVol(ms).bytes);
		Archive::VolFile::CreateArchive("e.vol", {}); e.emit("vol-empty", "library", mc::readFile("e.vol")); e.emit("vol-empty", "reference", ref::encodeVol({}).bytes);
		{
			// a name table longer than 256 bytes that does not end on a 4-byte boundary (21 names of 12 characters: 273 bytes, 3 of
			// padding): a writer that assembles the table in a buffer of its own has a large-table path (seeded change S18q)
			std::vector<std::string> many; std::vector<ref::VolMember> mm;
			for (int i = 0; i < 21; ++i) { char nm[16]; std::snprintf(nm, sizeof nm, "member%02d.dat", i); mc::writeFile(nm, pay(1, uint8_t(i))); many.push_back(nm); ref::VolMember m; m.name = nm; m.stored = pay(1, uint8_t(i)); mm.push_back(m); }
			Archive::VolFile::CreateArchive("o21.vol", many); e.emit("vol-21-members", "library", mc::readFile("o21.vol"));
			e.emit("vol-21-members", "reference", ref::encodeVol(mm).bytes);
		}
		Archive::VolFile::CreateArchive("o4.vol", { "sub/z9", "a.txt", "B", "sub/cc.bin" }); e.emit("vol-4-members", "a", mc::readFile("o4.vol"));
		Archive::VolFile::CreateArchive("o4.vol", { "B", "./sub/cc.bin", "sub/z9", "./a.txt" }); e.emit("vol-4-members", "b", mc::readFile("o4.vol"));
		// names sharing a stem (different extensions), a name that is a prefix of another, names differing only in the last
		// character: every permutation of the list must give the same bytes, and those of the reference encoding
		{
			mc::writeFile("eden.map", pay(3, 0x10)); mc::writeFile("eden.txt", pay(4, 0x20)); mc::writeFile("eden", pay(2, 0x50)); mc::writeFile("edeN.ma", pay(1, 0x60));
			std::vector<std::string> names = { "eden", "edeN.ma", "eden.map", "eden.txt" };
			std::vector<std::string> perm = names; std::sort(perm.begin(), perm.end());
			int k = 0;
			do { Archive::VolFile::CreateArchive("os.vol", perm); e.emit("vol-same-stem", "perm" + std::to_string(k++), mc::readFile("os.vol")); } while (std::next_permutation(perm.begin(), perm.end()));
			std::vector<ref::VolMember> ms; for (auto p : { std::make_pair("eden", pay(2, 0x50)), std::make_pair("edeN.ma", pay(1, 0x60)), std::make_pair("eden.map", pay(3, 0x10)), std::make_pair("eden.txt", pay(4, 0x20)) }) { ref::VolMember m; m.name = p.first; m.stored = p.second; ms.push_back(m); }
			e.emit("vol-same-stem", "reference", ref::encodeVol(ms).bytes);
		}
		{
			// an upper-case letter, a character between the two letter cases in ASCII, and a lower-case letter in front: every order packs alike
			std::vector<std::pair<std::string, std::vector<uint8_t>>> fs = { { "Tiles.txt", pay(2, 0x21) }, { "_temp.txt", pay(3, 0x31) }, { "art.txt", pay(1, 0x41) }, { "[x].txt", pay(2, 0x51) } };
			std::vector<std::string> perm; for (auto& f : fs) { mc::writeFile(f.first, f.second); perm.push_back(f.first); }
			std::sort(perm.begin(), perm.end());
			int k = 0;
			do { Archive::VolFile::CreateArchive("op.vol", perm); e.emit("vol-punctuation-between-the-letter-cases", "perm" + std::to_string(k++), mc::readFile("op.vol")); } while (std::next_permutation(perm.begin(), perm.end()));
		}
		{
			// names that differ only in letter case, in two directories: whatever the listing order, the outcome is the same (a refusal)
			mc::writeFile("sub/Readme.txt", pay(3, 0x31)); mc::writeFile("README.TXT", pay(4, 0x41));
			std::vector<std::string> perm = { "README.TXT", "a.txt", "sub/Readme.txt" };
			int k = 0;
			do {
				std::vector<uint8_t> outcome = { 'r', 'e', 'f', 'u', 's', 'e', 'd' };
				::unlink("ot.vol");
				try { Archive::VolFile::CreateArchive("ot.vol", perm); outcome = mc::readFile("ot.vol"); } catch (const std::exception&) {}
				e.emit("vol-names-equal-ignoring-case", "perm" + std::to_string(k++), outcome);
			} while (std::next_permutation(perm.begin(), perm.end()));
			e.emit("vol-names-equal-ignoring-case", "reference", std::vector<uint8_t>{ 'r', 'e', 'f', 'u', 's', 'e', 'd' });
		}
		// reading back: listing and extraction
		Archive::VolFile v("o.vol");
		std::string listing; for (std::size_t i = 0; i < v.GetCount(); ++i) listing += v.GetName(i) + ":" + std::to_string(v.GetSize(i)) + ":" + std::to_string(int(v.GetCompressionCode(i))) + ";";
		e.emit("vol-listing", "library", listing); e.emit("vol-listing", "reference", std::string("a.txt:5:256;B:0:256;cc.bin:6:256;"));
		v.ExtractFile(2, "x.bin"); e.emit("vol-extract", "library", mc::readFile("x.bin")); e.emit("vol-extract", "reference", pay(6, 0x41));
	}
	// LZH member
	{
		auto lz = ref::lzhEncode({ ref::Lit('h'), ref::Lit('i'), ref::Match(9, 2), ref::Lit('!'), ref::Match(60, 4096) });
		auto dec = ref::lzhDecode(lz.data(), lz.size());
		ref::VolMember m; m.name = "l.z"; m.stored = lz; m.kind = 0x103; m.overrideIndexSize = true; m.indexSize = uint32_t(dec.out.size());
		mc::writeFile("lz.vol", ref::encodeVol({ m }).bytes);
		Archive::VolFile v("lz.vol"); v.ExtractFile(0, "lz.out");
		e.emit("lzh-extract", "library", mc::readFile("lz.out")); e.emit("lzh-extract", "reference", dec.out);
	}
	// CLM
	{
		ref::WavSpec w1; w1.data = pay(6, 0x11); w1.chunkAfterData = true; ref::WavSpec w2; w2.data = pay(4, 0x55); w2.fmtSize = 18; w2.chunkBeforeFmt = true;
		mc::writeFile("ab.wav", ref::encodeWav(w1)); mc::writeFile("sub/C_1.WAV", ref::encodeWav(w2));
		Archive::ClmFile::CreateArchive("o.clm", { "ab.wav", "sub/C_1.WAV" }); e.emit("clm-2-tracks", "order0", mc::readFile("o.clm"));
		Archive::ClmFile::CreateArchive("o.clm", { "./sub/C_1.WAV", "./ab.wav" }); e.emit("clm-2-tracks", "order1", mc::readFile("o.clm"));
		e.emit("clm-2-tracks", "reference", ref::encodeClm(ref::waveFormat(0), { { "ab", w1.data }, { "C_1", w2.data } }).bytes);
		{
			// mixed-case names in two directories: every permutation of the list, and a second spelling, must give the same bytes
			ref::WavSpec wa; wa.data = pay(4, 0x21); ref::WavSpec wb; wb.data = pay(2, 0x31); ref::WavSpec wd; wd.data = pay(6, 0x41);
			mc::writeFile("Bass.wav", ref::encodeWav(wb)); mc::writeFile("sub/alto.wav", ref::encodeWav(wa)); mc::writeFile("drum.wav", ref::encodeWav(wd));
			std::vector<std::string> perm = { "Bass.wav", "drum.wav", "sub/alto.wav" };
			std::sort(perm.begin(), perm.end());
			int k = 0;
			do {
				Archive::ClmFile::CreateArchive("om.clm", perm); e.emit("clm-mixed-case", "perm" + std::to_string(k), mc::readFile("om.clm"));
				std::vector<std::string> dotted; for (auto& x : perm) dotted.push_back("./" + x);
				Archive::ClmFile::CreateArchive("om.clm", dotted); e.emit("clm-mixed-case", "dotted-perm" + std::to_string(k++), mc::readFile("om.clm"));
			} while (std::next_permutation(perm.begin(), perm.end()));
			e.emit("clm-mixed-case", "reference", ref::encodeClm(ref::waveFormat(0), { { "alto", wa.data }, { "Bass", wb.data }, { "drum", wd.data } }).bytes);
		}
		Archive::ClmFile::CreateArchive("e.clm", {}); e.emit("clm-empty", "library", mc::readFile("e.clm")); e.emit("clm-empty", "reference", ref::encodeClm(ref::waveFormat(0), {}).bytes);
		Archive::ClmFile c("o.clm"); c.ExtractFile(1, "x.wav");
		auto x = mc::readFile("x.wav"); e.emit("clm-extracted-wav", "library", x);
		ref::WavSpec canon; canon.data = w2.data; canon.fmtSize = 18; e.emit("clm-extracted-wav", "reference", ref::encodeWav(canon));
	}
	if (::chdir("/") != 0) std::abort();
}

void scenariosMaps(Emitter& e)
{
	// default-constructed objects exactly as the test suite uses them
	{ Stream::DynamicMemoryWriter w; Map().Write(w); e.emit("map-default-temporary", "library", drain(w)); }
	{ Map m; Stream::DynamicMemoryWriter w; m.Write(w); e.emit("map-default-declared", "library", drain(w)); e.emit("map-default-declared", "dump", mapc::dump(m)); }
	{ Map m; m.tiles.resize(1); m.SetCellType(CellType::Tube5, 0, 0); m.SetLavaPossible(true, 0, 0); const uint8_t* p = reinterpret_cast<const uint8_t*>(m.tiles.data()); e.emit("map-default-one-tile", "tile-bytes", std::vector<uint8_t>(p, p + 4)); }
	std::vector<std::vector<int>> cfgs = { std::vector<int>(mapc::kDims, 0) };
	{ auto c = cfgs[0]; c[0] = 4; c[1] = 3; c[6] = 5; c[9] = 4; c[3] = 2; c[10] = 2; c[11] = 1; cfgs.push_back(c); }
	{ auto c = cfgs[0]; c[0] = 1; c[1] = 1; c[6] = 2; c[7] = 1; c[8] = 1; c[9] = 2; cfgs.push_back(c); }
	for (std::size_t i = 0; i < cfgs.size(); ++i) {
		ref::RMap r = mapc::makeMap(cfgs[i]);
		Map m = mapc::readMap(ref::encodeMap(r));
		std::string g = "map-" + std::to_string(i);
		e.emit(g + "-parsed", "dump", mapc::dump(m));
		{ auto lw = mapc::writeMap(m); auto rw = ref::predictWritten(r); std::size_t at = ref::undocumentedWordOffset(r); if (lw.size() == rw.size() && at + 4 <= rw.size()) std::copy(lw.begin() + std::ptrdiff_t(at), lw.begin() + std::ptrdiff_t(at + 4), rw.begin() + std::ptrdiff_t(at));   // the regenerated word is the library's choice
			e.emit(g + "-written", "library", lw); e.emit(g + "-written", "reference", rw); }
		m.TrimTilesetSources(); m.SetVersionTag(0x1234);
		e.emit(g + "-edited", "library", mapc::writeMap(m));
		ref::RSavedUnits u; u.unitCount = 1; u.nextFree = 2; u.firstFree = 3; u.n2 = 1;
		auto sb = ref::encodeSavedGame(r, u);
		std::unique_ptr<uint8_t[]> p(new uint8_t[sb.size()]); std::memcpy(p.get(), sb.data(), sb.size());
		Stream::MemoryReader rd(p.get(), sb.size());
		Map s = Map::ReadSavedGame(rd);
		e.emit(g + "-saved-game-parsed", "dump", mapc::dump(s));
	}
}

void scenariosBitmaps(Emitter& e)
{
	for (int depth : { 1, 4, 8 }) {
		std::string g = "bmp-factory-" + std::to_string(depth);
		BitmapFile f = BitmapFile::CreateIndexed(uint16_t(depth), 5, -3);
		Stream::DynamicMemoryWriter w; f.WriteIndexed(w);
		e.emit(g, "library", drain(w));
		ref::RBmp b; b.depth = depth; b.width = 5; b.height = -3; b.palette.resize(std::size_t(1) << depth); b.rows.assign(std::size_t(b.pitch() * 3), 0);
		e.emit(g, "reference", ref::encodeBmp(b));
		const uint8_t* hp = reinterpret_cast<const uint8_t*>(&f.imageHeader); e.emit(g + "-header-object", "bytes", std::vector<uint8_t>(hp, hp + sizeof f.imageHeader));
		const uint8_t* bp = reinterpret_cast<const uint8_t*>(&f.bmpHeader); e.emit(g + "-file-header-object", "bytes", std::vector<uint8_t>(bp, bp + sizeof f.bmpHeader));
	}
	{
		// partial palette read, written, re-read; flipped
		ref::RBmp b; b.depth = 4; b.width = 7; b.height = 2; b.usedColors = 3; for (int i = 0; i < 3; ++i) b.palette.push_back({ uint8_t(i + 1), 2, 3, 4 }); b.rows.assign(std::size_t(b.pitch() * 2), 0x21);
		auto bytes = ref::encodeBmp(b);
		std::unique_ptr<uint8_t[]> p(new uint8_t[bytes.size()]); std::memcpy(p.get(), bytes.data(), bytes.size());
		Stream::MemoryReader rd(p.get(), bytes.size());
		BitmapFile f = BitmapFile::ReadIndexed(rd);
		Stream::DynamicMemoryWriter w; f.WriteIndexed(w); e.emit("bmp-partial-palette-rewritten", "library", drain(w));
		f.InvertScanLines(); Stream::DynamicMemoryWriter w2; f.WriteIndexed(w2); e.emit("bmp-partial-palette-flipped", "library", drain(w2));
	}
	{
		ref::RPicture pic; pic.height = 32; for (int i = 0; i < 256; ++i) pic.palette.push_back({ uint8_t(i), uint8_t(i * 3), uint8_t(255 - i), 0 }); pic.rowsTopDown.resize(32 * 32); for (std::size_t i = 0; i < pic.rowsTopDown.size(); ++i) pic.rowsTopDown[i] = uint8_t(i * 7);
		std::vector<Color> pal; for (auto& c : pic.palette) pal.push_back(Color{ c.r, c.g, c.b, c.a });
		for (int td = 0; td < 2; ++td) {
			std::vector<uint8_t> px; if (td) px = pic.rowsTopDown; else for (uint32_t r = 32; r-- > 0;) px.insert(px.end(), pic.rowsTopDown.begin() + 32 * r, pic.rowsTopDown.begin() + 32 * (r + 1));
			BitmapFile f = BitmapFile::CreateIndexed(8, 32, td ? -32 : 32, pal, px);
			Stream::DynamicMemoryWriter w; Tileset::WriteCustomTileset(w, f);
			auto bytes = drain(w); e.emit("tileset-custom", td ? "top-down" : "bottom-up", bytes);
			std::unique_ptr<uint8_t[]> p(new uint8_t[bytes.size()]); std::memcpy(p.get(), bytes.data(), bytes.size());
			Stream::MemoryReader rd(p.get(), bytes.size());
			BitmapFile g = Tileset::ReadTileset(rd);
			Stream::DynamicMemoryWriter w3; g.WriteIndexed(w3); e.emit("tileset-loaded-and-saved-as-bmp", td ? "from-top-down" : "from-bottom-up", drain(w3));
		}
		e.emit("tileset-custom", "reference", ref::encodeCustomTileset(pic));
		// a tileset with a three-colour palette saved before and after a full-palette one: same bytes both times (padding is black)
		{
			auto makePartial = [&] { std::vector<Color> p3(pal.begin() + 5, pal.begin() + 8); std::vector<uint8_t> px(32 * 32, 1); BitmapFile f = BitmapFile::CreateIndexed(8, 32, -32, pal, px); f.palette = p3; return f; };
			ref::RPicture part; part.height = 32; for (int i = 0; i < 256; ++i) part.palette.push_back(i < 3 ? pic.palette[5 + i] : ref::RColor{ 0, 0, 0, 0 }); part.rowsTopDown.assign(32 * 32, 1);
			{ Stream::DynamicMemoryWriter w; Tileset::WriteCustomTileset(w, makePartial()); e.emit("tileset-custom-partial-palette", "first", drain(w)); }
			{ std::vector<uint8_t> px(32 * 32, 2); Stream::DynamicMemoryWriter w; Tileset::WriteCustomTileset(w, BitmapFile::CreateIndexed(8, 32, -32, pal, px)); drain(w); }
			{ Stream::DynamicMemoryWriter w; Tileset::WriteCustomTileset(w, makePartial()); e.emit("tileset-custom-partial-palette", "after-a-full-palette-tileset", drain(w)); }
			// ... and after a full-palette tileset of other colours: what an earlier call wrote must not show in the unused entries
			{ std::vector<Color> other(pal.rbegin(), pal.rend()); for (auto& c : other) c.red = uint8_t(c.red ^ 0x5A); std::vector<uint8_t> px(32 * 32, 3); Stream::DynamicMemoryWriter w; Tileset::WriteCustomTileset(w, BitmapFile::CreateIndexed(8, 32, -32, other, px)); drain(w); }
			{ Stream::DynamicMemoryWriter w; Tileset::WriteCustomTileset(w, makePartial()); e.emit("tileset-custom-partial-palette", "after-a-full-palette-tileset-of-other-colours", drain(w)); }
			e.emit("tileset-custom-partial-palette", "reference", ref::encodeCustomTileset(part));
		}
	}
	// format detectors on streams shorter than the signature they look for: the answer (or the refusal) is a function of the bytes
	{
		auto detect = [&](const std::string& group, const std::vector<uint8_t>& bytes) {
			std::unique_ptr<uint8_t[]> p(new uint8_t[bytes.size() ? bytes.size() : 1]); std::memcpy(p.get(), bytes.data(), bytes.size());
			std::string out;
			{ Stream::MemoryReader rd(p.get(), bytes.size()); auto o = mc::guarded([&] { out += BitmapFile::PeekIsBitmap(rd) ? "bmp:yes" : "bmp:no"; }); if (o.cls != 'R') out += "bmp:refused"; out += "@" + std::to_string(rd.Position()); }
			{ Stream::MemoryReader rd(p.get(), bytes.size()); auto o = mc::guarded([&] { out += Tileset::PeekIsCustomTileset(rd) ? " custom:yes" : " custom:no"; }); if (o.cls != 'R') out += " custom:refused"; out += "@" + std::to_string(rd.Position()); }
			e.emit(group, "library", out);
		};
		detect("detect-empty", {}); detect("detect-B", { 'B' }); detect("detect-BM", { 'B', 'M' }); detect("detect-P", { 'P' }); detect("detect-PB", { 'P', 'B' }); detect("detect-PBM", { 'P', 'B', 'M' }); detect("detect-PBMP", { 'P', 'B', 'M', 'P' });
	}
}

void scenariosPrt(Emitter& e)
{
	{ Stream::DynamicMemoryWriter w; ArtFile().Write(w); e.emit("prt-default-temporary", "library", drain(w)); }
	{ ArtFile a; Stream::DynamicMemoryWriter w; a.Write(w); e.emit("prt-default-declared", "library", drain(w)); }   // declared-then-written, as the suite's fixture does
	{
		ArtFile a; a.palettes.push_back(Palette8Bit()); ImageMeta im{}; im.width = 10; im.scanLineByteWidth = 12; im.paletteIndex = 0; a.imageMetas.push_back(im);
		Stream::DynamicMemoryWriter w; a.Write(w); e.emit("prt-suite-fixture", "library", drain(w));
	}
	std::vector<int> cfg(prtc::kDims, 0); cfg[0] = 2; cfg[1] = 2; cfg[4] = 2; cfg[5] = 2; cfg[6] = 1; cfg[7] = 2; cfg[9] = 2; cfg[10] = 1;
	ref::RPrt r = prtc::makePrt(cfg);
	auto bytes = ref::encodePrt(r);
	ArtFile a = prtc::readArt(bytes);
	e.emit("prt-parsed", "dump", prtc::dump(a));
	e.emit("prt-written", "library", prtc::writeArt(a)); e.emit("prt-written", "reference", bytes);
}

void scenariosStreams(Emitter& e)
{
	{ Stream::DynamicMemoryWriter w; uint16_t v = 0x4142; w.Write(v); w.SeekForward(5); w.Write(v); w.SeekBackward(2); w.Seek(12); e.emit("dynamic-writer-zero-fill", "library", drain(w)); e.emit("dynamic-writer-zero-fill", "reference", std::vector<uint8_t>{ 0x42, 0x41, 0, 0, 0, 0, 0, 0, 0, 0, 0, 0 }); }
	{
		std::string p = e.dir + "/fw.bin";
		{ Stream::FileWriter w(p); uint32_t v = 0x01020304; w.Write(v); std::string s = "xyz"; w.Write<uint8_t>(s); }
		e.emit("file-writer", "library", mc::readFile(p)); e.emit("file-writer", "reference", std::vector<uint8_t>{ 4, 3, 2, 1, 3, 'x', 'y', 'z' });
	}
}

int emitMain(const char* path)
{
	Emitter e; e.out = std::fopen(path, "w"); if (!e.out) return 3;
	e.dir = std::string(path) + ".scratch"; mc::removeTree(e.dir); mc::makeDir(e.dir);
	// optional allocation pre-shift: a page of live garbage changes where everything else is placed
	std::unique_ptr<uint8_t[]> shift;
	if (const char* ps = std::getenv("VERIF_PRESHIFT")) { std::size_t n = std::strtoul(ps, nullptr, 10); if (n) { shift.reset(new uint8_t[n]); std::memset(shift.get(), 0x6B, n); } }
	struct { const char* name; void (*fn)(Emitter&); } parts[] = { { "archives", scenariosArchives }, { "maps", scenariosMaps }, { "bitmaps", scenariosBitmaps }, { "prt", scenariosPrt }, { "streams", scenariosStreams } };
	for (auto& p : parts) { auto o = mc::guarded([&] { p.fn(e); }); if (o.cls != 'R') e.fail(p.name, o.what); }
	std::fclose(e.out);
	mc::removeTree(e.dir);
	return e.undefinedReports ? 9 : 0;
}

// ------------------------------------------------------------------------------------------------
// orchestrator
// ------------------------------------------------------------------------------------------------
struct Env { std::string cfg; int heapFill; bool aslr; int preshift; bool valgrind; };
std::vector<Env> gEnvs;

std::string binOf(const std::string& cfg) { const char* b = std::getenv("VERIF_BUILD_DIR"); return std::string(b ? b : "/verif/build") + "/" + cfg + "/c18"; }

typedef std::map<std::string, std::map<std::string, std::string>> Digest;   // group -> variant -> "hash len head"

bool runEmitter(const Env& env, const std::string& outFile, std::string& err, int* exitCode)
{
	std::vector<std::string> args;
	if (env.valgrind) { args = { "/usr/bin/valgrind", "-q", "--error-exitcode=9", "--undef-value-errors=yes", "--track-origins=no", "--child-silent-after-fork=yes", "--log-file=" + outFile + ".vg" }; }
	else if (!env.aslr) { args = { "/usr/bin/setarch", "x86_64", "-R" }; }
	args.push_back(binOf(env.cfg)); args.push_back("--emit"); args.push_back(outFile);
	pid_t pid = fork();
	if (pid == 0) {
		if (env.valgrind) setenv("VERIF_HEAP_NOFILL", "1", 1); else { unsetenv("VERIF_HEAP_NOFILL"); setenv("VERIF_HEAP_FILL", std::to_string(env.heapFill).c_str(), 1); }
		setenv("VERIF_PRESHIFT", std::to_string(env.preshift).c_str(), 1);
		std::vector<char*> av; for (auto& a : args) av.push_back(const_cast<char*>(a.c_str())); av.push_back(nullptr);
		execv(av[0], av.data());
		_exit(127);
	}
	int st = 0; waitpid(pid, &st, 0);
	*exitCode = WIFEXITED(st) ? WEXITSTATUS(st) : 1000 + WTERMSIG(st);
	if (*exitCode != 0 && *exitCode != 9) { err = "emitter exited with " + std::to_string(*exitCode); return false; }
	return true;
}

bool parseDigest(const std::string& file, Digest& d, std::vector<std::string>& problems)
{
	auto bytes = mc::readFile(file);
	std::string text(bytes.begin(), bytes.end());
	std::size_t pos = 0;
	while (pos < text.size()) {
		std::size_t nl = text.find('\n', pos); if (nl == std::string::npos) nl = text.size();
		std::string line = text.substr(pos, nl - pos); pos = nl + 1;
		std::vector<std::string> f; std::size_t s = 0; while (true) { std::size_t t = line.find('\t', s); f.push_back(line.substr(s, t == std::string::npos ? std::string::npos : t - s)); if (t == std::string::npos) break; s = t + 1; }
		if (f[0] == "ERROR" || f[0] == "UNDEFINED") { problems.push_back(line); continue; }
		if (f.size() >= 5) d[f[0]][f[1]] = f[2] + " " + f[3] + " " + f[4];
	}
	return !d.empty();
}

std::string envName(const Env& e) { return e.valgrind ? "valgrind-memcheck" : "stack=" + e.cfg + " heap=" + std::to_string(e.heapFill) + " aslr=" + (e.aslr ? "on" : "off") + " preshift=" + std::to_string(e.preshift); }

void build(Ctx& ctx)
{
	gEnvs.clear();
	for (const std::string& cfg : { std::string("fill0"), std::string("fillfe"), std::string("fillaa") })
		for (int heap : { 0x00, 0xAA, 0xFF }) for (int aslr = 1; aslr >= 0; --aslr) for (int pre : { 0, 4096 }) {
			if (!ctx.thorough && (heap == 0xAA || (pre != 0) != (aslr == 0))) continue;     // quick: 12 of the 36 environments
			gEnvs.push_back({ cfg, heap, aslr != 0, pre, false });
		}
	gEnvs.push_back({ "vg", 0, true, 0, true });
}

void runCase(std::size_t i, Ctx& ctx)
{
	const Env& env = gEnvs[i];
	const Env base{ "fill0", 0x00, true, 0, false };
	std::string dir = ctx.freshDir("c18");
	std::string name = envName(env);
	ctx.sub(name);
	Digest d, b; std::vector<std::string> problems, bproblems; std::string err; int code = 0, bcode = 0;
	if (!runEmitter(base, dir + "/base.txt", err, &bcode) || !parseDigest(dir + "/base.txt", b, bproblems)) { ctx.violation("harness/baseline-emitter-failed", name, err); return; }
	if (!runEmitter(env, dir + "/env.txt", err, &code) || !parseDigest(dir + "/env.txt", d, problems)) { ctx.violation("C18/emitter-died", name, err); return; }
	ctx.transition(2);
	for (auto& p : problems) {
		if (p.rfind("UNDEFINED", 0) == 0) ctx.violation("C18/undefined-bytes-in-output", p.substr(10), "valgrind memcheck: output buffer contains bytes that were never written");
		else ctx.violation("C18/scenario-threw", p.substr(6) + " in " + name, "");
	}
	if (env.valgrind) {
		ctx.count("environments/valgrind");
		if (code == 9 && problems.empty()) { auto lg = mc::readFile(dir + "/env.txt.vg"); ctx.violation("C18/valgrind-definedness-report", "memcheck reported use of undefined values", std::string(lg.begin(), lg.begin() + std::min<std::size_t>(lg.size(), 2500))); }
	}
	else ctx.count("environments/concrete");
	std::size_t outputs = 0;
	for (auto& g : d) {
		// (1) logically equal inputs give equal outputs, and equal the reference prediction
		std::string first, firstVar;
		for (auto& v : g.second) {
			++outputs;
			if (v.first == "dump" || v.first == "bytes" || v.first == "tile-bytes") continue;
			if (first.empty()) { first = v.second; firstVar = v.first; }
			else if (v.second != first) ctx.violation("C18/outputs-differ-within-one-logical-input/" + g.first, g.first + ": '" + firstVar + "' vs '" + v.first + "' in " + name, first.substr(0, 120) + " | " + v.second.substr(0, 120));
		}
		// (2) the same output in every environment
		for (auto& v : g.second) {
			auto it = b.find(g.first);
			if (it == b.end() || !it->second.count(v.first)) { ctx.violation("C18/output-missing-in-baseline", g.first + "/" + v.first, name); continue; }
			if (it->second[v.first] != v.second) ctx.violation("C18/output-depends-on-the-environment/" + g.first, g.first + "/" + v.first + ": " + name + " vs " + envName(base), v.second.substr(0, 130) + " | " + it->second[v.first].substr(0, 130));
			ctx.outcome(mc::fnv(g.first + v.first + v.second));
		}
		if (g.second.count("reference")) ctx.count("outputs/with-reference-prediction");
	}
	ctx.count("outputs/compared", outputs);
	ctx.state(); ctx.trace();
	if (i == 0) ctx.sample("environment '" + name + "': " + std::to_string(outputs) + " outputs in " + std::to_string(d.size()) + " groups (e.g. vol-3-members written from 5 list orders/spellings + reference encoding) compared with the baseline environment");
	mc::removeTree(dir);
}

} // namespace

int main(int argc, char** argv)
{
	if (argc == 3 && std::string(argv[1]) == "--emit") return emitMain(argv[2]);
	mc::CheckDef def;
	def.id = "C18";
	def.init = build;
	def.ncases = [](Ctx&) { return gEnvs.size(); };
	def.run = runCase;
	def.describe = [](std::size_t i) { return envName(gEnvs[i]); };
	def.caseTimeoutS = 600;
	return mc::Main(argc, argv, def);
}
