// C16 - map coordinates address distinct tiles; tile accessors are faithful.
// Exhaustive over all widths 2^5..2^10 x all heights 1..256 x all coordinates; all cell types, lava states, mapping indices.
#include "mc/mc.hpp"
#include "checks/map_common.hpp"
#include "Map/CellType.h"
#include <memory>
#include <set>
#include <functional>

using namespace OP2Utility;
using mc::Ctx;

namespace {

bool gFromSavedGame = false;   // read the same map portion through the saved-game reader instead of the map reader

Map makeMap(uint32_t lg, uint32_t h, int fill)
{
	ref::RMap r; r.lgWidth = lg; r.height = h; r.fillTiles(fill);
	for (int i = 0; i < 2048; ++i) r.mappings.push_back({ uint16_t(i * 7 + 1), uint16_t(0xFFFF - i * 3), uint16_t(i), uint16_t(i ^ 0x555) });
	if (gFromSavedGame) {
		auto b = ref::encodeSavedGame(r, ref::RSavedUnits());
		std::unique_ptr<uint8_t[]> p(new uint8_t[b.size()]); std::memcpy(p.get(), b.data(), b.size());
		Stream::MemoryReader rd(p.get(), b.size());
		return Map::ReadSavedGame(rd);
	}
	return mapc::readMap(ref::encodeMap(r));
}

// the private index function, if it still exists under that name (clause 1); clause 2 observes the same addressing through the getters
template <class M, class = void> struct HasGetTileIndex : std::false_type {};
template <class M> struct HasGetTileIndex<M, std::void_t<decltype(std::declval<const M&>().GetTileIndex(std::size_t(0), std::size_t(0)))>> : std::true_type {};
template <class M> bool privateIndex(const M& m, std::size_t x, std::size_t y, std::size_t& out)
{
	if constexpr (HasGetTileIndex<M>::value) { out = m.GetTileIndex(x, y); return true; }
	else return false;
}

uint32_t word(const Map& m, std::size_t i) { uint32_t w; std::memcpy(&w, &m.tiles[i], 4); return w; }
void setWord(Map& m, std::size_t i, uint32_t w) { std::memcpy(&m.tiles[i], &w, 4); }

// (1),(2),(5): addressing and getters on every coordinate
void addressing(Ctx& ctx, uint32_t lg, uint32_t hFrom, uint32_t hTo)
{
	for (uint32_t h = hFrom; h <= hTo; ++h) {
		std::string key = "map " + std::to_string(1u << lg) + "x" + std::to_string(h);
		ctx.sub(key);
		Map m = makeMap(lg, h, 0);
		uint64_t W = uint64_t(1) << lg, N = W * h;
		if (m.WidthInTiles() != W || m.HeightInTiles() != h || m.TileCount() != N) { ctx.violation("C16/reported-dimensions", key, std::to_string(m.WidthInTiles()) + "x" + std::to_string(m.HeightInTiles()) + " count " + std::to_string(m.TileCount())); return; }
		std::vector<uint8_t> hit(std::size_t(N), 0);
		for (uint64_t y = 0; y < h; ++y) for (uint64_t x = 0; x < W; ++x) {
			uint64_t expect = ref::tileIndex(x, y, h);
			std::size_t got = std::size_t(expect);
			bool havePrivate = privateIndex(m, std::size_t(x), std::size_t(y), got);      // private index function (backed by the getter clauses below)
			if (!havePrivate && x == 0 && y == 0) ctx.count("binding/fallback-keys");
			if (got != expect) { ctx.violation("C16/tile-index-formula", key + " (" + std::to_string(x) + "," + std::to_string(y) + ")", "index " + std::to_string(got) + " expected " + std::to_string(expect)); return; }
			if (got >= N || hit[got]++) { ctx.violation("C16/coordinates-not-a-bijection", key + " (" + std::to_string(x) + "," + std::to_string(y) + ")", "index " + std::to_string(got)); return; }
			uint32_t w = word(m, std::size_t(expect));
			int ct = static_cast<int>(m.GetCellType(std::size_t(x), std::size_t(y)));
			if (ct != int(w & 0x1F)) { ctx.violation("C16/getter/cell-type", key + " (" + std::to_string(x) + "," + std::to_string(y) + ") word " + std::to_string(w), "GetCellType returned " + std::to_string(ct) + ", the word holds " + std::to_string(w & 0x1F)); return; }
			if (m.GetLavaPossible(std::size_t(x), std::size_t(y)) != (((w >> 28) & 1) != 0)) { ctx.violation("C16/getter/lava-possible", key + " (" + std::to_string(x) + "," + std::to_string(y) + ")", ""); return; }
			std::size_t mi = m.GetTileMappingIndex(std::size_t(x), std::size_t(y));
			if (mi != ((w >> 5) & 0x7FF)) { ctx.violation("C16/getter/mapping-index", key + " (" + std::to_string(x) + "," + std::to_string(y) + ")", std::to_string(mi)); return; }
			if (m.GetTilesetIndex(std::size_t(x), std::size_t(y)) != uint16_t(mi * 7 + 1) || m.GetImageIndex(std::size_t(x), std::size_t(y)) != uint16_t(0xFFFF - mi * 3)) { ctx.violation("C16/getter/tileset-or-image-index", key + " (" + std::to_string(x) + "," + std::to_string(y) + ")", ""); return; }
		}
		for (auto c : hit) if (c != 1) { ctx.violation("C16/coordinates-not-a-bijection", key, "some tile is not addressed"); return; }
		ctx.state(); ctx.transition(N * 5);
		ctx.count("addressing/maps");
		ctx.count("addressing/coordinates", N);
	}
	ctx.trace();
	ctx.outcome(uint64_t(lg) * 1000 + hFrom);
}

// several maps of different shapes alive at once, accessed in turn coordinate by coordinate (row-major, then column-major):
// what one map's accessor computed must not leak into the next map's (cached block starts, remembered heights)
void mapsInTurn(Ctx& ctx)
{
	std::vector<std::pair<uint32_t, uint32_t>> shapes = { { 6, 4 }, { 6, 8 }, { 7, 3 }, { 5, 16 }, { 10, 2 }, { 6, 4 }, { 7, 6 } };
	std::vector<Map> maps;
	for (auto& sh : shapes) maps.push_back(makeMap(sh.first, sh.second, 0));
	uint64_t n = 0;
	auto probe = [&](std::size_t k, uint64_t x, uint64_t y) -> bool {
		uint64_t W = uint64_t(1) << shapes[k].first, H = shapes[k].second;
		if (x >= W || y >= H) return true;
		std::string key = "maps in turn: map " + std::to_string(W) + "x" + std::to_string(H) + " (" + std::to_string(x) + "," + std::to_string(y) + ")";
		uint64_t expect = ref::tileIndex(x, y, H);
		std::size_t got = std::size_t(expect);
		privateIndex(maps[k], std::size_t(x), std::size_t(y), got);
		++n;
		if (got != expect) { ctx.violation("C16/tile-index-formula", key, "index " + std::to_string(got) + " expected " + std::to_string(expect) + " (other maps were accessed in between)"); return false; }
		uint32_t w = word(maps[k], std::size_t(expect));
		if (maps[k].GetTileMappingIndex(std::size_t(x), std::size_t(y)) != ((w >> 5) & 0x7FF) || static_cast<int>(maps[k].GetCellType(std::size_t(x), std::size_t(y))) != int(w & 0x1F)) { ctx.violation("C16/getter/addresses-another-tile", key, "other maps were accessed in between"); return false; }
		return true;
	};
	for (uint64_t y = 0; y < 16; ++y) for (uint64_t x = 0; x < 1024; ++x) for (std::size_t k = 0; k < maps.size(); ++k) if (!probe(k, x, y)) return;
	for (uint64_t x = 0; x < 1024; ++x) for (uint64_t y = 0; y < 16; ++y) for (std::size_t k = maps.size(); k-- > 0;) if (!probe(k, x, y)) return;
	// setters in turn at the same coordinate: exactly the addressed word of the addressed map changes
	for (uint64_t x : { uint64_t(33), uint64_t(40), uint64_t(63), uint64_t(35) }) for (uint64_t y : { uint64_t(1), uint64_t(2) }) for (std::size_t k = 0; k < maps.size(); ++k) {
		uint64_t W = uint64_t(1) << shapes[k].first, H = shapes[k].second;
		if (x >= W || y >= H) continue;
		std::vector<uint32_t> before(maps[k].tiles.size()); std::memcpy(before.data(), maps[k].tiles.data(), before.size() * 4);
		maps[k].SetCellType(CellType::Rubble, std::size_t(x), std::size_t(y));
		std::size_t changed = 0, where = 0;
		for (std::size_t i = 0; i < before.size(); ++i) if (word(maps[k], i) != before[i]) { ++changed; where = i; }
		uint64_t expect = ref::tileIndex(x, y, H);
		bool alreadyRubble = (before[std::size_t(expect)] & 0x1F) == uint32_t(CellType::Rubble);
		if ((changed != (alreadyRubble ? 0u : 1u)) || (changed == 1 && where != expect)) { ctx.violation("C16/setter/changed-another-tile", "maps in turn: map " + std::to_string(W) + "x" + std::to_string(H) + " SetCellType at (" + std::to_string(x) + "," + std::to_string(y) + ")", "changed word " + std::to_string(where) + " expected " + std::to_string(expect)); return; }
		++n;
	}
	ctx.count("addressing/maps-in-turn", n);
	ctx.state(maps.size()); ctx.transition(n); ctx.trace();
}

// (3): every setter on every coordinate, followed by a full-array diff
void setters(Ctx& ctx, uint32_t lg, uint32_t h, bool fullDiff)
{
	std::string key = "map " + std::to_string(1u << lg) + "x" + std::to_string(h);
	for (int fill = 0; fill < 3; ++fill) {
		Map m = makeMap(lg, h, fill);
		uint64_t W = uint64_t(1) << lg, N = W * h;
		std::vector<uint32_t> shadow; shadow.resize(std::size_t(N));
		for (std::size_t i = 0; i < N; ++i) shadow[i] = word(m, i);
		auto diff = [&](std::size_t idx, const std::string& what) -> bool {
			if (fullDiff) { for (std::size_t i = 0; i < N; ++i) if (word(m, i) != shadow[i]) { ctx.violation("C16/setter/changed-more-than-the-named-field", key + " " + what, "word " + std::to_string(i) + " is " + std::to_string(word(m, i)) + " expected " + std::to_string(shadow[i]) + " (addressed word " + std::to_string(idx) + ")"); return false; } }
			else {
				for (int64_t d : { int64_t(0), int64_t(1), int64_t(-1), int64_t(32), int64_t(-32), int64_t(32) * h, -int64_t(32) * h }) { int64_t i = int64_t(idx) + d; if (i < 0 || uint64_t(i) >= N) continue; if (word(m, std::size_t(i)) != shadow[std::size_t(i)]) { ctx.violation("C16/setter/changed-more-than-the-named-field", key + " " + what, "word " + std::to_string(i)); return false; } }
			}
			return true;
		};
		for (uint64_t y = 0; y < h; ++y) for (uint64_t x = 0; x < W; ++x) {
			std::size_t idx = std::size_t(ref::tileIndex(x, y, h));
			for (uint32_t c : { 0u, 9u, 16u, 31u }) {
				std::string what = "SetCellType(" + std::to_string(c) + "," + std::to_string(x) + "," + std::to_string(y) + ")";
				ctx.sub(key + " " + what);
				auto o = mc::guarded([&] { m.SetCellType(static_cast<CellType>(c), std::size_t(x), std::size_t(y)); });
				if (o.cls != 'R') { ctx.violation("C16/setter/valid-cell-type-refused", key + " " + what, o.what); return; }
				shadow[idx] = (shadow[idx] & ~0x1Fu) | c;
				ctx.transition();
				if (!diff(idx, what)) return;
			}
			for (int b : { 1, 0, 1 }) {
				std::string what = "SetLavaPossible(" + std::to_string(b) + "," + std::to_string(x) + "," + std::to_string(y) + ")";
				m.SetLavaPossible(b != 0, std::size_t(x), std::size_t(y));
				shadow[idx] = (shadow[idx] & ~(1u << 28)) | (b ? (1u << 28) : 0);
				ctx.transition();
				if (!diff(idx, what)) return;
			}
		}
		ctx.state();
	}
	ctx.count(fullDiff ? "setters/full-array-diff-maps" : "setters/neighbour-diff-maps");
	ctx.trace();
}

// (4): all values
void values(Ctx& ctx)
{
	Map m = makeMap(6, 3, 1);
	const std::size_t x = 37, y = 2;
	std::size_t idx = std::size_t(ref::tileIndex(x, y, 3));
	for (uint32_t others : { 0u, 0xFFFFFFE0u, 0xAAAAAAA0u, 0x55555540u }) {
		for (uint32_t c = 0; c < 32; ++c) {
			setWord(m, idx, others);
			std::string key = "cell type " + std::to_string(c) + " with other bits " + std::to_string(others);
			ctx.sub(key);
			auto o = mc::guarded([&] { m.SetCellType(static_cast<CellType>(c), x, y); });
			ctx.transition();
			if (o.cls != 'R') { ctx.violation("C16/values/valid-cell-type-refused", key, o.what); continue; }
			if (word(m, idx) != ((others & ~0x1Fu) | c)) { ctx.violation("C16/values/cell-type-bits", key, "word " + std::to_string(word(m, idx))); continue; }
			int got = static_cast<int>(m.GetCellType(x, y));
			if (got != int(c)) { ctx.violation("C16/values/cell-type-set-then-get", key, "GetCellType returned " + std::to_string(got)); continue; }
			ctx.count("values/cell-types");
		}
		for (int64_t bad : { int64_t(32), int64_t(33), int64_t(255), int64_t(-1), int64_t(INT32_MIN), int64_t(INT32_MAX), int64_t(-32), int64_t(64), int64_t(9999) }) {
			setWord(m, idx, others | 7);
			std::string key = "out-of-range cell type " + std::to_string(bad) + " with other bits " + std::to_string(others);
			auto o = mc::guarded([&] { m.SetCellType(static_cast<CellType>(int(bad)), x, y); });
			ctx.transition();
			ctx.count("values/out-of-range-cell-types");
			if (o.cls == 'R') { ctx.violation("C16/values/out-of-range-cell-type-accepted", key, "word now " + std::to_string(word(m, idx))); continue; }
			if (word(m, idx) != (others | 7)) ctx.violation("C16/values/refused-cell-type-changed-the-tile", key, "");
		}
		for (int b = 0; b < 2; ++b) {
			setWord(m, idx, others);
			m.SetLavaPossible(b != 0, x, y);
			uint32_t expect = (others & ~(1u << 28)) | (b ? (1u << 28) : 0);
			if (word(m, idx) != expect || m.GetLavaPossible(x, y) != (b != 0)) ctx.violation("C16/values/lava-possible", "state " + std::to_string(b) + " other bits " + std::to_string(others), "word " + std::to_string(word(m, idx)));
			ctx.count("values/lava-states"); ctx.transition();
		}
	}
	for (uint32_t others : { 0u, 0xFFFF001Fu }) for (uint32_t mi = 0; mi < 2048; ++mi) {
		setWord(m, idx, others | (mi << 5));
		if (m.GetTileMappingIndex(x, y) != mi || m.GetTilesetIndex(x, y) != uint16_t(mi * 7 + 1) || m.GetImageIndex(x, y) != uint16_t(0xFFFF - mi * 3))
			ctx.violation("C16/values/mapping-index", "mapping index " + std::to_string(mi) + " other bits " + std::to_string(others), "GetTileMappingIndex " + std::to_string(m.GetTileMappingIndex(x, y)));
		ctx.count("values/mapping-indices"); ctx.transition();
	}
	ctx.state(); ctx.trace();
	ctx.sample("tile (37,2) of a 64x3 map: all 32 cell types x 4 patterns of the other 27 bits set-then-get; 9 out-of-range values refused; 2x2048 mapping indices");
}

struct CaseDef { int kind; uint32_t lg, a, b; };
std::vector<CaseDef> gCases;

void build(Ctx& ctx)
{
	gCases.clear();
	for (uint32_t lg = 5; lg <= 10; ++lg) for (uint32_t h = 1; h <= 256; h += 32) gCases.push_back({ 0, lg, h, h + 31 });
	std::vector<std::pair<uint32_t, uint32_t>> full = { { 5, 1 }, { 5, 2 }, { 5, 3 }, { 5, 4 } };
	if (ctx.thorough) { for (uint32_t h = 5; h <= 8; ++h) full.push_back({ 5, h }); for (uint32_t h = 1; h <= 8; ++h) full.push_back({ 6, h }); full.push_back({ 7, 1 }); full.push_back({ 7, 2 }); }
	for (auto& f : full) gCases.push_back({ 1, f.first, f.second, 1 });
	for (auto& f : std::vector<std::pair<uint32_t, uint32_t>>{ { 6, 2 }, { 6, 5 }, { 7, 3 }, { 8, 2 }, { 10, 1 }, { 9, 7 } }) gCases.push_back({ 1, f.first, f.second, 0 });
	gCases.push_back({ 2, 0, 0, 0 });
	// the same map portion read through the saved-game reader: widths 32, 64, 1024 x heights that are and are not powers of two
	for (uint32_t lg : { 5u, 6u, 10u }) gCases.push_back({ 3, lg, 0, 0 });
	gCases.push_back({ 4, 0, 0, 0 });
}

void runCase(std::size_t i, Ctx& ctx)
{
	const CaseDef& c = gCases[i];
	if (c.kind == 0) { addressing(ctx, c.lg, c.a, c.b); if (c.lg == 7 && c.a == 33) ctx.sample("maps 128x33 .. 128x64: every coordinate -> index formula, bijection bitmap, getters against the tile word"); }
	else if (c.kind == 1) setters(ctx, c.lg, c.a, c.b != 0);
	else if (c.kind == 3) { gFromSavedGame = true; for (uint32_t h : { 1u, 2u, 3u, 5u, 6u, 7u, 12u, 100u, 255u, 256u }) { addressing(ctx, c.lg, h, h); ctx.count("addressing/maps-from-saved-games"); } gFromSavedGame = false; }
	else if (c.kind == 4) mapsInTurn(ctx);
	else values(ctx);
}

} // namespace

int main(int argc, char** argv)
{
	mc::CheckDef def;
	def.id = "C16";
	def.init = build;
	def.ncases = [](Ctx&) { return gCases.size(); };
	def.run = runCase;
	def.caseTimeoutS = 600;
	return mc::Main(argc, argv, def);
}
