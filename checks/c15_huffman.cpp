// C15 - the adaptive Huffman tree stays a valid code equal to the reference on every history.
//  (1) explicit-state BFS over all update histories (depth-bounded) on trees of 2..6(8) symbols, with invalid
//      operations in the alphabet; every state: structural invariants + shape == ref_huff + encoder/decoder agreement
//  (2) adversarial deterministic histories on the 314-symbol tree up to capacity, checked after every update
//  (3) across capacity: all continuations of depth 5 from 3 updates short
#include "mc/mc.hpp"
#include "mc/explore.hpp"
#include "ref/ref_huff.hpp"
#include "Archive/AdaptiveHuffmanTree.h"
#include <memory>
#include <type_traits>
#include <set>
#include <functional>

using namespace OP2Utility;
using Archive::AdaptiveHuffmanTree;
using mc::Ctx;

namespace {

struct Walk { std::string shape; int leaves = 0, inner = 0; bool ok = true; std::string why; std::vector<int> leafSeen; };

void walkRec(AdaptiveHuffmanTree& t, unsigned idx, Walk& w, int budget, int depth)
{
	if (!w.ok) return;
	if (w.leaves + w.inner > budget || depth > budget) { w.ok = false; w.why = "walk does not terminate within 2n-1 nodes (cycle or shared node)"; return; }
	bool leaf = t.IsLeaf(AdaptiveHuffmanTree::NodeIndex(idx));
	if (leaf) {
		unsigned d = t.GetNodeData(AdaptiveHuffmanTree::NodeIndex(idx));
		++w.leaves;
		if (d >= w.leafSeen.size()) { w.ok = false; w.why = "leaf carries symbol " + std::to_string(d); return; }
		if (w.leafSeen[d]++) { w.ok = false; w.why = "symbol " + std::to_string(d) + " on two leaves"; return; }
		w.shape += std::to_string(d);
		return;
	}
	++w.inner;
	w.shape += "(";
	walkRec(t, t.GetChildNode(AdaptiveHuffmanTree::NodeIndex(idx), false), w, budget, depth + 1);
	w.shape += " ";
	walkRec(t, t.GetChildNode(AdaptiveHuffmanTree::NodeIndex(idx), true), w, budget, depth + 1);
	w.shape += ")";
}

Walk walkTree(AdaptiveHuffmanTree& t, int n)
{
	Walk w; w.leafSeen.assign(n, 0);
	auto o = mc::guarded([&] { walkRec(t, t.GetRootNodeIndex(), w, 2 * n - 1, 0); });
	if (o.cls != 'R') { w.ok = false; w.why = "accessor threw during walk: " + o.what; }
	if (w.ok && (w.leaves != n || w.inner != n - 1)) { w.ok = false; w.why = "reachable nodes: " + std::to_string(w.leaves) + " leaves, " + std::to_string(w.inner) + " inner; expected " + std::to_string(n) + "/" + std::to_string(n - 1); }
	return w;
}

// full oracle for one state; returns "" or a description; site via out parameter
std::string judge(AdaptiveHuffmanTree& t, const ref::HuffTree& rt, int n, std::string& site, bool withEncoder = true)
{
	Walk w = walkTree(t, n);
	if (!w.ok) { site = "not-a-full-prefix-code"; return w.why; }
	std::string rs = rt.shape();
	if (w.shape != rs) { site = "shape-differs-from-reference"; return "tree " + w.shape.substr(0, 400) + " reference " + rs.substr(0, 400); }
	if (!withEncoder) return "";
	for (int s = 0; s < n; ++s) {
		unsigned bits = 0, count = 0;
		auto o = mc::guarded([&] { bits = t.GetEncodedBitString(AdaptiveHuffmanTree::NodeData(s), count); });
		if (o.cls != 'R') { site = "encoder-throws"; return "symbol " + std::to_string(s) + ": " + o.what; }
		std::string path = rt.path(s);
		// consume LSB first, walking the decoder's accessors from the root
		unsigned idx = t.GetRootNodeIndex();
		bool okWalk = count <= 32;
		unsigned b = bits;
		for (unsigned i = 0; okWalk && i < count; ++i) {
			if (t.IsLeaf(AdaptiveHuffmanTree::NodeIndex(idx))) { okWalk = false; break; }
			idx = t.GetChildNode(AdaptiveHuffmanTree::NodeIndex(idx), b & 1);
			b >>= 1;
		}
		if (!okWalk || !t.IsLeaf(AdaptiveHuffmanTree::NodeIndex(idx)) || t.GetNodeData(AdaptiveHuffmanTree::NodeIndex(idx)) != unsigned(s)) {
			site = "encoder-bit-string-does-not-reach-symbol";
			return "symbol " + std::to_string(s) + " bitCount " + std::to_string(count) + " bits " + std::to_string(bits) + " reference path " + path;
		}
		if (count != path.size()) { site = "encoder-bit-count"; return "symbol " + std::to_string(s) + " bitCount " + std::to_string(count) + " reference depth " + std::to_string(path.size()); }
	}
	return "";
}

// The private arrays are used for diagnostics and as part of the state key only (never to decide a violation). If a
// refactoring renames or retypes them, the harness still builds: the key then consists of the reference tree's shape
// and weights alone (coarser, which can only lose exploration) and the evidence counts `binding/fallback-keys`.
template <class T, class = void> struct HasTreeArrays : std::false_type {};
template <class T> struct HasTreeArrays<T, std::void_t<decltype(std::declval<T&>().linkOrData.data()), decltype(std::declval<T&>().subtreeCount.data()), decltype(std::declval<T&>().parentIndex.data())>> : std::true_type {};
bool gTreeFallback = false;

template <class T>
std::string diagT(T& t)
{
	if constexpr (HasTreeArrays<T>::value) {
		std::string s = " [diag counts:";
		for (std::size_t i = 0; i < t.subtreeCount.size() && i < 24; ++i) s += " " + std::to_string(t.subtreeCount[i]);
		s += " links:";
		for (std::size_t i = 0; i < t.linkOrData.size() && i < 24; ++i) s += " " + std::to_string(t.linkOrData[i]);
		return s + "]";
	}
	else return "";
}
std::string diag(AdaptiveHuffmanTree& t) { return diagT(t); }

template <class T>
std::string privKeyT(T& t)
{
	if constexpr (HasTreeArrays<T>::value) {
		std::string k;
		k.append(reinterpret_cast<const char*>(t.linkOrData.data()), t.linkOrData.size() * sizeof(t.linkOrData[0]));
		k.append(reinterpret_cast<const char*>(t.subtreeCount.data()), t.subtreeCount.size() * sizeof(t.subtreeCount[0]));
		k.append(reinterpret_cast<const char*>(t.parentIndex.data()), t.parentIndex.size() * sizeof(t.parentIndex[0]));
		return k;
	}
	else { gTreeFallback = true; return ""; }
}
std::string privKey(AdaptiveHuffmanTree& t) { return privKeyT(t); }

// ------------------------------------------------------------------------------------------------
// (1) BFS on small trees
// ------------------------------------------------------------------------------------------------
struct HOp { int kind; unsigned a; };   // 0 update(a); 1 invalid update(a); 2 GetChildNode(a); 3 IsLeaf(a); 4 GetNodeData(a); 5 encode(a)

struct Small {
	using Op = HOp;
	struct State { AdaptiveHuffmanTree t; ref::HuffTree r; int depth = 0; State(int n) : t(AdaptiveHuffmanTree::NodeType(n)), r(n) {} };
	Ctx& ctx; int n;
	std::unique_ptr<State> fresh() { return std::make_unique<State>(n); }
	std::unique_ptr<State> clone(const State& s) { return std::make_unique<State>(s); }
	std::string key(const State& s) { return privKey(const_cast<AdaptiveHuffmanTree&>(s.t)) + "|" + s.r.shapeWithWeights(); }
	std::string show(const Op& o) { static const char* nm[] = { "Update", "UpdateInvalid", "GetChildNode", "IsLeaf", "GetNodeData", "Encode" }; return std::string(nm[o.kind]) + "(" + std::to_string(o.a) + ")"; }
	std::vector<Op> enabled(const State&)
	{
		std::vector<Op> v;
		for (int s = 0; s < n; ++s) v.push_back({ 0, unsigned(s) });
		unsigned nodeCount = unsigned(2 * n - 1);
		for (unsigned a : { unsigned(n), unsigned(n + 1), 0xFFFFu }) v.push_back({ 1, a });
		for (unsigned a : { nodeCount, nodeCount + 1, 0xFFFFu }) { v.push_back({ 2, a }); v.push_back({ 3, a }); v.push_back({ 4, a }); }
		for (unsigned a : { unsigned(n), 0xFFFFu }) v.push_back({ 5, a });
		return v;
	}
	bool apply(State& s, const Op& op, bool check, const std::string& hist)
	{
		auto bad = [&](const std::string& site, const std::string& d) { if (check) ctx.violation("C15/small/" + site, "n=" + std::to_string(n) + " " + hist, d + diag(s.t)); return false; };
		if (op.kind == 0) {
			auto o = mc::guarded([&] { s.t.UpdateCodeCount(AdaptiveHuffmanTree::NodeData(op.a)); });
			if (o.cls != 'R') return bad("valid-update-refused", o.what);
			s.r.update(int(op.a));
			if (check) ctx.count("small/updates");
		}
		else {
			mc::Outcome o;
			unsigned dummy = 0;
			switch (op.kind) {
			case 1: o = mc::guarded([&] { s.t.UpdateCodeCount(AdaptiveHuffmanTree::NodeData(op.a)); }); break;
			case 2: o = mc::guarded([&] { s.t.GetChildNode(AdaptiveHuffmanTree::NodeIndex(op.a), true); }); break;
			case 3: o = mc::guarded([&] { s.t.IsLeaf(AdaptiveHuffmanTree::NodeIndex(op.a)); }); break;
			case 4: o = mc::guarded([&] { s.t.GetNodeData(AdaptiveHuffmanTree::NodeIndex(op.a)); }); break;
			default: o = mc::guarded([&] { s.t.GetEncodedBitString(AdaptiveHuffmanTree::NodeData(op.a), dummy); }); break;
			}
			if (check) ctx.count("small/invalid-operations");
			if (o.cls == 'R') return bad("out-of-range-argument-accepted", show(op));
			if (o.cls == 'X') return bad("non-std-exception", show(op));
		}
		if (check) {
			std::string site;
			if (!s.r.wellFormed()) return bad("reference-self-check", "reference list invariants broken (harness defect)");
			std::string d = judge(s.t, s.r, n, site);
			if (!d.empty()) return bad(site, d);
		}
		return true;
	}
};

// ------------------------------------------------------------------------------------------------
// (2) long adversarial histories on the 314-symbol tree
// ------------------------------------------------------------------------------------------------
int scheduleSymbol(int which, uint32_t i, int n)
{
	switch (which) {
	case 0: return 0;                                   // single symbol
	case 1: return int(i % uint32_t(n));                // round robin
	case 2: { uint32_t k = 0, base = 0; while (base + k + 1 <= i) { base += k + 1; ++k; if (int(k) >= n) { k = 0; } } return int((i - base) % uint32_t(n)); } // sawtooth 0,01,012,...
	case 3: return n - 1 - int(i % uint32_t(n));        // reverse
	case 4: return (i & 1) ? n - 1 : 0;                 // two-symbol ping-pong
	case 5: { // skewed (Fibonacci-like) frequencies: symbol j is chosen about phi^-j of the time -> maximal depth
		uint32_t x = i * 2654435761u; int j = 0; while ((x & 1) && j < n - 1) { x >>= 1; ++j; } return j; }
	case 6: return int((i * 7919u + (i >> 3)) % uint32_t(n));  // stride
	default: return n - 1;                              // last symbol only
	}
}

void longHistory(Ctx& ctx, int which, int n, uint32_t updates, int encodeEvery)
{
	AdaptiveHuffmanTree t{ AdaptiveHuffmanTree::NodeType(n) };
	ref::HuffTree r(n);
	std::string label = "n=" + std::to_string(n) + " schedule " + std::to_string(which);
	for (uint32_t i = 0; i < updates; ++i) {
		int s = scheduleSymbol(which, i, n);
		if ((i & 1023) == 0) ctx.sub(label + " update " + std::to_string(i));
		auto o = mc::guarded([&] { t.UpdateCodeCount(AdaptiveHuffmanTree::NodeData(s)); });
		if (o.cls != 'R') { ctx.violation("C15/long/valid-update-refused", label + " update #" + std::to_string(i + 1), o.what); return; }
		r.update(s);
		std::string site;
		std::string d = judge(t, r, n, site, encodeEvery > 0 && (i % uint32_t(encodeEvery) == 0 || i + 1 == updates));
		ctx.transition();
		if (!d.empty()) { ctx.violation("C15/long/" + site, label + " update #" + std::to_string(i + 1) + " symbol " + std::to_string(s), d); return; }
	}
	ctx.state(updates);
	ctx.count("long/histories");
	ctx.trace();
	ctx.outcome(mc::fnv(r.shape()));
}

// ------------------------------------------------------------------------------------------------
// (3) across capacity
// ------------------------------------------------------------------------------------------------
void capacityTail(Ctx& ctx, int n, int which)
{
	const uint32_t capacity = 65535u - uint32_t(n);   // the root count (n + updates) must stay representable in 16 bits
	AdaptiveHuffmanTree t{ AdaptiveHuffmanTree::NodeType(n) };
	ref::HuffTree r(n);
	std::string label = "n=" + std::to_string(n) + " schedule " + std::to_string(which) + " capacity " + std::to_string(capacity);
	ctx.sub(label + " prefix");
	for (uint32_t i = 0; i + 3 < capacity; ++i) {
		int s = scheduleSymbol(which, i, n);
		auto o = mc::guarded([&] { t.UpdateCodeCount(AdaptiveHuffmanTree::NodeData(s)); });
		if (o.cls != 'R') { ctx.violation("C15/capacity/valid-update-refused", label + " update #" + std::to_string(i + 1), o.what); return; }
		r.update(s);
	}
	{
		std::string site; std::string d = judge(t, r, n, site);
		if (!d.empty()) { ctx.violation("C15/capacity/" + site, label + " at capacity-3", d); return; }
	}
	std::vector<int> reps = { 0, 1, n / 2, n - 2 < 0 ? 0 : n - 2, n - 1, scheduleSymbol(which, 7, n) };
	std::sort(reps.begin(), reps.end()); reps.erase(std::unique(reps.begin(), reps.end()), reps.end());
	// DFS over all continuations of depth 5
	std::function<void(AdaptiveHuffmanTree&, ref::HuffTree&, int, std::string)> rec = [&](AdaptiveHuffmanTree& tt, ref::HuffTree& rr, int depth, std::string hist) {
		if (depth == 5) { ctx.trace(); return; }
		for (int s : reps) {
			AdaptiveHuffmanTree t2 = tt; ref::HuffTree r2 = rr;
			std::string h2 = hist + " " + std::to_string(s);
			ctx.sub(label + " tail" + h2);
			Walk before = walkTree(t2, n);
			auto o = mc::guarded([&] { t2.UpdateCodeCount(AdaptiveHuffmanTree::NodeData(s)); });
			ctx.transition();
			if (depth < 3) {
				ctx.count("capacity/last-updates-within-capacity");
				if (o.cls != 'R') { ctx.violation("C15/capacity/valid-update-refused", label + " tail" + h2, o.what); continue; }
				r2.update(s);
				std::string site; std::string d = judge(t2, r2, n, site);
				if (!d.empty()) { ctx.violation("C15/capacity/" + site, label + " tail" + h2, d); continue; }
			}
			else {
				ctx.count("capacity/updates-beyond-capacity");
				if (o.cls == 'R') { ctx.violation("C15/capacity/update-beyond-capacity-accepted", label + " tail" + h2, "update #" + std::to_string(capacity - 3 + depth + 1) + " of capacity " + std::to_string(capacity) + " returned normally"); continue; }
				if (o.cls == 'X') { ctx.violation("C15/capacity/non-std-exception", label + " tail" + h2, ""); continue; }
				Walk after = walkTree(t2, n);
				if (!after.ok || after.shape != before.shape) { ctx.violation("C15/capacity/refused-update-changed-tree", label + " tail" + h2, after.why); continue; }
				std::string site; std::string d = judge(t2, r2, n, site);
				if (!d.empty()) { ctx.violation("C15/capacity/" + site, label + " tail" + h2 + " (after refusal)", d); continue; }
			}
			ctx.state();
			rec(t2, r2, depth + 1, h2);
		}
	};
	rec(t, r, 0, "");
}

// ------------------------------------------------------------------------------------------------
struct CaseDef { int kind; int n; int which; uint32_t updates; int encodeEvery; std::size_t depth; };
std::vector<CaseDef> gCases;

void buildCases(Ctx& ctx)
{
	gCases.clear();
	// depth bounds chosen so that every bounded space is enumerated completely (no state cap is hit)
	static const std::size_t quickDepth[] = { 0, 0, 12, 12, 12, 11, 9 };
	static const std::size_t thoroughDepth[] = { 0, 0, 40, 24, 18, 14, 12, 9, 8 };
	for (int n = 2; n <= (ctx.thorough ? 8 : 6); ++n) gCases.push_back({ 0, n, 0, 0, 0, ctx.thorough ? thoroughDepth[n] : quickDepth[n] });
	for (int w = 0; w < 8; ++w) gCases.push_back({ 1, 314, w, ctx.thorough ? 65221u : 20000u, ctx.thorough ? 1 : 16, 0 });
	for (int w = 0; w < 4; ++w) gCases.push_back({ 1, 9, w, 3000u, 1, 0 });
	gCases.push_back({ 2, 314, 1, 0, 0, 0 });
	gCases.push_back({ 2, 314, 0, 0, 0, 0 });
	gCases.push_back({ 2, 314, 5, 0, 0, 0 });
	gCases.push_back({ 2, 2, 1, 0, 0, 0 });
	gCases.push_back({ 2, 3, 1, 0, 0, 0 });
}

void runCase(std::size_t i, Ctx& ctx)
{
	const CaseDef& c = gCases[i];
	if (c.kind == 0) {
		Small h{ ctx, c.n };
		std::size_t cap = ctx.thorough ? 3000000 : 300000;
		auto r = mc::bfs(h, ctx, cap, c.depth, "huff" + std::to_string(c.n), true);
		ctx.trace(r.transitions);
		ctx.outcome(r.states * 131 + c.n);
		if (gTreeFallback) ctx.count("binding/fallback-keys");
		ctx.count(("small/states-n" + std::to_string(c.n) + "-depth" + std::to_string(c.depth)).c_str(), r.states);
		if (c.n == 4) ctx.sample("n=4: all update histories to depth " + std::to_string(c.depth) + " plus invalid operations: states=" + std::to_string(r.states) + " transitions=" + std::to_string(r.transitions) + " e.g. Update(3) Update(3) Update(1) UpdateInvalid(4) Encode(65535)");
	}
	else if (c.kind == 1) {
		longHistory(ctx, c.which, c.n, c.updates, c.encodeEvery);
		if (c.which == 2 && c.n == 314) ctx.sample("314 symbols, sawtooth schedule, " + std::to_string(c.updates) + " updates, invariants + reference shape after every update");
	}
	else capacityTail(ctx, c.n, c.which);
}

} // namespace

int main(int argc, char** argv)
{
	mc::CheckDef def;
	def.id = "C15";
	def.init = buildCases;
	def.ncases = [](Ctx&) { return gCases.size(); };
	def.run = runCase;
	def.describe = [](std::size_t i) { return "kind " + std::to_string(gCases[i].kind) + " n=" + std::to_string(gCases[i].n) + " schedule " + std::to_string(gCases[i].which); };
	def.caseTimeoutS = 1200;
	mc::alloc_cap = std::size_t(4) << 30;   // the explorer's own tables (seen set, parent links, bit matrices) exceed the default 64 MiB environment cap; no library allocation in this check is driven by input sizes
	return mc::Main(argc, argv, def);
}
