#!/usr/bin/env python3
"""Assembles /verif/DESIGN.md from the hand-written parts (mc/design_*.md) and generated tables:
section 3 (as-built bounds per property, from mc/registry.py + latest evidence), section 6 (detection
experiments, from seeded/*/ and mutants/results.json), section 7 (findings, from known_findings.json)."""
import os, sys, json, glob
VERIF = os.path.dirname(os.path.dirname(os.path.abspath(__file__)))
sys.path.insert(0, os.path.join(VERIF, 'mc'))
from registry import CHECKS

NOTES = {
 'C01': 'State space = file sets built by "add file" (every k-set is reached from every (k-1)-subset; all list orders of one set must give the same archive, which is the differential "same result whichever way it was reached"). Content byte j of file f is hash(f, j), so a misplaced or truncated block is visible. The suite packs zero files.',
 'C02': 'A symmetric writer/reader mistake survives any round trip; the only archive the suite opens is one it wrote with zero members. Hence the strict independent decoder (a) and the independent encoder (b).',
 'C03': 'Sorting happens on names with extension, listing on names without: for the property\'s name alphabet (letters, digits, underscore) both orders agree because "." sorts below all of them; names with characters below "." (space, "-", "+") are outside the property and not enumerated (seeded change S17a shows the two orders can differ there).',
 'C04': 'The drain-schedule graph is finite and acyclic for a fixed input, so BFS with full-state hashing covers every drain sequence of any length over the alphabet. Weaker reading: GetData may return fewer bytes than asked while more remain (counted as drain/short-return-before-end, never observed); it may return 0 for k>0 only at the end.',
 'C05': 'Oracle (2) is differential: the observation of every call in every reachable reader state equals the observation of the same call on a freshly opened object ("as if the failed one had not been made"). Either recorded member length (VBLK length or index size) is accepted for a stream (weaker reading).',
 'C06': 'Acceptance is required for byte strings some Map::Write can emit (flag 0/1, regenerated word) and their trailing-byte variants; for other un-normalised variants a rejection is tolerated and counted. Re-read after SetVersionTag(<0x1010) must fail (the suite\'s AllowInvalidVersionTag shows writing a low tag is intended).',
 'C07': 'Prefixes are presented through one buffer whose tail is ASan-poisoned (O(1) per prefix); the extent the reader consumes is the reference encoder\'s length without trailing bytes.',
 'C08': 'Library Color fields hold the BMP file byte order; palettes are compared as raw 4-byte entries. Weaker reading: a partial palette may have grown to full length after a round trip if the entries that were read are unchanged. After seeded change S08r (an in-place flip whose second and later swaps address the wrong bytes) was reported only by the thorough tier, the quick tier enumerates every height -8..8 instead of -3..3: a flip of up to three rows has at most one swap.',
 'C09': 'The picture is compared as a viewer sees it (rows top first + colours), i.e. after normalising the stored orientation, since the standard-bitmap path keeps it.',
 'C10': 'Deep equality and "writing never alters the object" use a dump of every field incl. frame flag bytes and the unknown total.',
 'C11': 'Follow-up exploration: InvertScanLines and SwapRedAndBlue are the only mutating operations, so the reachable set (<= 4 states) is explored to a fixpoint with all eight operations in every state.',
 'C12': 'A correct reader has len+1 states; the search runs until no new state appears, so every history of every length over the alphabet is covered (a state with position > length would simply be a new state - and a violation). Weaker reading: after a rejected size-prefixed or string read the cursor may be at the old position or past the prefix / scanned data. The short sources bound string and container lengths to ten units; long sources (140000 bytes, probed operation by operation, not explored) carry the size prefixes that only matter when enough bytes follow and, after seeded change S12r (a NUL-terminated string reader that gathers characters in 64-byte blocks and drops every 65th) was missed, a string of about a thousand characters.',
 'C13': 'Joint state = tuple of per-object keys; memory joint graph: 12k states to a fixpoint; file-backed and archive joint graphs reach their fixpoints too (history replay on freshly opened files).',
 'C14': 'Payload bytes encode the intended absolute offset and a family tag, so misplacement is visible; the exact-size heap buffer makes any write outside it an ASan report. Weaker readings: a refused size-prefixed write may already have emitted the prefix; with neither Truncate nor Append only the existence rules are asserted.',
 'C15': 'Deciding clauses use only the public accessors (shape and symbols walked from GetRootNodeIndex, the encoder\'s strings); private arrays serve as state key and diagnostics, so a correct implementation with a different layout is not flagged.',
 'C16': 'Both tiers run the full 1536-map grid; only the size of the maps with full-array diffs differs.',
 'C17': 'Sandwich oracle for listings: every case-exact match must be present; nothing that fails a case-insensitive match may be present. After seeded change S17a was missed, archives with members in reverse and rotated (non-sorted) order were added: lookup must hold "for every archive" the reader opens.',
 'C18': 'Memcheck V-bits stand for all garbage values at once; the concrete environments are the cross-check that what memcheck calls defined is also deterministic. Groups of logically equal inputs (list orders, path spellings) must give identical outputs, and equal the reference encoding where one exists.',
 'C19': 'Triples are decided on bit-matrix rows: a<b implies row(b) is a subset of row(a) (transitivity); a~b implies equal rows (incomparability transitive); equivalence relations: related rows must be equal.',
 'C20': 'A set whose last block merely ends beyond 2^32 is representable (no field overflows) and is not required to be refused.',
}


def main():
    props = [json.loads(l) for l in open(os.path.join(VERIF, 'properties.jsonl'))]
    out = [open(os.path.join(VERIF, 'mc', 'design_head.md')).read(), '\n', open(os.path.join(VERIF, 'mc', 'design_sec1.md')).read(), '\n',
           open(os.path.join(VERIF, 'mc', 'design_machinery.md')).read(), '\n']
    static = open(os.path.join(VERIF, 'mc', 'design_static.md')).read()
    sec4 = static[static.index('@@SECTION4@@') + len('@@SECTION4@@'):static.index('@@SECTION8@@')]
    sec8 = static[static.index('@@SECTION8@@') + len('@@SECTION8@@'):static.index('@@APPENDIXB@@')]
    appB = static[static.index('@@APPENDIXB@@') + len('@@APPENDIXB@@'):]

    # ---- section 3 ----
    out.append('## 3. Per-property checks (as built)\n\nGenerated from `mc/registry.py` (also the source of MANIFEST.json) and the evidence files of the last runs in this\nsandbox. "Measured" = states / transitions / wall time of the most recent run whose evidence file is present.\n\n')
    out.append('| id | deciding method | quick bound | thorough bound |\n|---|---|---|---|\n')
    for p in props:
        c = CHECKS[p['id']]
        out.append('| %s | %s | %s | %s |\n' % (p['id'], c['technique'], c['bounds']['quick'], c['bounds']['thorough']))
    out.append('\n')
    timings = {}
    tp = os.path.join(VERIF, 'mc', 'design_timings.json')
    if os.path.exists(tp):
        timings = json.load(open(tp))
    for p in props:
        c = CHECKS[p['id']]
        out.append('---\n### %s — %s\n\n' % (p['id'], p['title']))
        out.append('*Method.* %s.\n\n' % c['technique'])
        out.append('*What is enumerated and what is compared.* %s\n\n' % c['level_text'])
        out.append('*Bounds.* quick: %s. thorough: %s.\n\n' % (c['bounds']['quick'], c['bounds']['thorough']))
        t = timings.get(p['id'])
        if t:
            out.append('*Measured (16 cores).* ' + '; '.join('%s: %s states, %s transitions, %s distinct outcomes, %.0f s incl. build, exhaustive=%s' % (k, v['states'], v['transitions'], v['outcomes'], v['wall_s'], v['exhaustive']) for k, v in sorted(t.items())) + '.\n\n')
        out.append('*Assumptions / weaker readings.* %s %s\n\n' % (c['level_note'], NOTES.get(p['id'], '')))
        out.append('*Vacuity guards (must be exercised).* %s.\n\n' % ', '.join('`%s`' % x for x in c.get('must_hit', {}).get('any', [])))
    out.append(sec4)

    # ---- section 6 ----
    out.append('\n## 6. Demonstrating detection\n\n')
    out.append('### 6.1 Changes seeded by independent sub-agents\n\nEach was written by a fresh sub-agent that was given only the text of one property and its own scratch worktree of `/repo`\n(nothing from `/verif`), and asked for a change that breaks the property, still compiles, keeps the 141 tests passing and\nneeds something specific to manifest, with a demonstration program. I confirmed each in a fresh worktree\n(`seeded/import.py`: suite 141/141 with the change, demo fails with it, passes without it) before keeping it as\n`seeded/<id>/{patch.diff, demo/, meta.json}`; `mutants/run.py --seeded` then ran the property\'s quick check against the\npatched tree (`detection.json`). None of these changes is committed to `/repo`.\n\n')
    out.append('| id | property | what it needs to manifest | quick check | reporting sites |\n|---|---|---|---|---|\n')
    stats = {'total': 0, 'detected': 0, 'initially_missed': 0, 'anticipated': 0}
    for d in sorted(glob.glob(os.path.join(VERIF, 'seeded', '*', 'meta.json'))):
        m = json.load(open(d))
        det = {}
        dp = os.path.join(os.path.dirname(d), 'detection.json')
        if os.path.exists(dp):
            det = json.load(open(dp))
        c = det.get('checks', {}).get(m['property'], {})
        verdict = 'DETECTED' if c.get('detected') else ('missed' if c else 'not run')
        if det.get('tier', 'quick') != 'quick':
            verdict += ' by the %s tier' % det['tier']
        for other in m.get('also_run') or []:
            oc = det.get('checks', {}).get(other, {})
            if oc.get('detected'):
                verdict += '; DETECTED by %s (%s)' % (other, ', '.join('`%s`' % x for x in oc.get('sites', [])[:2]))
        if m.get('note'):
            verdict += ' (' + m['note'] + ')'
        if m.get('initially_missed'):
            verdict += ' (initially missed; ' + m['initially_missed'] + ')'
        out.append('| %s | %s | %s | %s | %s |\n' % (m['id'], m['property'], m['needs_to_manifest'].replace('|', '/'), verdict, ', '.join('`%s`' % s for s in c.get('sites', [])[:3])))
        stats['total'] += 1
        stats['detected'] += 1 if (c.get('detected') or any(det.get('checks', {}).get(o, {}).get('detected') for o in (m.get('also_run') or []))) else 0
        stats['initially_missed'] += 1 if m.get('initially_missed') else 0
        stats['anticipated'] += 1 if (m.get('note') or '').find('before this change was evaluated') >= 0 else 0
    out.append('\nTotals: %d seeded changes kept over eight rounds (round 1: one per property; round 2: two; rounds 3 to 7: up to three, with prompts steering towards degenerate shapes / symmetric reader-writer mistakes / state left for the next call, then type-width-layout changes / shared helpers / call-order interactions, then secondary entry points / error paths and clean-up / hidden shared state, then commits a maintainer would make for another reason: performance fast paths and caches / modernisation and integer-type clean-ups / well-meant robustness and tolerance changes, then - adversarially - breakage that ordinary testing practice would miss: specific data values, scale, the environment, long or specific histories, rarely observed outputs; and a last, short round 8 of one change for each of the twenty properties, steered towards two cooperating sites, an object used again after a refused call, wrap-around arguments, several items in one call and what a failure in the middle leaves behind - by then the sub-agents largely re-invented changes already kept: the C03, C04, C06, C10, C12 and C18 proposals of that round were the same edit at the same site as S03p, S04g/S04k, S06a/S06d/S06p, S20e, S12a/S12b/S12l and S18c/S18h/S18m and were not kept a second time; of the fourteen kept, thirteen were reported at first evaluation and one, S08r, led to the quick tier of C08 enumerating every height -8..8; a second part of round 8 asked, for the eight properties whose quick tier runs in a second or two, for changes that are right on tiny inputs and wrong on moderately larger ones: five kept (S08s, S09s, S12r, S16q, S18q), three duplicates of S10m, S20a and S08m dropped, and two misses cured: S12r by a long source whose first NUL is at offset 1000 in C12, S18q by a 21-member volume (name table beyond 256 bytes, three padding bytes) in C18); duplicates of earlier changes were not kept. %d are reported by the quick check of the property they break on the current tree (a few that need gigabytes of memory by the thorough check, said in their rows). %d of them were missed when first evaluated and led to the strengthening named in their row; for %d more the check was extended from the description of the change before it was evaluated (said in the row). Every cured miss was re-run; the rows show the final run.\n\n' % (stats['total'], stats['detected'], stats['initially_missed'], stats['anticipated']))
    rp = os.path.join(VERIF, 'mutants', 'results.json')
    if os.path.exists(rp):
        res = json.load(open(rp))
        out.append('### 6.2 Hand-written mutants\n\n`mutants/make_mutants.py` holds %d small slips taken from the "mutants it must catch" lists of the original plan (an off-by-one in padding or offset arithmetic, a comparison operator, a dropped normalisation, a check moved after the action it guards, re-introductions of the defects of section 7). For each, `mutants/run.py` runs the repository suite and the property\'s quick check in a scratch worktree. "suite" = the 141 tests still pass (a mutant the suite kills is uninteresting but is listed).\n\n' % len(res))
        out.append('| mutant | property | suite | quick check | reporting sites |\n|---|---|---|---|---|\n')
        nd = nm = nk = 0
        for r in res:
            c = r.get('checks', {}).get(r['property'], {})
            if not r.get('suite_passes'):
                nk += 1
            if c.get('detected'):
                nd += 1
            elif r.get('suite_passes'):
                nm += 1
            out.append('| %s | %s | %s | %s | %s |\n' % (r['name'], r['property'], 'pass' if r.get('suite_passes') else 'KILLED by suite', 'DETECTED' if c.get('detected') else ('harness error' if c.get('exit', 0) not in (0, 1) else 'missed'), ', '.join('`%s`' % s for s in c.get('sites', [])[:2])))
        out.append('\nTotals: %d mutants, %d detected by the property\'s quick check, %d missed with the suite passing, %d killed by the suite itself.\n\n' % (len(res), nd, nm, nk))
        notes = os.path.join(VERIF, 'mc', 'design_mutant_notes.md')
        if os.path.exists(notes):
            out.append(open(notes).read() + '\n')

    # ---- 6.3 refactorings ----
    rdirs = sorted(glob.glob(os.path.join(VERIF, 'refactors', '*', 'meta.json')))
    if rdirs:
        out.append('### 6.3 Behaviour-preserving refactorings and property-preserving changes: the checks stay silent\n\nThe converse experiment. Fresh sub-agents (again given only one property text and a scratch worktree) were asked for three *refactorings* each: renamed or retyped private members, loops turned into algorithms and back, equivalent arithmetic and conditions (with the same behaviour at the integer limits), helper functions split or merged, different exception classes below `std::exception`, reworded messages, moved or removed copies. `refactors/import.py` keeps a refactoring if it applies and the 141 tests pass with it; `refactors/run.py` then runs, against the patched tree, the quick check of the property it was written for and of every other property whose anchors name a touched file. Every run must exit 0 without a VIOLATION line.\n\n')
        out.append('| id | written for | files touched | checks run | result |\n|---|---|---|---|---|\n')
        nr = ns = nadj = 0
        for d in rdirs:
            m = json.load(open(d))
            rp = os.path.join(os.path.dirname(d), 'result.json')
            r = json.load(open(rp)) if os.path.exists(rp) else {}
            cs = sorted(r.get('checks', {}).keys())
            alarms = [c for c in cs if r['checks'][c].get('exit') != 0]
            nr += 1; ns += 1 if (cs and not alarms) else 0
            res = ('ALARM in ' + ', '.join(alarms)) if alarms else ('silent' if cs else '-')
            if alarms and m.get('adjudication'):
                res += ' - ' + m['adjudication']
                nadj += 1
            out.append('| %s | %s | %s | %s | %s |\n' % (m['id'], m['written_for'], ', '.join(f.replace('src/', '') for f in m['files']), ', '.join(cs) if cs else 'not run', res))
        out.append('\nTotals: %d changes (ids 01a-20c: refactorings; zz1: rename of every private name; P01a-P20c, Q01a-Q20c, U01a-U20c: three rounds of changes that keep the property they were written for but alter behaviour it does not constrain; V..: a fourth, smaller round for eight properties in which the sub-agent was told what the earlier rounds had tried and asked for the changes most likely to trip an over-strict checker - what is refused or tolerated outside the domain, unspecified values and order, state after a failure, write and read strategies, temporary files, repeated use and the environment), %d with every selected check silent, %d with an alarm that was adjudicated as right: the change keeps the property it was written for and breaks the one whose check reports it (the reason is in the row). Every other alarm these rounds produced was a false alarm of the machinery; each was corrected in the checks, is listed in section 8, and the row shows the result of the re-run.\n\n' % (nr, ns, nadj))
        rn = os.path.join(VERIF, 'mc', 'design_refactor_notes.md')
        if os.path.exists(rn):
            out.append(open(rn).read().rstrip() + '\n\n')
    # ---- section 7 ----
    kf = json.load(open(os.path.join(VERIF, 'known_findings.json')))['findings']
    out.append('\n## 7. Findings: genuine defects of OP2Utility found by the checks\n\nEvery entry below was produced by a check on the then-current tree as a replayable case, reproduced, and repaired by a minimal\nunguarded `fix:` commit in `/repo` (one defect per commit; the 141 tests pass after each). `known_findings.json` lists them with\n`status: fixed`; a fixed entry suppresses nothing, so each check reports the violation again if it ever returns (the\nhand-written mutants of 6.2 re-introduce several of them and are detected). There is no `status: known` entry: no defect was\nleft unrepaired.\n\n')
    out.append('| property | fix commit | what failed (input, call site or history) |\n|---|---|---|\n')
    for k in kf:
        if k.get('status') == 'fixed':
            w = k['what']
            w = w.split(' ', 2)[2] if w.startswith('fixed: property=') else w
            out.append('| %s | `%s` | %s |\n' % (k['property'], k.get('commit', ''), w.replace('|', '/')))
    out.append('\nSuspicions from the reading phase that the checks did **not** confirm (struck): `SliceReader::SeekForward` wrap (refused by the wrapped reader\'s own check); `MemoryReader::Slice` overflow (guarded); tile-group `width*height` wrap (round-trips consistently; outside C07\'s statement); CLM names sorted with extension (agrees with the listing order for the property\'s name alphabet).\n\n')
    out.append(sec8)
    out.append('\n\n' + open(os.path.join(VERIF, 'mc', 'design_appA.md')).read())
    out.append('\n' + appB)
    open(os.path.join(VERIF, 'DESIGN.md'), 'w').write(''.join(out))
    print('DESIGN.md written (%d bytes)' % len(''.join(out)))


if __name__ == '__main__':
    main()
