// The binding surface: every private name of OP2Utility the harness touches (compiled with
// -fno-access-control). Used for state keys (deduplication) only, except where a check says otherwise.
// A refactoring that renames one of these stops the build of the affected check here - a loud harness
// failure, never a silent pass.
#pragma once
#include "Stream/MemoryReader.h"
#include "Stream/FileReader.h"
#include "Stream/SliceReader.h"
#include "Stream/MemoryWriter.h"
#include "Stream/DynamicMemoryWriter.h"
#include <string>

namespace peek {
using namespace OP2Utility;

inline std::string key(Stream::MemoryReader& r) { return "m" + std::to_string(r.position); }
inline std::string key(Stream::FileReader& r)
{
	auto st = r.file.rdstate();
	long long tg = -2;
	if (!r.file.fail()) tg = (long long)r.file.tellg();
	return "f" + std::to_string(tg) + "/" + std::to_string(int(st));
}
template <class W>
inline std::string key(Stream::SliceReader<W>& r)
{
	return "s[" + std::to_string(r.startingOffset) + "+" + std::to_string(r.sliceLength) + "]" + key(r.wrappedStream);
}
inline std::string key(Stream::MemoryWriter& w) { return "w" + std::to_string(w.offset); }
inline std::string key(Stream::DynamicMemoryWriter& w) { return "d" + std::to_string(w.streamBuffer.size()) + ":" + std::string(w.streamBuffer.begin(), w.streamBuffer.end()); }
}
