// Explicit-state breadth-first search over the real object.
//
// A harness H supplies
//   using Op = ...;                          // one operation instance (copyable)
//   using State = ...;                       // implementation object(s) + reference model, the product state
//   std::unique_ptr<State> fresh();          // initial product state
//   std::unique_ptr<State> clone(const State&);   // may return nullptr: then states are rebuilt by history replay
//   std::vector<Op> enabled(const State&);   // operation alphabet in this state
//   bool apply(State&, const Op&, bool check, const Hist& hist);   // (or const std::string& hist: converted on call)
//                                            // perform op on impl and model; with check=true compare and report;
//                                            // returns false if the edge violated the oracle (successor not expanded)
//   std::string key(const State&);           // FULL state (impl private state + model state) or a 128-bit hash of it
//   std::string show(const Op&);
//
// Every state keeps a parent link, i.e. the shortest history that reaches it. When clone() is unavailable the
// history is replayed on a fresh object and the key is recomputed; a key that differs from the one recorded at
// discovery is a hard error ("replay diverged"): that is how un-owned nondeterminism would show.
#pragma once
#include "mc.hpp"
#include <deque>
#include <memory>
#include <unordered_set>
#include <unordered_map>

namespace mc {

struct BfsResult {
	std::size_t states = 0, transitions = 0, maxDepth = 0;
	bool fixpoint = true;   // no unexpanded state remained
	bool capped = false;    // a state cap (or an undeclared depth cap) cut the search short
};

// lazily rendered operation history (rendering is O(depth); only done for reports)
struct Hist {
	std::function<std::string(std::size_t)> render;   // argument: maximum number of trailing operations (0 = all)
	std::string str(std::size_t lastN = 0) const { return render(lastN); }
	operator std::string() const { return render(0); }
};

template <class H>
BfsResult bfs(H& h, Ctx& ctx, std::size_t maxStates, std::size_t maxDepth, const std::string& label, bool depthIsDeclaredBound = false)
{
	using Op = typename H::Op;
	using State = typename H::State;
	struct Rec { int64_t parent; Op op; uint32_t depth; std::string key; };
	std::vector<Rec> recs;
	struct QItem { int64_t id; std::unique_ptr<State> st; };
	BfsResult res;
	std::unordered_set<std::string> seen;
	std::deque<QItem> queue;

	auto opsOf = [&](int64_t id) {
		std::vector<Op> ops;
		for (int64_t i = id; i > 0; i = recs[std::size_t(i)].parent) ops.push_back(recs[std::size_t(i)].op);
		std::reverse(ops.begin(), ops.end());
		return ops;
	};
	auto render = [&](int64_t id, const Op* last, std::size_t lastN) {
		std::vector<std::string> parts;
		if (last) parts.push_back(h.show(*last));
		std::size_t depth = recs[std::size_t(id)].depth + (last ? 1 : 0);
		for (int64_t i = id; i > 0 && (lastN == 0 || parts.size() < lastN); i = recs[std::size_t(i)].parent) parts.push_back(h.show(recs[std::size_t(i)].op));
		std::string s = label + " :";
		if (parts.size() < depth) s += " ...(" + std::to_string(depth - parts.size()) + " earlier operations)";
		for (std::size_t k = parts.size(); k-- > 0;) { s += " "; s += parts[k]; }
		return s;
	};
	auto rebuild = [&](const QItem& q) -> std::unique_ptr<State> {
		if (q.st) { auto c = h.clone(*q.st); if (c) return c; }
		auto s = h.fresh();
		Hist none{ [](std::size_t) { return std::string(); } };
		for (auto& o : opsOf(q.id)) h.apply(*s, o, false, none);
		if (h.key(*s) != recs[std::size_t(q.id)].key) {
			ctx.violation("harness/replay-diverged", render(q.id, nullptr, 0), "replaying the recorded history on a fresh object did not reproduce the recorded state key");
		}
		return s;
	};

	{
		QItem q; q.id = 0; q.st = h.fresh();
		Rec r{ -1, Op{}, 0, h.key(*q.st) };
		seen.insert(r.key);
		recs.push_back(std::move(r));
		if (!h.clone(*q.st)) q.st.reset();
		queue.push_back(std::move(q));
		res.states = 1;
	}
	while (!queue.empty()) {
		QItem q = std::move(queue.front());
		queue.pop_front();
		uint32_t depth = recs[std::size_t(q.id)].depth;
		if (depth > res.maxDepth) res.maxDepth = depth;
		if (depth >= maxDepth) { res.fixpoint = false; if (!depthIsDeclaredBound) res.capped = true; continue; }
		std::vector<Op> ops;
		{ auto base = rebuild(q); ops = h.enabled(*base); }
		for (auto& op : ops) {
			auto s = rebuild(q);
			int64_t qid = q.id;
			if (ctx.single || ctx.replaying) ctx.sub(render(qid, &op, 40));   // full detail only when a death is being reproduced
			else ctx.sub(label);
			Hist lazy{ [&, qid](std::size_t lastN) { return render(qid, &op, lastN); } };
			bool ok = h.apply(*s, op, true, lazy);
			++res.transitions;
			if (!ok) continue;
			std::string k = h.key(*s);
			if (seen.insert(k).second) {
				++res.states;
				if (res.states > maxStates) { res.fixpoint = false; res.capped = true; continue; }
				QItem m; m.id = int64_t(recs.size());
				recs.push_back(Rec{ qid, op, depth + 1, std::move(k) });
				if (h.clone(*s)) m.st = std::move(s);
				queue.push_back(std::move(m));
			}
		}
	}
	ctx.state(res.states);
	ctx.transition(res.transitions);
	if (res.capped) ctx.capHit(("bfs cap reached: " + label).c_str());
	return res;
}

} // namespace mc
