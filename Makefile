# setup: nothing has to be fetched; check binaries are (re)built on demand by run_check.sh from /repo's working tree.
.PHONY: setup manifest clean
setup:
	@mkdir -p build evidence replays
	@python3 -c "import json; json.load(open('MANIFEST.json')); print('setup ok')"
manifest:
	python3 mc/gen_manifest.py
clean:
	rm -rf build
