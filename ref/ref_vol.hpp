// Reference VOL encoder (with layout knobs) and strict decoder, written from DESIGN.md appendix A.
// Flat byte vectors, explicit little-endian put/get; shares nothing with src/Archive/VolFile.*.
#pragma once
#include "mc/mc.hpp"
#include <string>
#include <vector>
#include <algorithm>

namespace ref {

struct VolMember {
	std::string name;
	std::vector<uint8_t> stored;     // bytes inside the block (compressed form for compressed kinds)
	uint16_t kind = 0x100;           // 0x100 stored, 0x101 RLE, 0x102 LZ, 0x103 LZH
	uint32_t indexSize = 0;          // 'size' field of the index entry (set by encoder to stored.size() unless overridden)
	bool overrideIndexSize = false;
};

struct VolLayout {
	int unusedSlots = 0;             // trailing index slots with name offset 0xFFFFFFFF
	bool unusedGarbage = false;      // remaining bytes of unused slots: zero or garbage
	int extraStringPad = 0;          // additional zero bytes (multiple of 4) in the name table section
};

struct Field { std::size_t offset; int width; std::string name; };

struct VolImage {
	std::vector<uint8_t> bytes;
	std::vector<Field> fields;       // integer fields, for fault enumeration
	std::vector<uint32_t> blockOffsets;
};

inline int foldLower(unsigned char c) { return (c >= 'A' && c <= 'Z') ? c + 32 : c; }
inline int foldUpper(unsigned char c) { return (c >= 'a' && c <= 'z') ? c - 32 : c; }
inline int cmpFold(const std::string& a, const std::string& b, bool lower)
{
	std::size_t n = std::min(a.size(), b.size());
	for (std::size_t i = 0; i < n; ++i) {
		int x = lower ? foldLower((unsigned char)a[i]) : foldUpper((unsigned char)a[i]);
		int y = lower ? foldLower((unsigned char)b[i]) : foldUpper((unsigned char)b[i]);
		if (x != y) return x < y ? -1 : 1;
	}
	return a.size() < b.size() ? -1 : a.size() > b.size() ? 1 : 0;
}
inline bool equalFold(const std::string& a, const std::string& b) { return cmpFold(a, b, true) == 0; }

inline void putSection(std::vector<uint8_t>& v, const char* tag, uint32_t len, std::vector<Field>* fields, const std::string& name)
{
	mc::putStr(v, std::string(tag, 4));
	if (fields) fields->push_back({ v.size(), 4, name + ".length+flag" });
	mc::put32(v, (len & 0x7FFFFFFFu) | 0x80000000u);
}

// members must already be in the order they are to appear (callers sort them when a conforming archive is wanted)
inline VolImage encodeVol(const std::vector<VolMember>& members, const VolLayout& lay = VolLayout())
{
	VolImage img;
	auto& v = img.bytes;
	uint32_t SL = 0;
	for (auto& m : members) SL += uint32_t(m.name.size()) + 1;
	uint32_t PS = ((SL + 4 + 3) & ~3u) + uint32_t(lay.extraStringPad);
	uint32_t slots = uint32_t(members.size()) + uint32_t(lay.unusedSlots);
	uint32_t IL = 14 * slots, PI = (IL + 3) & ~3u;
	putSection(v, "VOL ", PS + PI + 24, &img.fields, "VOL");
	putSection(v, "volh", 0, &img.fields, "volh");
	putSection(v, "vols", PS, &img.fields, "vols");
	img.fields.push_back({ v.size(), 4, "stringTableLength" });
	mc::put32(v, SL);
	std::vector<uint32_t> nameOff;
	for (auto& m : members) { nameOff.push_back(uint32_t(v.size() - 28)); mc::putStr(v, m.name); v.push_back(0); }
	mc::putZeros(v, 24 + PS - v.size());
	putSection(v, "voli", IL, &img.fields, "voli");
	uint32_t off = 32 + PS + PI;
	for (std::size_t i = 0; i < members.size(); ++i) {
		const auto& m = members[i];
		std::string p = "entry" + std::to_string(i);
		img.fields.push_back({ v.size(), 4, p + ".nameOffset" }); mc::put32(v, nameOff[i]);
		img.fields.push_back({ v.size(), 4, p + ".blockOffset" }); mc::put32(v, off);
		img.fields.push_back({ v.size(), 4, p + ".size" }); mc::put32(v, m.overrideIndexSize ? m.indexSize : uint32_t(m.stored.size()));
		img.fields.push_back({ v.size(), 2, p + ".kind" }); mc::put16(v, m.kind);
		img.blockOffsets.push_back(off);
		off += 8 + ((uint32_t(m.stored.size()) + 3) & ~3u);
	}
	for (int u = 0; u < lay.unusedSlots; ++u) {
		img.fields.push_back({ v.size(), 4, "unused" + std::to_string(u) + ".nameOffset" });
		mc::put32(v, 0xFFFFFFFFu);
		for (int k = 0; k < 10; ++k) v.push_back(lay.unusedGarbage ? uint8_t(0xB0 + k + u) : 0);
	}
	mc::putZeros(v, PI - IL);
	for (std::size_t i = 0; i < members.size(); ++i) {
		const auto& m = members[i];
		mc::putStr(v, "VBLK");
		img.fields.push_back({ v.size(), 4, "block" + std::to_string(i) + ".length+flag" });
		mc::put32(v, (uint32_t(m.stored.size()) & 0x7FFFFFFFu) | 0x80000000u);
		v.insert(v.end(), m.stored.begin(), m.stored.end());
		mc::putZeros(v, (4 - m.stored.size() % 4) % 4);
	}
	return img;
}

struct ParsedVolEntry { std::string name; uint32_t nameOffset, blockOffset, size; uint16_t kind; std::vector<uint8_t> stored; uint32_t blockLength; };
struct ParsedVol { bool ok = false; std::string why; std::vector<ParsedVolEntry> entries; uint32_t slots = 0; bool sortedLower = false, sortedUpper = false; };

// strict decoder: everything the format description states is verified
inline ParsedVol parseVolStrict(const std::vector<uint8_t>& v)
{
	ParsedVol p;
	auto fail = [&](const std::string& w) { p.why = w; return p; };
	auto tagAt = [&](std::size_t o, const char* t) { return o + 4 <= v.size() && std::string(v.begin() + o, v.begin() + o + 4) == std::string(t, 4); };
	if (v.size() < 32) return fail("file shorter than the fixed header");
	if (!tagAt(0, "VOL ")) return fail("'VOL ' tag");
	uint32_t h = mc::get32(v, 4);
	if (!(h & 0x80000000u)) return fail("'VOL ' padding flag not set");
	uint32_t headerLen = h & 0x7FFFFFFFu;
	if (!tagAt(8, "volh") || mc::get32(v, 12) != 0x80000000u) return fail("'volh' tag/length (must be 0 with the padding flag)");
	if (!tagAt(16, "vols")) return fail("'vols' tag");
	uint32_t s = mc::get32(v, 20);
	if (!(s & 0x80000000u)) return fail("'vols' padding flag");
	uint32_t PS = s & 0x7FFFFFFFu;
	if (PS % 4) return fail("'vols' length not a multiple of 4");
	if (uint64_t(24) + PS + 8 > v.size()) return fail("'vols' section runs past the file");
	uint32_t SL = mc::get32(v, 24);
	if (uint64_t(SL) + 4 > PS) return fail("name table length " + std::to_string(SL) + " does not fit the section of " + std::to_string(PS));
	for (std::size_t i = 28 + SL; i < 24 + PS; ++i) if (v[i] != 0) return fail("name table padding not zero at " + std::to_string(i));
	std::size_t io = 24 + PS;
	if (!tagAt(io, "voli")) return fail("'voli' tag at " + std::to_string(io));
	uint32_t ih = mc::get32(v, io + 4);
	if (!(ih & 0x80000000u)) return fail("'voli' padding flag");
	uint32_t IL = ih & 0x7FFFFFFFu;
	if (IL % 14) return fail("'voli' length " + std::to_string(IL) + " is not a multiple of 14");
	uint32_t PI = (IL + 3) & ~3u;
	if (headerLen != PS + PI + 24) return fail("'VOL ' length " + std::to_string(headerLen) + " != padded tables + 24 = " + std::to_string(PS + PI + 24));
	std::size_t eo = io + 8;
	if (eo + PI > v.size()) return fail("index runs past the file");
	for (std::size_t i = eo + IL; i < eo + PI; ++i) if (v[i] != 0) return fail("index padding not zero");
	p.slots = IL / 14;
	bool unusedSeen = false;
	uint32_t expectName = 0;
	std::size_t expectBlock = eo + PI;
	for (uint32_t k = 0; k < p.slots; ++k) {
		std::size_t o = eo + 14 * k;
		uint32_t no = mc::get32(v, o);
		if (no == 0xFFFFFFFFu) { unusedSeen = true; continue; }
		if (unusedSeen) return fail("used entry after an unused one");
		ParsedVolEntry e;
		e.nameOffset = no; e.blockOffset = mc::get32(v, o + 4); e.size = mc::get32(v, o + 8); e.kind = mc::get16(v, o + 12);
		if (no != expectName) return fail("entry " + std::to_string(k) + " name offset " + std::to_string(no) + " expected " + std::to_string(expectName));
		std::size_t q = 28 + no;
		while (q < 28 + SL && v[q] != 0) e.name.push_back(char(v[q++]));
		if (q >= 28 + SL) return fail("name " + std::to_string(k) + " not NUL terminated inside the table");
		expectName = uint32_t(q + 1 - 28);
		if (e.blockOffset % 4) return fail("block offset not 4-aligned");
		if (e.blockOffset != expectBlock) return fail("entry " + std::to_string(k) + " block offset " + std::to_string(e.blockOffset) + " expected " + std::to_string(expectBlock) + " (blocks contiguous)");
		if (!tagAt(e.blockOffset, "VBLK")) return fail("'VBLK' tag of member " + std::to_string(k));
		uint32_t bh = mc::get32(v, e.blockOffset + 4);
		if (!(bh & 0x80000000u)) return fail("block padding flag");
		e.blockLength = bh & 0x7FFFFFFFu;
		if (e.kind == 0x100 && e.blockLength != e.size) return fail("block length " + std::to_string(e.blockLength) + " != index size " + std::to_string(e.size));
		std::size_t end = std::size_t(e.blockOffset) + 8 + e.blockLength;
		std::size_t pend = (end + 3) & ~std::size_t(3);
		if (pend > v.size()) return fail("block " + std::to_string(k) + " runs past the file");
		for (std::size_t i = end; i < pend; ++i) if (v[i] != 0) return fail("block padding not zero");
		e.stored.assign(v.begin() + e.blockOffset + 8, v.begin() + end);
		expectBlock = pend;
		p.entries.push_back(std::move(e));
	}
	if (expectName != SL) return fail("names use " + std::to_string(expectName) + " bytes, table says " + std::to_string(SL));
	if (expectBlock != v.size()) return fail("last block ends at " + std::to_string(expectBlock) + ", file has " + std::to_string(v.size()) + " bytes");
	// binary-search order: "case-insensitive" is taken in the strcasecmp/_stricmp sense (fold to lower case), the
	// order a consumer's binary search uses; an order that is ascending only under upper-case folding (differs for
	// '_' '[' '\\' ']' '^' '`' against letters) is not accepted
	p.sortedLower = p.sortedUpper = true;
	for (std::size_t i = 1; i < p.entries.size(); ++i) {
		if (cmpFold(p.entries[i - 1].name, p.entries[i].name, true) >= 0) p.sortedLower = false;
		if (cmpFold(p.entries[i - 1].name, p.entries[i].name, false) >= 0) p.sortedUpper = false;
	}
	if (!p.sortedLower) return fail(p.sortedUpper ? "entries ascending only under upper-case folding, not in strcasecmp (lower-case folding) order" : "entries not in strictly ascending case-insensitive order");
	// reference binary search finds every member
	for (std::size_t t = 0; t < p.entries.size(); ++t) {
		std::size_t lo = 0, hi = p.entries.size(); bool found = false;
		while (lo < hi) {
			std::size_t mid = (lo + hi) / 2;
			int c = cmpFold(p.entries[t].name, p.entries[mid].name, true);
			if (c == 0) { found = mid == t; break; }
			if (c < 0) hi = mid; else lo = mid + 1;
		}
		if (!found) return fail("binary search does not find member " + std::to_string(t));
	}
	p.ok = true;
	return p;
}

} // namespace ref
