"""Per-property registry: harness source, build configurations, bounds text for the evidence file."""

CHECKS = {
    'C12': dict(
        technique='explicit-state reachability (BFS to fixpoint) over the real reader objects in lock-step with a reference cursor',
        level_text='Every operation history of any length over a boundary-valued alphabet (about 330 operation instances per state: Read/ReadPartial/Peek/Seek*/typed/prefixed/string/Slice with arguments 0,1,rem-1,rem,rem+1,len,2^31,2^32,2^63,2^64-pos,2^64-1,...) is covered because the reachable product state graph (real reader state x reference position) is explored to a fixpoint for 10 sources x 5 backends; each edge compares returned bytes, counts, Position(), Length() and error/no error with the reference, under ASan+UBSan with exact-size destination buffers.',
        level_note='Trusts g++/libstdc++/ASan, tmpfs files, and the 60-line reference cursor in the harness. Values outside the boundary sets and sources longer than 10 bytes are not explored. Weaker reading: after a rejected size-prefixed or string read the cursor may be at the old position or past the prefix/scanned data.',
        src='checks/c12_readers.cpp',
        runs=[dict(cfg='asan')],
        rule='explicit-state BFS to a fixpoint over the product (real reader, reference cursor); a case = one (source, backend) pair; '
             'a state = reader private state + model position; every operation of the boundary-valued alphabet is applied in every reachable state',
        bounds={'quick': '10 sources (len 0..10) x 5 backends (memory, memory slice, file slice, slice of slice, slice-at-position); ~330 op instances per state; fixpoint',
                'thorough': 'same as quick (the state graphs are small and explored to a fixpoint at both tiers)'},
        must_hit={'any': ['read/in-bounds', 'read/out-of-bounds', 'read/wraps-64-bit', 'readpartial/short', 'readpartial/full', 'peek/in-bounds',
                          'peek/out-of-bounds', 'seek/in-bounds', 'seek/out-of-bounds', 'typed/prefixed-ok', 'typed/prefixed-reject',
                          'typed/cstr-ok', 'typed/cstr-reject', 'slice/contained', 'slice/not-contained', 'slice/wraps-64-bit']},
        assumptions=['x86-64 little endian; harness reads private cursor fields via -fno-access-control for state keys only',
                     'argument values outside the boundary sets are not explored'],
    ),
}

CHECKS['C13'] = dict(
    src='checks/c13_slices.cpp',
    runs=[dict(cfg='asan')],
    technique='small-scope exhaustive construction grid + joint explicit-state BFS over several live readers + lock-step BFS across five backends',
    level_text='(a) every (start,length) boundary pair incl. 2^63, 2^64-1, 2^64-start at every parent position, both Slice forms, nested to depth 3, on memory readers, file readers and file slices: accepted iff contained (128-bit arithmetic), the slice exposes exactly its window, refusal leaves the parent untouched; (b) the joint state graph of parent + two overlapping slices + a copy + a nested slice under 7 operations each is explored to a fixpoint in memory and to a depth bound on files, and two member streams of a VolFile/ClmFile are interleaved with archive calls: every object must follow its own reference cursor; (c) all in-bounds histories (fixpoint) are driven in lock-step over memory, file, slice-of-memory, slice-of-file and slice-of-slice and must give identical bytes, positions and lengths.',
    level_note='Trusts g++/libstdc++/ASan and tmpfs. Parent lengths 0,1,4,6; file-backed joint graphs are depth-bounded (4 quick / 6 thorough) because each transition replays its history on freshly opened files.',
    rule='case = one construction grid (backend x parent length), one joint system, or one lock-step system; states = distinct product states / accepted slices; transitions = operations executed and compared',
    bounds={'quick': 'grid: 3 backends x parent lengths {0,1,4,6} x all positions x ~12x11 (start,len) pairs x depth 3; joint: memory fixpoint, file/VOL/CLM depth 4; equivalence: lengths {0,1,3,5} fixpoint',
            'thorough': 'as quick with file/VOL/CLM joint depth 6'},
    must_hit={'any': ['grid/accepted', 'grid/refused-by-wrap', 'grid/refused-out-of-range', 'interleaving/edges', 'interleaving/archive-cases', 'equivalence/edges', 'equivalence/partial-read-past-end']},
    assumptions=['archives for the member-stream interleavings are produced by the library itself (their format is checked in C01-C03)'],
)

CHECKS['C14'] = dict(
    src='checks/c14_writers.cpp',
    runs=[dict(cfg='asan')],
    technique='explicit-state BFS to a fixpoint over (writer private state, buffer bytes, reference vector) plus small-scope exhaustive products for prefixes, stream copies and open flags',
    level_text='MemoryWriter: all histories of any length over Write/typed writes/Seek* with boundary arguments (0,1,rem-1,rem,rem+1,len,2^31,2^32,2^63,2^64-pos,2^64-1) on exact-size heap buffers of length 0..4 (quick) / 0..6 (thorough), explored to a fixpoint with position, length and the complete buffer compared to a reference vector after every edge (ASan catches any byte written outside). DynamicMemoryWriter: same with the content length capped. Size prefixes: every prefix type x sizes {0,1,2,max-1,max,max+1,max+2} x three container types, refusal iff too large, exact little-endian encoding, Read<S> is the inverse. Stream copy: full product of 8 chunk sizes x 21+ source lengths around every chunk boundary x start positions x 5 reader backends x 3 writer kinds. FileWriter: all 16 flag values x file exists/absent x directory exists/absent, disk content compared.',
    level_note='Trusts g++/libstdc++/ASan, tmpfs. Weaker readings: a refused size-prefixed write may already have emitted the prefix; for open modes with neither Truncate nor Append only the existence rules are asserted; directory creation as a side effect of a refused open is not judged.',
    rule='case = one BFS (buffer length) or one product family; states = distinct product states; transitions = writer operations executed and compared',
    bounds={'quick': 'MemoryWriter n in {0,1,2,4} fixpoint; DynamicMemoryWriter length cap 4 (with and without preallocation); copy chunk sizes {1,2,3,4,7,8,16,131072}',
            'thorough': 'MemoryWriter n in {0,1,2,4,5,6} fixpoint; DynamicMemoryWriter cap 6; rest as quick'},
    must_hit={'any': ['memwriter/write-fits', 'memwriter/write-wraps', 'memwriter/write-too-big', 'memwriter/seek-fits', 'memwriter/seek-refused', 'dynwriter/append', 'dynwriter/write-wraps',
                      'dynwriter/zero-fill', 'dynwriter/truncate', 'dynwriter/refusals', 'prefix/too-large-refused', 'prefix/fits', 'typed/inverse', 'copy/multi-chunk', 'copy/single-chunk',
                      'filewriter/invalid-flags', 'filewriter/existing-not-allowed', 'filewriter/new-not-allowed', 'filewriter/truncate-or-new', 'filewriter/append-existing']},
    assumptions=['allocation requests above 64 MiB are refused by the harness allocator (environment model)'],
)

NOT_APPLICABLE = {}
