// Reference description of the Outpost 2 map / saved-game layout (DESIGN.md appendix A): value type, serializer with
// field map, prediction of the library writer's output, saved-game embedding. Flat byte vectors only.
#pragma once
#include <algorithm>
#include "mc/mc.hpp"
#include "ref_vol.hpp"   // Field
#include <array>
#include <string>
#include <vector>

namespace ref {

struct RSource { std::string name; uint32_t numTiles = 0; };
struct RGroup { uint32_t w = 0, h = 0; std::vector<uint32_t> idx; std::string name; };

struct RMap {
	uint32_t tag = 0x1011;
	uint32_t savedGame = 0;              // raw 32-bit word in the file
	uint32_t lgWidth = 5, height = 2;
	std::vector<uint32_t> tiles;         // height << lgWidth words
	int32_t clip[4] = { 0, 0, 0, 0 };
	std::vector<RSource> sources;
	std::vector<std::array<uint16_t, 4>> mappings;
	std::vector<std::array<uint8_t, 264>> terrain;
	uint32_t tag2 = 0x1011, tag3 = 0x1011;
	std::vector<RGroup> groups;
	uint32_t undocumented = 0;
	std::vector<uint8_t> trailing;

	uint64_t width() const { return uint64_t(1) << lgWidth; }
	void fillTiles(int mode)
	{
		tiles.assign(std::size_t(uint64_t(height) << lgWidth), 0);
		for (std::size_t i = 0; i < tiles.size(); ++i) tiles[i] = mode == 0 ? uint32_t(i * 2654435761u + 0x9E3779B9u) : mode == 1 ? 0u : 0xFFFFFFFFu;
	}
	void setTag(uint32_t t) { tag = tag2 = tag3 = t; }
};

inline void putCounted(std::vector<uint8_t>& v, const std::string& s, std::vector<Field>* f, const std::string& name)
{
	if (f) f->push_back({ v.size(), 4, name + ".length" });
	mc::put32(v, uint32_t(s.size())); mc::putStr(v, s);
}

// the map portion shared by map files and saved games: header .. terrain types
inline void putMapBeginning(std::vector<uint8_t>& v, const RMap& m, std::vector<Field>* f)
{
	auto F = [&](int w, const std::string& n) { if (f) f->push_back({ v.size(), w, n }); };
	F(4, "versionTag"); mc::put32(v, m.tag);
	F(4, "savedGameFlag"); mc::put32(v, m.savedGame);
	F(4, "lgWidth"); mc::put32(v, m.lgWidth);
	F(4, "height"); mc::put32(v, m.height);
	F(4, "tilesetCount"); mc::put32(v, uint32_t(m.sources.size()));
	for (auto t : m.tiles) mc::put32(v, t);
	for (int i = 0; i < 4; ++i) mc::put32(v, uint32_t(m.clip[i]));
	for (std::size_t i = 0; i < m.sources.size(); ++i) {
		putCounted(v, m.sources[i].name, f, "source" + std::to_string(i) + ".name");
		if (!m.sources[i].name.empty()) { F(4, "source" + std::to_string(i) + ".numTiles"); mc::put32(v, m.sources[i].numTiles); }
	}
	mc::putStr(v, std::string("TILE SET\x1a", 9)); v.push_back(0);
	F(4, "mappingCount"); mc::put32(v, uint32_t(m.mappings.size()));
	for (auto& e : m.mappings) for (int k = 0; k < 4; ++k) mc::put16(v, e[k]);
	F(4, "terrainCount"); mc::put32(v, uint32_t(m.terrain.size()));
	for (auto& t : m.terrain) v.insert(v.end(), t.begin(), t.end());
}

inline std::vector<uint8_t> encodeMap(const RMap& m, std::vector<Field>* f = nullptr, std::size_t* consumed = nullptr)
{
	std::vector<uint8_t> v;
	putMapBeginning(v, m, f);
	auto F = [&](int w, const std::string& n) { if (f) f->push_back({ v.size(), w, n }); };
	F(4, "versionTag2"); mc::put32(v, m.tag2);
	F(4, "versionTag3"); mc::put32(v, m.tag3);
	F(4, "groupCount"); mc::put32(v, uint32_t(m.groups.size()));
	F(4, "undocumented"); mc::put32(v, m.undocumented);
	for (std::size_t i = 0; i < m.groups.size(); ++i) {
		const auto& g = m.groups[i];
		F(4, "group" + std::to_string(i) + ".width"); mc::put32(v, g.w);
		F(4, "group" + std::to_string(i) + ".height"); mc::put32(v, g.h);
		for (auto x : g.idx) mc::put32(v, x);
		putCounted(v, g.name, f, "group" + std::to_string(i) + ".name");
	}
	if (consumed) *consumed = v.size();
	v.insert(v.end(), m.trailing.begin(), m.trailing.end());
	return v;
}

// what Map::Write must produce for a map read from encodeMap(m): flag normalised, undocumented word regenerated, no trailing bytes
inline std::vector<uint8_t> predictWritten(const RMap& m)
{
	RMap n = m;
	n.savedGame = m.savedGame ? 1 : 0;
	n.undocumented = m.groups.empty() ? 0 : uint32_t(m.groups.size() - 1);
	n.trailing.clear();
	return encodeMap(n);
}

// offset of the undocumented tile-group header word in predictWritten(m). The statement says that this word is regenerated, not
// to what: comparisons of written bytes leave it out (the library's own choice is only required to be the same every time)
inline std::size_t undocumentedWordOffset(const RMap& m)
{
	RMap n = m; n.savedGame = m.savedGame ? 1 : 0; n.trailing.clear();
	std::vector<Field> f;
	encodeMap(n, &f);
	for (auto& x : f) if (x.name == "undocumented") return x.offset;
	return std::size_t(-1);
}
// true iff the two serialisations agree everywhere except, possibly, in that word
inline bool sameExceptUndocumentedWord(const std::vector<uint8_t>& written, const std::vector<uint8_t>& predicted, std::size_t off, std::size_t* firstDifference = nullptr)
{
	std::size_t n = std::min(written.size(), predicted.size());
	for (std::size_t i = 0; i < n; ++i) if (written[i] != predicted[i] && !(i >= off && i < off + 4)) { if (firstDifference) *firstDifference = i; return false; }
	if (written.size() != predicted.size()) { if (firstDifference) *firstDifference = n; return false; }
	return true;
}

// saved game: 0x1E025 opaque bytes, map beginning, tag, unit block, tag
struct RSavedUnits { uint32_t unitCount = 0, lastUsed = 0, nextFree = 0, firstFree = 0, sizeOfUnit = 120; uint32_t n1 = 0, n2 = 0; bool withFreeList() const { return firstFree != nextFree; }
	uint64_t tableRecordBytes = 120;   // bytes per record actually present in the file's unit table (120 in the format; other values build files in which the table follows the sizeOfUnit field)
};

inline std::vector<uint8_t> encodeSavedGame(const RMap& m, const RSavedUnits& u, std::vector<Field>* f = nullptr, std::size_t* consumed = nullptr)
{
	std::vector<uint8_t> v(0x1E025);
	for (std::size_t i = 0; i < v.size(); ++i) v[i] = uint8_t(i * 31 + 7);
	putMapBeginning(v, m, f);
	auto F = [&](int w, const std::string& n) { if (f) f->push_back({ v.size(), w, n }); };
	F(4, "versionTag2"); mc::put32(v, m.tag2);
	F(4, "unitCount"); mc::put32(v, u.unitCount);
	F(4, "lastUsedUnitIndex"); mc::put32(v, u.lastUsed);
	F(4, "nextFreeUnitSlotIndex"); mc::put32(v, u.nextFree);
	F(4, "firstFreeUnitSlotIndex"); mc::put32(v, u.firstFree);
	F(4, "sizeOfUnit"); mc::put32(v, u.sizeOfUnit);
	F(4, "objectCount1"); mc::put32(v, u.n1);
	F(4, "objectCount2"); mc::put32(v, u.n2);
	for (uint32_t i = 0; i < u.n1; ++i) for (int k = 0; k < 512; ++k) v.push_back(uint8_t(k + i));
	for (uint32_t i = 0; i < u.n2; ++i) mc::put32(v, i * 3);
	mc::put32(v, 11); mc::put32(v, 12);
	for (std::size_t i = 0; i < 2047 * u.tableRecordBytes; ++i) v.push_back(uint8_t(i));
	if (u.withFreeList()) for (uint32_t i = 0; i < 2048; ++i) mc::put32(v, i);
	F(4, "versionTag3"); mc::put32(v, m.tag3);
	if (consumed) *consumed = v.size();
	v.insert(v.end(), m.trailing.begin(), m.trailing.end());
	return v;
}

// the format's tile addressing: 32-column blocks
inline uint64_t tileIndex(uint64_t x, uint64_t y, uint64_t height) { return ((x >> 5) * height + y) * 32 + (x & 31); }

} // namespace ref
