// C06 - map read/write round-trips every field and is byte-stable; edits change exactly what they name.
//  (1) small-scope enumeration of well-formed maps (12 dimensions, deviation-bounded / structural product)
//  (2) explicit-state BFS over public edit histories, in lock-step with edits applied to the reference map
#include "mc/mc.hpp"
#include <map>
#include "mc/explore.hpp"
#include "checks/map_common.hpp"
#include "Stream/FileReader.h"
#include "Map/CellType.h"
#include <memory>
#include <set>
#include <functional>

using namespace OP2Utility;
using mc::Ctx;

namespace {

std::vector<std::vector<int>> gConfigs;
const std::size_t kChunk = 200;

void enumerate(Ctx& ctx)
{
	gConfigs.clear();
	const auto& D = mapc::dimSizes();
	std::vector<int> cur(mapc::kDims, 0);
	if (!ctx.thorough) {
		// base + all single and pair deviations
		std::function<void(int, int)> rec = [&](int d, int dev) {
			if (d == mapc::kDims) { gConfigs.push_back(cur); return; }
			for (int v = 0; v < D[d]; ++v) { if (v && dev == 2) continue; cur[d] = v; rec(d + 1, dev + (v ? 1 : 0)); }
			cur[d] = 0;
		};
		rec(0, 0);
		return;
	}
	// structural core in full product; data dimensions with at most two deviations
	const std::vector<int> core = { 0, 1, 3, 4, 6, 9 }, data = { 2, 5, 7, 8, 10, 11 };
	std::function<void(std::size_t, int)> recData = [&](std::size_t i, int dev) {
		if (i == data.size()) { gConfigs.push_back(cur); return; }
		int d = data[i];
		for (int v = 0; v < D[d]; ++v) { if (v && dev == 2) continue; cur[d] = v; recData(i + 1, dev + (v ? 1 : 0)); }
		cur[d] = 0;
	};
	std::function<void(std::size_t)> recCore = [&](std::size_t i) {
		if (i == core.size()) { recData(0, 0); return; }
		int d = core[i];
		for (int v = 0; v < D[d]; ++v) { cur[d] = v; recCore(i + 1); }
		cur[d] = 0;
	};
	recCore(0);
}

void checkMapR(Ctx& ctx, const ref::RMap& r, const std::string& key);
void checkMap(Ctx& ctx, const std::vector<int>& cfg) { checkMapR(ctx, mapc::makeMap(cfg), mapc::describe(cfg)); }

// a map of the size the game ships: 512 x 256 tiles, 512 tileset source slots (most of them empty), 2012 mappings,
// 5 terrain types, 48 tile groups with names of every length up to 47
void stockSizeMap(Ctx& ctx)
{
	ref::RMap m;
	m.lgWidth = 9; m.height = 256; m.fillTiles(0);
	m.clip[0] = 32; m.clip[1] = 0; m.clip[2] = 479; m.clip[3] = 254;
	for (int i = 0; i < 512; ++i) { if (i % 37 == 3 || i < 13) m.sources.push_back({ "well" + std::to_string(1000 + i), uint32_t(1 + i % 200) }); else m.sources.push_back({ "", 0 }); }
	for (int i = 0; i < 2012; ++i) m.mappings.push_back({ uint16_t(i % 13), uint16_t(i % 200), uint16_t(i % 5), uint16_t(i * 3) });
	for (auto& t : m.tiles) { uint32_t idx = (t >> 5) & 0x7FFu; t = (t & ~(0x7FFu << 5)) | (uint32_t(idx % m.mappings.size()) << 5); }   // every tile names an existing mapping entry
	for (int i = 0; i < 5; ++i) { std::array<uint8_t, 264> t; for (int k = 0; k < 264; ++k) t[k] = uint8_t(k * 5 + i * 31 + 2); m.terrain.push_back(t); }
	for (int g = 0; g < 48; ++g) { ref::RGroup G; G.w = uint32_t(1 + g % 7); G.h = uint32_t(1 + (g * 3) % 5); G.name = std::string(std::size_t(g), char('a' + g % 26)); for (uint32_t i = 0; i < G.w * G.h; ++i) G.idx.push_back(i * 11 + uint32_t(g)); m.groups.push_back(G); }
	m.undocumented = uint32_t(m.groups.size() - 1);
	checkMapR(ctx, m, "stock-size map (512x256, 512 source slots, 2012 mappings, 5 terrain types, 48 groups)");
	ctx.count("accept/stock-size-map");
}

void checkMapR(Ctx& ctx, const ref::RMap& r, const std::string& key)
{
	ctx.sub(key);
	std::size_t consumed = 0;
	auto bytes = ref::encodeMap(r, nullptr, &consumed);
	auto bad = [&](const std::string& c, const std::string& d) { ctx.violation("C06/" + c, key, d); };
	Map m;
	auto o = mc::guarded([&] { m = mapc::readMap(bytes); });
	ctx.transition();
	// acceptance is required where some Map::Write output has this form (flag 0/1, regenerated word), also with trailing bytes
	// The value of the regenerated word is the library's choice: it is learnt from what the library wrote for a map with
	// that many tile groups (until then: number of groups - 1, or 0 without groups, as the pinned tree does)
	static std::map<std::size_t, uint32_t> regeneratedWord;
	auto itw = regeneratedWord.find(r.groups.size());
	uint32_t conventional = itw != regeneratedWord.end() ? itw->second : (r.groups.empty() ? 0 : uint32_t(r.groups.size() - 1));
	bool writerForm = r.savedGame <= 1 && r.undocumented == conventional;
	// degenerate shapes (narrower than one 32-column block, no rows, a tile group without area) need not be accepted
	bool degenerate = r.lgWidth < 5 || r.height == 0 || r.lgWidth > 9 || r.height > 256;   // also: larger than the game supports
	for (auto t : r.tiles) if (((t >> 5) & 0x7FFu) >= r.mappings.size()) degenerate = true;   // a tile naming a mapping entry that is not there
	for (auto& g : r.groups) if (g.idx.empty()) degenerate = true;
	if (r.lgWidth == 0) ctx.count("shape/width-1");
	if (r.height == 0) ctx.count("shape/height-0");
	for (auto& g : r.groups) if (g.idx.empty()) ctx.count("shape/zero-area-group");
	for (auto& s : r.sources) if (s.name.empty()) ctx.count("shape/empty-source-name");
	if (o.cls != 'R') {
		if (writerForm && !degenerate) bad("well-formed-map-rejected", o.what);
		else ctx.count(writerForm ? "accept/degenerate-shape-rejected" : "accept/unnormalised-variant-rejected");
		return;
	}
	ctx.count(writerForm ? "accept/writer-form" : "accept/unnormalised-variant");
	if (!r.trailing.empty()) ctx.count("accept/with-trailing-bytes");
	std::string diff = mapc::compare(m, r);
	if (!diff.empty()) { bad("parsed-field-differs", diff); return; }
	std::vector<uint8_t> w1;
	auto ow = mc::guarded([&] { w1 = mapc::writeMap(m); });
	ctx.transition();
	if (ow.cls != 'R') { bad("write-throws", ow.what); return; }
	auto expect = ref::predictWritten(r);
	const std::size_t wordAt = ref::undocumentedWordOffset(r);
	std::size_t firstDiff = 0;
	if (!ref::sameExceptUndocumentedWord(w1, expect, wordAt, &firstDiff)) {
		bad("written-bytes-differ-from-consumed", "lengths " + std::to_string(w1.size()) + "/" + std::to_string(expect.size()) + " first difference at byte " + std::to_string(firstDiff));
		return;
	}
	if (wordAt + 4 <= w1.size()) regeneratedWord[r.groups.size()] = mc::get32(w1, wordAt);
	Map m2;
	auto o2 = mc::guarded([&] { m2 = mapc::readMap(w1); });
	ctx.transition();
	if (o2.cls != 'R') { bad("reread-rejected", o2.what); return; }
	if (mapc::dump(m2) != mapc::dump(m)) { bad("reread-differs", "a field changed across write -> read"); return; }
	auto w2 = mapc::writeMap(m2);
	ctx.transition();
	if (w2 != w1) { bad("write-not-byte-stable", ""); return; }
	// a rejected read in between must not leak into the next one: cut the input inside its last consumed field, expect a
	// refusal, read the full input again and compare every field with the first result
	{
		std::size_t consumedLen = bytes.size() - r.trailing.size();
		std::size_t cut = consumedLen > 2 ? consumedLen - 2 : 0;
		std::vector<uint8_t> shortBytes(bytes.begin(), bytes.begin() + cut);
		Map junk, again;
		auto oc = mc::guarded([&] { junk = mapc::readMap(shortBytes); });
		auto oa = mc::guarded([&] { again = mapc::readMap(bytes); });
		ctx.transition(2);
		if (oc.cls == 'R') { bad("truncated-input-accepted", "cut at " + std::to_string(cut)); return; }
		if (oa.cls != 'R' || mapc::dump(again) != mapc::dump(m)) { bad("read-after-a-rejected-read-differs", oa.what); return; }
		ctx.count("reads/after-a-rejected-read");
	}
	// the file-name overloads are the same reader and writer behind a FileReader / FileWriter
	{
		std::string dir = ctx.scratch(), in = dir + "/in.map", out = dir + "/out.map";
		mc::writeFile(in, bytes);
		Map mf; std::vector<uint8_t> wf;
		auto of = mc::guarded([&] { mf = Map::ReadMap(in); mf.Write(out); wf = mc::readFile(out); });
		ctx.transition(2);
		if (of.cls != 'R') { bad("file-overloads-throw", of.what); return; }
		if (mapc::dump(mf) != mapc::dump(m)) { bad("file-overload-read-differs-from-stream-read", ""); return; }
		if (wf != w1) { bad("file-overload-write-differs-from-stream-write", std::to_string(wf.size()) + " bytes"); return; }
		// the overloads taking a temporary stream; writing over an existing longer file replaces it
		Map mt; std::vector<uint8_t> wt;
		auto ot = mc::guarded([&] { mt = Map::ReadMap(Stream::FileReader(in)); mc::writeFile(out, std::vector<uint8_t>(w1.size() + 999, 0xEE)); mt.Write(out); wt = mc::readFile(out); });
		ctx.transition(2);
		if (ot.cls != 'R') { bad("temporary-stream-overloads-throw", ot.what); return; }
		if (mapc::dump(mt) != mapc::dump(m)) { bad("temporary-stream-overload-read-differs", ""); return; }
		if (wt != w1) { bad("write-over-existing-longer-file-differs", std::to_string(wt.size()) + " bytes"); return; }
		ctx.count("file-overloads/round-trips");
	}
	ctx.state(); ctx.trace();
	ctx.outcome(mc::fnv(w1.data(), w1.size()));
}

// ---- edit histories ----
enum EKind { eCell, eLava, eTag, eTrim };
struct EOp { int kind; uint32_t a = 0; uint32_t x = 0, y = 0; };

struct Edits {
	using Op = EOp;
	struct State { Map m; ref::RMap r; };
	Ctx& ctx; ref::RMap seed; std::string name;
	std::unique_ptr<State> fresh()
	{
		auto s = std::make_unique<State>();
		s->r = seed; s->r.savedGame = seed.savedGame ? 1 : 0;
		s->m = mapc::readMap(ref::encodeMap(seed));
		return s;
	}
	std::unique_ptr<State> clone(const State& s) { return std::make_unique<State>(s); }
	std::string key(const State& s) { auto b = ref::encodeMap(s.r); return mapc::dump(s.m) + "|" + std::string(b.begin(), b.end()); }
	std::string show(const Op& o)
	{
		switch (o.kind) {
		case eCell: return "SetCellType(" + std::to_string(o.a) + "," + std::to_string(o.x) + "," + std::to_string(o.y) + ")";
		case eLava: return "SetLavaPossible(" + std::to_string(o.a) + "," + std::to_string(o.x) + "," + std::to_string(o.y) + ")";
		case eTag: return "SetVersionTag(" + std::to_string(o.a) + ")";
		default: return "TrimTilesetSources()";
		}
	}
	std::vector<Op> enabled(const State& s)
	{
		std::vector<Op> v;
		uint32_t W = uint32_t(s.r.width()), H = s.r.height;
		std::set<std::pair<uint32_t, uint32_t>> pos = { { 0, 0 }, { W - 1, 0 }, { 0, H - 1 }, { W - 1, H - 1 }, { 31, 0 } };
		if (W > 32) pos.insert({ 32, 0 });
		if (H > 2) { pos.insert({ 0, H / 2 }); pos.insert({ W - 1, H / 2 }); pos.insert({ 5, H - 2 }); }   // rows in the middle (heights need not be powers of two)
		for (auto& p : pos) { for (uint32_t c : { 0u, 15u, 16u, 31u }) v.push_back({ eCell, c, p.first, p.second }); for (uint32_t b : { 0u, 1u }) v.push_back({ eLava, b, p.first, p.second }); }
		for (uint32_t t : { 0x1010u, 0x1011u, 0x100Fu, 0xFFFFFFFFu }) v.push_back({ eTag, t });
		v.push_back({ eTrim });
		return v;
	}
	bool apply(State& s, const Op& op, bool check, const mc::Hist& hist)
	{
		auto bad = [&](const std::string& c, const std::string& d) { if (check) ctx.violation("C06/edit/" + c, name + " " + hist.str(), d); return false; };
		mc::Outcome o;
		switch (op.kind) {
		case eCell: {
			o = mc::guarded([&] { s.m.SetCellType(static_cast<CellType>(op.a), op.x, op.y); });
			auto& w = s.r.tiles[std::size_t(ref::tileIndex(op.x, op.y, s.r.height))]; w = (w & ~0x1Fu) | op.a;
			break;
		}
		case eLava: {
			o = mc::guarded([&] { s.m.SetLavaPossible(op.a != 0, op.x, op.y); });
			auto& w = s.r.tiles[std::size_t(ref::tileIndex(op.x, op.y, s.r.height))]; w = (w & ~(1u << 28)) | (op.a ? (1u << 28) : 0);
			break;
		}
		case eTag: o = mc::guarded([&] { s.m.SetVersionTag(op.a); }); s.r.setTag(op.a); break;
		default: {
			o = mc::guarded([&] { s.m.TrimTilesetSources(); });
			std::vector<ref::RSource> keep; for (auto& x : s.r.sources) if (!x.name.empty() && x.numTiles != 0) keep.push_back(x);
			s.r.sources = keep;
		}
		}
		if (o.cls != 'R') return bad("edit-throws", show(op) + ": " + o.what);
		if (!check) return true;
		ctx.count("edit/edges");
		std::vector<uint8_t> w;
		auto ow = mc::guarded([&] { w = mapc::writeMap(s.m); });
		if (ow.cls != 'R') return bad("write-after-edit-throws", ow.what);
		auto expect = ref::predictWritten(s.r);
		std::size_t i = 0;
		if (!ref::sameExceptUndocumentedWord(w, expect, ref::undocumentedWordOffset(s.r), &i)) {
			return bad(std::string("edit-changed-something-else/") + show(op).substr(0, show(op).find('(')), "serialised map differs from the reference map with the same edit at byte " + std::to_string(i) + " (lengths " + std::to_string(w.size()) + "/" + std::to_string(expect.size()) + ")");
		}
		Map back;
		auto orr = mc::guarded([&] { back = mapc::readMap(w); });
		bool tagOk = s.r.tag >= 0x1010;
		if (tagOk) {
			if (orr.cls != 'R') return bad("reread-after-edit-rejected", orr.what);
			if (mapc::dump(back) != mapc::dump(s.m)) return bad("reread-after-edit-differs", "");
		}
		else {
			// a tag below the minimum: the statement does not say the reader must refuse it; if it is accepted the round trip must hold
			ctx.count("edit/low-version-tag-written");
			if (orr.cls == 'R') { ctx.count("edit/low-version-tag-accepted-by-reader"); if (mapc::dump(back) != mapc::dump(s.m)) return bad("reread-after-edit-differs", "low version tag"); }
		}
		return true;
	}
};

std::size_t nChunks() { return (gConfigs.size() + kChunk - 1) / kChunk; }

void runCase(std::size_t i, Ctx& ctx)
{
	if (i < nChunks()) {
		for (std::size_t k = i * kChunk; k < std::min(gConfigs.size(), (i + 1) * kChunk); ++k) checkMap(ctx, gConfigs[k]);
		if (i == 1) ctx.sample("well-formed map: " + mapc::describe(gConfigs[i * kChunk + 7]) + " -> ReadMap, compare every field, Write == predicted bytes, re-read equal, second Write identical");
		return;
	}
	std::size_t k = i - nChunks();
	if (k == 6) { stockSizeMap(ctx); return; }
	std::vector<int> cfg(mapc::kDims, 0);
	if (k & 1) cfg[0] = 4;                 // 64 wide
	if (k & 2) cfg[6] = 5;                 // sources with empty entries
	if (k == 4) cfg[6] = 7;                // an empty source in front of several used ones
	if (k == 5) cfg[6] = 8;                // empty sources in between and at the end
	if (k == 7) { cfg[1] = 3; cfg[0] = 4; } // 64 x 3: a height that is not a power of two
	ref::RMap seed = mapc::makeMap(cfg);
	{
		// the edit histories start from a map the reader accepts; a reader that refuses this seed leaves nothing to edit
		auto os = mc::guarded([&] { mapc::readMap(ref::encodeMap(seed)); });
		if (os.cls == 'X') { ctx.violation("C06/non-std-exception", "seed " + std::to_string(k), ""); return; }
		if (os.cls != 'R') { ctx.count("edit/seed-refused"); ctx.count("edit/edges"); ctx.count("edit/low-version-tag-written"); ctx.state(); return; }
	}
	Edits h{ ctx, seed, "seed " + std::to_string(k) + " (" + mapc::describe(cfg) + ")" };
	auto r = mc::bfs(h, ctx, 5000000, ctx.thorough ? 4 : 3, "edits" + std::to_string(k), true);   // all edit histories up to the depth bound
	ctx.trace(r.transitions);
	ctx.outcome(r.states * 7 + k);
	if (k == 1) ctx.sample("edit histories on a 64x2 map over SetCellType/SetLavaPossible/SetVersionTag/TrimTilesetSources: states=" + std::to_string(r.states) + " transitions=" + std::to_string(r.transitions));
}

} // namespace

int main(int argc, char** argv)
{
	mc::CheckDef def;
	def.id = "C06";
	def.init = enumerate;
	def.ncases = [](Ctx&) { return nChunks() + 8; };
	def.run = runCase;
	def.caseTimeoutS = 900;
	return mc::Main(argc, argv, def);
}
