// The binding surface: every private name of OP2Utility the stream/archive harnesses touch (compiled with
// -fno-access-control). Used for state keys (deduplication) only, except where a check says otherwise.
//
// Each access goes through a compile-time detection: if a refactoring renames or removes the private member, the
// harness still builds and falls back to a key made of public observations (Position(), Length(), content read through
// the public API). The fallback key is coarser - states that differ only in hidden flags are merged, which can only
// lose exploration, never raise an alarm - and the evidence records it (counter `binding/fallback-keys`).
// HuffLZ / BitStreamReader / AdaptiveHuffmanTree private state (C04, C15), the protected sort helpers of ArchiveFile (C19),
// Map::GetTileIndex (C16) and Map::WriteContainerSize (C20) are detected the same way inside those checks, each with a
// public fallback (refactors/zz1 renames all of them at once and every check still builds and stays silent).
#pragma once
#include "Stream/MemoryReader.h"
#include "Stream/FileReader.h"
#include "Stream/SliceReader.h"
#include "Stream/MemoryWriter.h"
#include "Stream/DynamicMemoryWriter.h"
#include <string>
#include <type_traits>
#include <utility>

namespace peek {
using namespace OP2Utility;

#define PEEK_DETECT(TRAIT, MEMBER) \
	template <class T, class = void> struct TRAIT : std::false_type {}; \
	template <class T> struct TRAIT<T, std::void_t<decltype(std::declval<T&>().MEMBER)>> : std::true_type {};

PEEK_DETECT(has_position, position)
PEEK_DETECT(has_file, file)
PEEK_DETECT(has_wrappedStream, wrappedStream)
PEEK_DETECT(has_startingOffset, startingOffset)
PEEK_DETECT(has_sliceLength, sliceLength)
PEEK_DETECT(has_offset, offset)
PEEK_DETECT(has_streamBuffer, streamBuffer)
PEEK_DETECT(has_archiveFileReader, archiveFileReader)
PEEK_DETECT(has_clmFileReader, clmFileReader)

inline bool& usedFallback() { static bool f = false; return f; }

// public observation of a reader's cursor; never throws
template <class R>
inline std::string publicKey(R& r)
{
	usedFallback() = true;
	try { return "p" + std::to_string(r.Position()) + "/" + std::to_string(r.Length()); }
	catch (...) { return "p!"; }
}

template <class R>
inline std::string memoryReaderKey(R& r)
{
	if constexpr (has_position<R>::value) return "m" + std::to_string(r.position);
	else return publicKey(r);
}
inline std::string key(Stream::MemoryReader& r) { return memoryReaderKey(r); }

template <class R>
inline std::string fileReaderKey(R& r)
{
	if constexpr (has_file<R>::value) {
		auto st = r.file.rdstate();
		long long tg = -2;
		if (!r.file.fail()) tg = (long long)r.file.tellg();
		return "f" + std::to_string(tg) + "/" + std::to_string(int(st));
	}
	else return publicKey(r);
}
inline std::string key(Stream::FileReader& r) { return fileReaderKey(r); }

template <class W>
inline std::string key(Stream::SliceReader<W>& r)
{
	typedef Stream::SliceReader<W> S;
	if constexpr (has_wrappedStream<S>::value && has_startingOffset<S>::value && has_sliceLength<S>::value)
		return "s[" + std::to_string(r.startingOffset) + "+" + std::to_string(r.sliceLength) + "]" + key(r.wrappedStream);
	else return publicKey(r);
}

template <class Wr>
inline std::string memoryWriterKey(Wr& w)
{
	if constexpr (has_offset<Wr>::value) return "w" + std::to_string(w.offset);
	else { usedFallback() = true; return "w" + std::to_string(w.Position()); }
}
inline std::string key(Stream::MemoryWriter& w) { return memoryWriterKey(w); }

// exact copy of the private cursor of a fixed writer (clone support); falls back to the public Seek
template <class Wr>
inline void copyCursor(Wr& to, Wr& from)
{
	if constexpr (has_offset<Wr>::value) to.offset = from.offset;
	else { usedFallback() = true; to.Seek(from.Position()); }
}

template <class Wr>
inline std::string dynamicWriterKey(Wr& w)
{
	if constexpr (has_streamBuffer<Wr>::value) return "d" + std::to_string(w.streamBuffer.size()) + ":" + std::string(w.streamBuffer.begin(), w.streamBuffer.end());
	else {
		usedFallback() = true;
		auto r = w.GetReader();
		std::string s(std::size_t(r.Length()), '\0');
		if (!s.empty()) r.Read(&s[0], s.size());
		return "d" + std::to_string(s.size()) + ":" + s;
	}
}
inline std::string key(Stream::DynamicMemoryWriter& w) { return dynamicWriterKey(w); }

// the shared file reader of an archive object; "" if it cannot be reached (then the call-sequence search uses histories)
template <class V>
inline std::string volReaderKey(V& v, bool& available)
{
	if constexpr (has_archiveFileReader<V>::value) { available = true; return key(v.archiveFileReader); }
	else { available = false; usedFallback() = true; return ""; }
}
template <class C>
inline std::string clmReaderKey(C& c, bool& available)
{
	if constexpr (has_clmFileReader<C>::value) { available = true; return key(c.clmFileReader); }
	else { available = false; usedFallback() = true; return ""; }
}
}
