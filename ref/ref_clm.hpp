// Reference CLM layout: strict decoder and encoder (with field map for fault enumeration), from DESIGN.md appendix A.
#pragma once
#include "mc/mc.hpp"
#include "ref_wav.hpp"
#include "ref_vol.hpp"   // Field
#include <cstring>
#include <string>
#include <vector>

namespace ref {

// independent description of the CLM layout
struct ClmEntry { std::string name; uint32_t offset, length; };
struct ParsedClm { bool ok = false; std::string why; ref::WaveFormat fmt; std::vector<ClmEntry> entries; };

inline ParsedClm parseClm(const std::vector<uint8_t>& v)
{
	ParsedClm p;
	auto fail = [&](const std::string& w) { p.why = w; return p; };
	if (v.size() < 60) return fail("shorter than the 60-byte header");
	static const char version[32] = "OP2 Clump File Version 1.0\x1a\0\0\0\0";
	if (std::memcmp(v.data(), version, 32) != 0) return fail("version string");
	p.fmt.tag = mc::get16(v, 32); p.fmt.channels = mc::get16(v, 34); p.fmt.rate = mc::get32(v, 36); p.fmt.avgBytes = mc::get32(v, 40); p.fmt.blockAlign = mc::get16(v, 44); p.fmt.bits = mc::get16(v, 46);
	if (mc::get16(v, 48) != 0) return fail("cbSize of the common format is not 0");
	static const uint8_t unk[6] = { 0, 0, 0, 0, 1, 0 };
	if (std::memcmp(&v[50], unk, 6) != 0) return fail("constant bytes 50..55");
	uint32_t n = mc::get32(v, 56);
	if (uint64_t(60) + 16ull * n > v.size()) return fail("index runs past the file");
	uint64_t expect = 60 + 16ull * n;
	for (uint32_t i = 0; i < n; ++i) {
		std::size_t o = 60 + 16 * std::size_t(i);
		ClmEntry e;
		std::size_t k = 0; while (k < 8 && v[o + k]) { e.name.push_back(char(v[o + k])); ++k; }
		for (; k < 8; ++k) if (v[o + k]) return fail("name field of entry " + std::to_string(i) + " not zero padded");
		e.offset = mc::get32(v, o + 8); e.length = mc::get32(v, o + 12);
		if (e.offset != expect) return fail("entry " + std::to_string(i) + " offset " + std::to_string(e.offset) + " expected " + std::to_string(expect) + " (contiguous data after the index)");
		expect += e.length;
		p.entries.push_back(e);
	}
	if (expect != v.size()) return fail("data ends at " + std::to_string(expect) + " but the file has " + std::to_string(v.size()) + " bytes");
	p.ok = true;
	return p;
}


struct ClmImage { std::vector<uint8_t> bytes; std::vector<Field> fields; };

inline ClmImage encodeClm(const WaveFormat& fmt, const std::vector<std::pair<std::string, std::vector<uint8_t>>>& members)
{
	ClmImage img; auto& v = img.bytes;
	static const char version[32] = "OP2 Clump File Version 1.0\x1a\0\0\0\0";
	v.insert(v.end(), version, version + 32);
	img.fields.push_back({ v.size(), 2, "format.tag" }); mc::put16(v, fmt.tag);
	mc::put16(v, fmt.channels); mc::put32(v, fmt.rate); mc::put32(v, fmt.avgBytes); mc::put16(v, fmt.blockAlign); mc::put16(v, fmt.bits);
	img.fields.push_back({ v.size(), 2, "format.cbSize" }); mc::put16(v, 0);
	const uint8_t unk[6] = { 0, 0, 0, 0, 1, 0 }; v.insert(v.end(), unk, unk + 6);
	img.fields.push_back({ v.size(), 4, "count" }); mc::put32(v, uint32_t(members.size()));
	uint32_t off = 60 + 16 * uint32_t(members.size());
	for (std::size_t i = 0; i < members.size(); ++i) {
		std::string n = members[i].first; n.resize(8, '\0');
		mc::putStr(v, n);
		img.fields.push_back({ v.size(), 4, "entry" + std::to_string(i) + ".offset" }); mc::put32(v, off);
		img.fields.push_back({ v.size(), 4, "entry" + std::to_string(i) + ".length" }); mc::put32(v, uint32_t(members[i].second.size()));
		off += uint32_t(members[i].second.size());
	}
	for (auto& m : members) v.insert(v.end(), m.second.begin(), m.second.end());
	return img;
}

} // namespace ref
