// C12 - readers deliver exactly the addressed bytes and fail atomically at bounds.
// Explicit-state reachability to a fixpoint: product of (real reader, reference cursor), every operation of a
// boundary-valued alphabet in every reachable state, on memory readers, memory slices, file slices and nested slices.
#include "mc/mc.hpp"
#include "mc/explore.hpp"
#include "mc/peek.hpp"
#include <memory>
#include <set>
#include <functional>

using namespace OP2Utility;
using mc::Ctx;
typedef unsigned __int128 u128;

namespace {

enum Kind { kRead, kReadPartial, kPeek, kSeek, kSeekFwd, kSeekBack, kSeekBegin, kSeekEnd,
	kTyped,      // a = 0:u8 1:u16 2:u32 3:u64 4:3-byte struct
	kVec8, kVec16, // a = element count
	kSized,      // a = element count ; b = container 0:string 1:u16string 2:u32string 3:wstring 4:vector<u32> 5:vector<Tri> 6:vector<u64>
	kPrefixed,   // a = size type 0:u8 1:i8 2:u16 3:i16 4:u32 5:i32 ; b = container 0:vector<u8> 1:string 2:vector<u16> 3:u16string 4:wstring 5:vector<u32>
	kCStr,       // a = maxCount
	kSlice1, kSlice2 };

struct Op { int kind; uint64_t a = 0, b = 0; };

struct Tri { uint8_t b[3]; };

std::string showOp(const Op& o)
{
	static const char* n[] = { "Read", "ReadPartial", "Peek", "Seek", "SeekForward", "SeekBackward", "SeekBeginning", "SeekEnd", "ReadT", "ReadVec8", "ReadVec16", "ReadSized", "ReadPrefixed", "ReadCStr", "Slice", "Slice" };
	std::string s = n[o.kind];
	s += "(" + std::to_string(o.a);
	if (o.kind == kPrefixed || o.kind == kSlice2 || o.kind == kSized) s += "," + std::to_string(o.b);
	return s + ")";
}

// boundary values for a size/offset argument given stream length and position
std::vector<uint64_t> bv(uint64_t len, uint64_t pos)
{
	uint64_t rem = len >= pos ? len - pos : 0;
	std::set<uint64_t> s = { 0, 1, 2, 3, rem, rem + 1, len, len + 1, pos, pos + 1,
		0x7FFFFFFFull, 0x80000000ull, 0xFFFFFFFFull, 0x100000000ull, 0x100000001ull,
		0x7FFFFFFFFFFFFFFFull, 0x8000000000000000ull, 0x8000000000000001ull, ~0ull, ~0ull - 1,
		0 - pos, 0 - pos + 1, 0 - pos + rem, 0 - pos - 1, 0 - len, 0 - len + 1 };
	if (rem) s.insert(rem - 1);
	if (pos) s.insert(pos - 1);
	return std::vector<uint64_t>(s.begin(), s.end());
}

template <class R>
struct Backend {
	std::string name;
	std::vector<uint8_t> src;                               // the bytes the reader must expose
	std::function<std::unique_ptr<R>()> make;               // fresh reader at position 0
	bool cloneable = false;
	std::shared_ptr<void> keepAlive;
};

template <class R>
struct Harness {
	using Op = ::Op;
	struct State { std::unique_ptr<R> r; uint64_t mpos = 0; };
	Backend<R>& be;
	Ctx& ctx;
	Harness(Backend<R>& b, Ctx& c) : be(b), ctx(c) {}

	std::unique_ptr<State> fresh() { auto s = std::make_unique<State>(); s->r = be.make(); s->mpos = 0; return s; }
	std::unique_ptr<State> clone(const State& s)
	{
		if constexpr (std::is_same<R, Stream::MemoryReader>::value) {
			// a copy over the same buffer, put at the position the original has (where a copy starts is not this property's subject)
			auto c = std::make_unique<State>(); c->r = std::make_unique<R>(*s.r); c->mpos = s.mpos;
			try { c->r->Seek(s.r->Position()); } catch (const std::exception&) { return nullptr; }
			return c;
		}
		else return nullptr;
	}
	std::string key(const State& s) { return peek::key(*s.r) + "|" + std::to_string(s.mpos); }
	std::string show(const Op& o) { return showOp(o); }

	std::vector<Op> enabled(const State& s)
	{
		std::vector<Op> v;
		uint64_t len = be.src.size();
		auto K = bv(len, s.mpos);
		for (int kind : { kRead, kReadPartial, kPeek, kSeek, kSeekFwd, kSeekBack, kCStr }) for (auto k : K) v.push_back({ kind, k, 0 });
		v.push_back({ kSeekBegin }); v.push_back({ kSeekEnd });
		for (uint64_t t = 0; t < 5; ++t) v.push_back({ kTyped, t, 0 });
		for (uint64_t m : { 0ull, 1ull, 2ull, (unsigned long long)(len - s.mpos), (unsigned long long)(len - s.mpos + 1) }) { v.push_back({ kVec8, m }); v.push_back({ kVec16, m }); }
		for (uint64_t c = 0; c < 7; ++c) for (uint64_t m : { 0ull, 1ull, 2ull, 3ull }) v.push_back({ kSized, m, c });
		for (uint64_t st = 0; st < 6; ++st) for (uint64_t c = 0; c < 6; ++c) v.push_back({ kPrefixed, st, c });
		for (auto k : K) v.push_back({ kSlice1, k, 0 });
		std::set<uint64_t> S = { 0, 1, len, len + 1, s.mpos, 0x8000000000000000ull, ~0ull };
		if (len) S.insert(len - 1);
		for (auto st : S) {
			std::set<uint64_t> N = { 0, 1, len, len - st, len - st + 1, 0 - st, 0 - st + 1, 0 - st + len, ~0ull, 0x8000000000000000ull };
			for (auto n : N) v.push_back({ kSlice2, st, n });
		}
		return v;
	}

	void bad(const std::string& clause, const Op& op, const std::string& hist, const std::string& detail)
	{
		ctx.violation("C12/" + be.name.substr(0, be.name.find(':')) + "/" + clause, hist, "backend=" + be.name + " op=" + showOp(op) + " " + detail);
	}

	// compare position/length after an edge
	bool posOk(State& s, const Op& op, const std::string& hist, const char* clause)
	{
		uint64_t p = 0, l = 0;
		auto o = mc::guarded([&] { p = s.r->Position(); l = s.r->Length(); });
		if (o.cls != 'R') { bad(std::string(clause) + "/position-query-throws", op, hist, o.what); return false; }
		if (l != be.src.size()) { bad(std::string(clause) + "/length-changed", op, hist, "Length()=" + std::to_string(l) + " expected " + std::to_string(be.src.size())); return false; }
		if (p != s.mpos) { bad(std::string(clause) + "/position", op, hist, "Position()=" + std::to_string(p) + " expected " + std::to_string(s.mpos) + " (length " + std::to_string(l) + ")"); return false; }
		if (p > l) { bad(std::string(clause) + "/position-beyond-length", op, hist, ""); return false; }
		return true;
	}

	template <class S, class C>
	bool prefixed(State& s, const Op& op, bool check, const std::string& hist, const char* tname)
	{
		const auto& src = be.src;
		uint64_t rem = src.size() - s.mpos;
		C container;
		container.resize(3); // must be cleared by the helper
		auto o = mc::guarded([&] { s.r->template Read<S>(container); });
		typedef typename C::value_type E;
		bool expectOk = false; uint64_t n = 0;
		if (rem >= sizeof(S)) {
			S v; std::memcpy(&v, &src[s.mpos], sizeof(S));
			if (!(std::is_signed<S>::value && v < 0)) {
				n = uint64_t(v);
				if (u128(n) * sizeof(E) <= rem - sizeof(S)) expectOk = true;
			}
		}
		std::string clause = std::string("Read<") + tname + ">";
		if (expectOk) {
			ctx.count("typed/prefixed-ok");
			if (o.cls != 'R') { if (check) bad(clause + "/refused-valid", op, hist, o.what); return false; }
			bool same = container.size() == n && (n == 0 || std::memcmp(container.data(), &src[s.mpos + sizeof(S)], n * sizeof(E)) == 0);
			if (!same) { if (check) bad(clause + "/content", op, hist, "size " + std::to_string(container.size()) + " expected " + std::to_string(n)); return false; }
			s.mpos += sizeof(S) + n * sizeof(E);
			return !check || posOk(s, op, hist, clause.c_str());
		}
		ctx.count("typed/prefixed-reject");
		if (o.cls == 'R') { if (check) bad(clause + "/accepted-unsatisfiable", op, hist, "returned container of " + std::to_string(container.size())); return false; }
		if (o.cls == 'X') { if (check) bad(clause + "/non-std-exception", op, hist, ""); return false; }
		// weaker reading: position after a rejected typed helper is the old one or just past the prefix
		uint64_t p = 0;
		auto q = mc::guarded([&] { p = s.r->Position(); });
		if (q.cls != 'R') { if (check) bad(clause + "/position-query-throws", op, hist, q.what); return false; }
		if (p == s.mpos || (rem >= sizeof(S) && p == s.mpos + sizeof(S))) { s.mpos = p; return !check || posOk(s, op, hist, clause.c_str()); }
		if (check) bad(clause + "/position-after-reject", op, hist, "Position()=" + std::to_string(p) + " old " + std::to_string(s.mpos));
		return false;
	}

	// pre-sized container / string of any element width: consumes exactly size() * sizeof(element) bytes
	template <class C>
	bool sized(State& s, const Op& op, bool check, const std::string& hist)
	{
		typedef typename C::value_type E;
		const auto& src = be.src;
		uint64_t rem = src.size() - s.mpos;
		C container;
		container.resize(std::size_t(op.a));
		uint64_t bytes = op.a * sizeof(E);
		auto o = mc::guarded([&] { s.r->Read(container); });
		if (bytes <= rem) {
			if (check) ctx.count(sizeof(E) > 1 ? "typed/sized-wide-ok" : "typed/sized-ok");
			if (o.cls != 'R') { if (check) bad("ReadSized/refused-in-bounds", op, hist, o.what); return false; }
			if (container.size() != op.a) { if (check) bad("ReadSized/container-resized", op, hist, ""); return false; }
			if (bytes && std::memcmp(container.data(), &src[s.mpos], bytes) != 0) { if (check) bad("ReadSized/bytes", op, hist, "element width " + std::to_string(sizeof(E))); return false; }
			s.mpos += bytes;
		}
		else {
			if (check) ctx.count("typed/sized-reject");
			if (o.cls == 'R') { if (check) bad("ReadSized/accepted-out-of-bounds", op, hist, ""); return false; }
		}
		return !check || posOk(s, op, hist, "ReadSized");
	}

	bool checkSlice(R& sl, uint64_t start, uint64_t n, const Op& op, const std::string& hist)
	{
		const auto& src = be.src;
		uint64_t l = 0, p = 1;
		auto o = mc::guarded([&] { l = sl.Length(); p = sl.Position(); });
		if (o.cls != 'R' || l != n || p != 0) { bad("Slice/geometry", op, hist, "Length=" + std::to_string(l) + " Position=" + std::to_string(p)); return false; }
		std::vector<uint8_t> buf(n);
		o = mc::guarded([&] { sl.Read(buf.data(), n); });
		if (o.cls != 'R') { bad("Slice/read-all-fails", op, hist, o.what); return false; }
		if (n && std::memcmp(buf.data(), &src[start], n) != 0) { bad("Slice/content", op, hist, "got " + mc::hex(buf.data(), n)); return false; }
		uint8_t extra = 0;
		o = mc::guarded([&] { sl.Read(&extra, 1); });
		if (o.cls == 'R') { bad("Slice/reads-past-end", op, hist, "delivered byte " + std::to_string(extra)); return false; }
		return true;
	}

	bool apply(State& s, const Op& op, bool check, const std::string& hist)
	{
		const auto& src = be.src;
		uint64_t len = src.size();
		uint64_t rem = len - s.mpos;
		R& r = *s.r;
		auto clauseHit = [&](const char* c) { if (check) ctx.count(c); };
		switch (op.kind) {
		case kRead: case kPeek: {
			uint64_t k = op.a;
			bool fits = k <= rem;
			std::size_t bl = fits ? std::size_t(k) : std::size_t(k < 64 ? k : 64);   // exact size when the request must succeed
			std::unique_ptr<uint8_t[]> buf(new uint8_t[bl ? bl : 1]);
			if (!fits && bl > rem + 0) { /* exact-size buffer smaller than k: an implementation that copies first overruns it */ }
			mc::Outcome o = mc::guarded([&] { if (op.kind == kRead) r.Read(buf.get(), std::size_t(k)); else r.Peek(buf.get(), std::size_t(k)); });
			const char* nm = op.kind == kRead ? "Read" : "Peek";
			if (fits) {
				clauseHit(op.kind == kRead ? "read/in-bounds" : "peek/in-bounds");
				if (o.cls != 'R') { if (check) bad(std::string(nm) + "/refused-in-bounds", op, hist, o.what); return false; }
				if (k && std::memcmp(buf.get(), &src[s.mpos], std::size_t(k)) != 0) { if (check) bad(std::string(nm) + "/bytes", op, hist, "got " + mc::hex(buf.get(), std::size_t(k))); return false; }
				if (op.kind == kRead) s.mpos += k;
			}
			else {
				clauseHit(op.kind == kRead ? "read/out-of-bounds" : "peek/out-of-bounds");
				if (k > ~0ull - s.mpos) clauseHit("read/wraps-64-bit");
				if (o.cls == 'R') { if (check) bad(std::string(nm) + "/accepted-out-of-bounds", op, hist, ""); return false; }
			}
			return !check || posOk(s, op, hist, nm);
		}
		case kReadPartial: {
			uint64_t k = op.a;
			uint64_t expect = k < rem ? k : rem;
			// the buffer has the requested size wherever that can be allocated (a reader may touch all of it); for requests near the
			// integer limits it has room for everything that may legitimately be delivered
			std::size_t bl = k <= (1u << 20) ? std::size_t(k) : std::size_t(expect > 64 ? expect : 64);
			std::unique_ptr<uint8_t[]> buf(new uint8_t[bl ? bl : 1]);
			std::size_t got = r.ReadPartial(buf.get(), std::size_t(k));
			clauseHit(k > rem ? "readpartial/short" : "readpartial/full");
			if (got != expect) { if (check) bad("ReadPartial/count", op, hist, "returned " + std::to_string(got) + " expected " + std::to_string(expect)); return false; }
			if (got && std::memcmp(buf.get(), &src[s.mpos], got) != 0) { if (check) bad("ReadPartial/bytes", op, hist, "got " + mc::hex(buf.get(), got)); return false; }
			s.mpos += expect;
			return !check || posOk(s, op, hist, "ReadPartial");
		}
		case kSeek: case kSeekFwd: case kSeekBack: {
			uint64_t a = op.a;
			bool fits = op.kind == kSeek ? a <= len : op.kind == kSeekFwd ? a <= rem : a <= s.mpos;
			const char* nm = op.kind == kSeek ? "Seek" : op.kind == kSeekFwd ? "SeekForward" : "SeekBackward";
			auto o = mc::guarded([&] { if (op.kind == kSeek) r.Seek(a); else if (op.kind == kSeekFwd) r.SeekForward(a); else r.SeekBackward(a); });
			if (fits) {
				clauseHit("seek/in-bounds");
				if (o.cls != 'R') { if (check) bad(std::string(nm) + "/refused-in-bounds", op, hist, o.what); return false; }
				s.mpos = op.kind == kSeek ? a : op.kind == kSeekFwd ? s.mpos + a : s.mpos - a;
			}
			else {
				clauseHit("seek/out-of-bounds");
				if (o.cls == 'R') { if (check) bad(std::string(nm) + "/accepted-out-of-bounds", op, hist, ""); return false; }
			}
			return !check || posOk(s, op, hist, nm);
		}
		case kSeekBegin: case kSeekEnd: {
			auto o = mc::guarded([&] { if (op.kind == kSeekBegin) r.SeekBeginning(); else r.SeekEnd(); });
			if (o.cls != 'R') { if (check) bad("SeekBeginning-End/throws", op, hist, o.what); return false; }
			s.mpos = op.kind == kSeekBegin ? 0 : len;
			return !check || posOk(s, op, hist, "SeekBeginning-End");
		}
		case kTyped: {
			static const std::size_t sz[] = { 1, 2, 4, 8, 3 };
			std::size_t n = sz[op.a];
			uint8_t raw[8] = { 0 };
			mc::Outcome o;
			switch (op.a) {
			case 0: { uint8_t v = 0; o = mc::guarded([&] { r.Read(v); }); std::memcpy(raw, &v, 1); break; }
			case 1: { uint16_t v = 0; o = mc::guarded([&] { r.Read(v); }); std::memcpy(raw, &v, 2); break; }
			case 2: { uint32_t v = 0; o = mc::guarded([&] { r.Read(v); }); std::memcpy(raw, &v, 4); break; }
			case 3: { uint64_t v = 0; o = mc::guarded([&] { r.Read(v); }); std::memcpy(raw, &v, 8); break; }
			default: { Tri v{}; o = mc::guarded([&] { r.Read(v); }); std::memcpy(raw, &v, 3); break; }
			}
			if (n <= rem) {
				clauseHit("typed/fixed-ok");
				if (o.cls != 'R') { if (check) bad("ReadT/refused-in-bounds", op, hist, o.what); return false; }
				if (std::memcmp(raw, &src[s.mpos], n) != 0) { if (check) bad("ReadT/bytes", op, hist, mc::hex(raw, n)); return false; }
				s.mpos += n;
			}
			else {
				clauseHit("typed/fixed-reject");
				if (o.cls == 'R') { if (check) bad("ReadT/accepted-out-of-bounds", op, hist, ""); return false; }
			}
			return !check || posOk(s, op, hist, "ReadT");
		}
		case kVec8: case kVec16: {
			std::size_t es = op.kind == kVec8 ? 1 : 2;
			uint64_t bytes = op.a * es;
			std::vector<uint8_t> v8; std::vector<uint16_t> v16;
			mc::Outcome o;
			if (es == 1) { v8.resize(op.a); o = mc::guarded([&] { r.Read(v8); }); }
			else { v16.resize(op.a); o = mc::guarded([&] { r.Read(v16); }); }
			if (bytes <= rem) {
				clauseHit("typed/vector-ok");
				if (o.cls != 'R') { if (check) bad("ReadVec/refused-in-bounds", op, hist, o.what); return false; }
				const void* p = es == 1 ? (const void*)v8.data() : (const void*)v16.data();
				if (bytes && std::memcmp(p, &src[s.mpos], bytes) != 0) { if (check) bad("ReadVec/bytes", op, hist, ""); return false; }
				s.mpos += bytes;
			}
			else {
				clauseHit("typed/vector-reject");
				if (o.cls == 'R') { if (check) bad("ReadVec/accepted-out-of-bounds", op, hist, ""); return false; }
			}
			return !check || posOk(s, op, hist, "ReadVec");
		}
		case kSized: {
			switch (op.b) {
			case 0: return sized<std::string>(s, op, check, hist);
			case 1: return sized<std::u16string>(s, op, check, hist);
			case 2: return sized<std::u32string>(s, op, check, hist);
			case 3: return sized<std::wstring>(s, op, check, hist);
			case 4: return sized<std::vector<uint32_t>>(s, op, check, hist);
			case 5: return sized<std::vector<Tri>>(s, op, check, hist);
			default: return sized<std::vector<uint64_t>>(s, op, check, hist);
			}
		}
		case kPrefixed: {
#define PFX(ST, NAME) (op.b == 0 ? prefixed<ST, std::vector<uint8_t>>(s, op, check, hist, NAME) : op.b == 1 ? prefixed<ST, std::string>(s, op, check, hist, NAME) : op.b == 2 ? prefixed<ST, std::vector<uint16_t>>(s, op, check, hist, NAME) \
	: op.b == 3 ? prefixed<ST, std::u16string>(s, op, check, hist, NAME) : op.b == 4 ? prefixed<ST, std::wstring>(s, op, check, hist, NAME) : prefixed<ST, std::vector<uint32_t>>(s, op, check, hist, NAME))
			switch (op.a) {
			case 0: return PFX(uint8_t, "u8");
			case 1: return PFX(int8_t, "i8");
			case 2: return PFX(uint16_t, "u16");
			case 3: return PFX(int16_t, "i16");
			case 4: return PFX(uint32_t, "u32");
			default: return PFX(int32_t, "i32");
			}
#undef PFX
		}
		case kCStr: {
			uint64_t maxc = op.a;
			std::string got;
			auto o = mc::guarded([&] { got = r.ReadNullTerminatedString(std::size_t(maxc)); });
			// reference: read up to maxc characters, stop after the first NUL (consumed, not returned)
			std::string exp; uint64_t used = 0; bool runsOut = false;
			for (uint64_t i = 0; i < maxc; ++i) {
				if (s.mpos + i >= len) { runsOut = true; break; }
				uint8_t c = src[s.mpos + i]; used = i + 1;
				if (c == 0) break;
				exp.push_back(char(c));
			}
			if (!runsOut) {
				clauseHit("typed/cstr-ok");
				if (o.cls != 'R') { if (check) bad("ReadCStr/refused-valid", op, hist, o.what); return false; }
				if (got != exp) { if (check) bad("ReadCStr/content", op, hist, "got " + mc::hex(got.data(), got.size())); return false; }
				s.mpos += used;
				return !check || posOk(s, op, hist, "ReadCStr");
			}
			clauseHit("typed/cstr-reject");
			if (o.cls == 'R') { if (check) bad("ReadCStr/accepted-unterminated", op, hist, ""); return false; }
			uint64_t p = 0;
			auto q = mc::guarded([&] { p = r.Position(); });
			if (q.cls != 'R') { if (check) bad("ReadCStr/position-query-throws", op, hist, q.what); return false; }
			// weaker reading: after a rejected string read the cursor is where it was or at the end of the data it scanned
			if (p == s.mpos || p == len) { s.mpos = p; return !check || posOk(s, op, hist, "ReadCStr"); }
			if (check) bad("ReadCStr/position-after-reject", op, hist, std::to_string(p));
			return false;
		}
		case kSlice1: case kSlice2: {
			uint64_t start = op.kind == kSlice1 ? s.mpos : op.a;
			uint64_t n = op.kind == kSlice1 ? op.a : op.b;
			bool fits = u128(start) + n <= len;
			std::unique_ptr<R> sl;
			auto o = mc::guarded([&] { if (op.kind == kSlice1) sl = std::make_unique<R>(r.Slice(n)); else sl = std::make_unique<R>(r.Slice(start, n)); });
			if (fits) {
				clauseHit("slice/contained");
				if (o.cls != 'R') { if (check) bad("Slice/refused-contained", op, hist, o.what); return false; }
				if (check && !checkSlice(*sl, start, n, op, hist)) return false;
				if (op.kind == kSlice1) s.mpos += n;
			}
			else {
				clauseHit("slice/not-contained");
				if (u128(start) + n > u128(~0ull)) clauseHit("slice/wraps-64-bit");
				if (o.cls == 'R') { if (check) bad("Slice/accepted-not-contained", op, hist, "start " + std::to_string(start) + " n " + std::to_string(n)); return false; }
			}
			return !check || posOk(s, op, hist, "Slice");
		}
		}
		return true;
	}
};

bool gThorough = false;

std::vector<std::vector<uint8_t>> sources()
{
	std::vector<std::vector<uint8_t>> v;
	if (gThorough) {
		// every byte string of length <= 3 over the bytes that matter to the typed helpers (size prefixes, signs, NUL), and two longer sources
		static const uint8_t alpha[] = { 0x00, 0x01, 0x02, 0x7F, 0x80, 0xFF };
		for (int len = 0; len <= 3; ++len) { int n = 1; for (int i = 0; i < len; ++i) n *= 6; for (int k = 0; k < n; ++k) { std::vector<uint8_t> s; int x = k; for (int i = 0; i < len; ++i) { s.push_back(alpha[x % 6]); x /= 6; } v.push_back(s); } }
		{ std::vector<uint8_t> s; for (int i = 0; i < 16; ++i) s.push_back(uint8_t(i * 17 + 3)); v.push_back(s); }
		{ std::vector<uint8_t> s = { 0x0A, 0x00, 0x00, 0x00, 'a', 'b', 'c', 'd', 'e', 'f', 'g', 'h', 'i', 'j', 0x00, 0x03, 0x00, 'x', 'y', 'z' }; v.push_back(s); }
	}
	for (int n : { 0, 1, 2, 5, 8 }) { std::vector<uint8_t> s; for (int i = 0; i < n; ++i) s.push_back(uint8_t(i + 1)); v.push_back(s); }
	v.push_back({ 0x02, 0x00, 0x00, 0x00, 0x41, 0x42, 0x00, 0xFF });
	v.push_back({ 0xFF, 0xFF, 0xFF, 0xFF, 0x01, 0x00, 0x03, 0x61, 0x62, 0x63 });
	v.push_back({ 0x04, 0x61, 0x62, 0x63 });
	v.push_back({ 0x00 });
	v.push_back({ 0x01, 0x00, 0x00, 0x80, 0x02, 0x00, 0x58, 0x59, 0x5A });
	// long sources (probed operation by operation at positions 0..2, not explored): negative and large size prefixes with
	// enough bytes behind them to satisfy a prefix that was misread as unsigned (-1 -> 255, -128 -> 128, -2 -> 65534, -32768 -> 32768)
	for (auto head : { std::vector<uint8_t>{ 0xFF, 0xFF, 0xFF, 0xFF }, std::vector<uint8_t>{ 0x80, 0xFF, 0xFF, 0xFF }, std::vector<uint8_t>{ 0x00, 0x80, 0x00, 0x00 }, std::vector<uint8_t>{ 0xFE, 0xFF, 0x00, 0x00 }, std::vector<uint8_t>{ 0x7F, 0x80, 0x7F, 0xFF } }) {
		std::vector<uint8_t> s = head;
		while (s.size() < 140000) s.push_back(uint8_t(s.size() * 13 + 5));
		v.push_back(s);
	}
	// a long source without a NUL among its first 1000 bytes: the NUL-terminated string read at positions 0..2 is about a thousand
	// characters long (a reader that gathers characters in blocks is right for short strings only: seeded change S12r)
	{
		std::vector<uint8_t> s;
		while (s.size() < 140000) s.push_back(uint8_t(1 + (s.size() * 7) % 255));
		s[1000] = 0; s[66000] = 0;
		v.push_back(s);
	}
	return v;
}
const std::size_t kProbeOnlyLength = 100000;

struct MemHolder { std::unique_ptr<uint8_t[]> p; };

template <class R>
void explore(Backend<R>& be, Ctx& ctx)
{
	Harness<R> h(be, ctx);
	auto res = mc::bfs(h, ctx, 10000, 64, be.name);
	ctx.trace(res.transitions);
	ctx.outcome(mc::fnv(be.name) ^ res.states);
	if (res.states != be.src.size() + 1) ctx.count("note/states-differ-from-len+1");
	if (peek::usedFallback()) ctx.count("binding/fallback-keys");
	if (ctx.caseIndex % 7 == 0) ctx.sample(be.name + " len=" + std::to_string(be.src.size()) + " states=" + std::to_string(res.states) + " transitions=" + std::to_string(res.transitions) + " e.g. history: Seek(1) ReadPartial(18446744073709551615) Read(0)");
}

// long sources: every operation of the alphabet applied once at positions 0, 1 and 2 of a freshly made reader
template <class R>
void probe(Backend<R>& be, Ctx& ctx)
{
	Harness<R> h(be, ctx);
	uint64_t n = 0;
	for (uint64_t pos : { 0ull, 1ull, 2ull }) {
		auto at = [&] { auto s = h.fresh(); s->r->Seek(pos); s->mpos = pos; return s; };
		auto s0 = at();
		for (auto& op : h.enabled(*s0)) {
			auto s = at();
			std::string hist = "Seek(" + std::to_string(pos) + ") " + showOp(op);
			ctx.sub(be.name + " " + hist);
			h.apply(*s, op, true, hist);
			ctx.transition(); ++n;
			if (op.kind == kPrefixed) ctx.count("typed/prefixed-on-long-source");
		}
	}
	ctx.state(3); ctx.trace(n);
	ctx.outcome(mc::fnv(be.name) ^ n);
}

template <class R>
void exploreOrProbe(Backend<R>& be, Ctx& ctx) { if (be.src.size() >= kProbeOnlyLength) probe(be, ctx); else explore(be, ctx); }

const int kBackends = 5;

void runCase(std::size_t idx, Ctx& ctx)
{
	auto srcs = sources();
	std::size_t si = idx / kBackends, bi = idx % kBackends;
	const auto& src = srcs[si];
	std::string tag = "src" + std::to_string(si);
	const std::vector<uint8_t> pre = { 0xEE, 0xEF, 0xF0 }, post = { 0xF1, 0xF2 };
	std::vector<uint8_t> framed = pre; framed.insert(framed.end(), src.begin(), src.end()); framed.insert(framed.end(), post.begin(), post.end());
	if (bi == 0) {
		auto hold = std::make_shared<MemHolder>();
		hold->p.reset(new uint8_t[src.size() ? src.size() : 1]);
		std::memcpy(hold->p.get(), src.data(), src.size());
		Backend<Stream::MemoryReader> be{ "MemoryReader:" + tag, src, [hold, n = src.size()] { return std::make_unique<Stream::MemoryReader>(hold->p.get(), n); }, true, hold };
		exploreOrProbe(be, ctx);
	}
	else if (bi == 1) {
		auto hold = std::make_shared<MemHolder>();
		hold->p.reset(new uint8_t[framed.size()]);
		std::memcpy(hold->p.get(), framed.data(), framed.size());
		Backend<Stream::MemoryReader> be{ "MemorySlice:" + tag, src, [hold, fn = framed.size(), n = src.size()] {
			Stream::MemoryReader parent(hold->p.get(), fn);
			return std::make_unique<Stream::MemoryReader>(parent.Slice(3, n)); }, true, hold };
		exploreOrProbe(be, ctx);
	}
	else {
		std::string dir = ctx.freshDir("c12");
		std::string path = dir + "/framed.bin";
		mc::writeFile(path, framed);
		if (bi == 2) {
			Backend<Stream::FileSliceReader> be{ "FileSlice:" + tag, src, [path, n = src.size()] {
				Stream::FileReader fr(path);
				return std::make_unique<Stream::FileSliceReader>(fr.Slice(3, n)); }, false, nullptr };
			exploreOrProbe(be, ctx);
		}
		else if (bi == 3) {
			Backend<Stream::FileSliceReader> be{ "FileSliceOfSlice:" + tag, src, [path, n = src.size()] {
				Stream::FileReader fr(path);
				auto outer = fr.Slice(1, n + 3);
				return std::make_unique<Stream::FileSliceReader>(outer.Slice(2, n)); }, false, nullptr };
			exploreOrProbe(be, ctx);
		}
		else {
			// slice obtained with the at-current-position form after moving the parent
			Backend<Stream::FileSliceReader> be{ "FileSliceAtPos:" + tag, src, [path, n = src.size()] {
				Stream::FileReader fr(path);
				fr.Seek(3);
				return std::make_unique<Stream::FileSliceReader>(fr.Slice(n)); }, false, nullptr };
			exploreOrProbe(be, ctx);
		}
		mc::removeTree(dir);
	}
}

} // namespace

int main(int argc, char** argv)
{
	mc::CheckDef def;
	def.id = "C12";
	def.init = [](Ctx& c) { gThorough = c.thorough; };
	def.ncases = [](Ctx&) { return sources().size() * kBackends; };
	def.run = runCase;
	def.describe = [](std::size_t i) { return "source " + std::to_string(i / kBackends) + " backend " + std::to_string(i % kBackends); };
	def.caseTimeoutS = 120;
	return mc::Main(argc, argv, def);
}
