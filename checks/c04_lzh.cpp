// C04 - LZH decompression equals the reference decoder, however it is drained.
//  part "main" (ASan+UBSan build):
//    A  all inputs of length 0..2
//    B  all token sequences of depth <= 3 (thorough 4) through the independent encoder
//    C  single-match grid: every length 3..60 x every distance 1..4096
//    D  all drain schedules: explicit-state BFS over the real HuffLZ (full-state hash), fixpoint
//    E  counter capacity: over-long streams, and all continuations across the capacity boundary
//    F  VolFile::ExtractFile of LZH members in reference-encoded archives
//  part "len3" (plain -O2 build, thorough): all 16.7 M inputs of length 3
#include "mc/mc.hpp"
#include "mc/explore.hpp"
#include "ref/ref_lzh.hpp"
#include "ref/ref_vol.hpp"
#include "Archive/VolFile.h"
#include <memory>
#include <set>
#include <functional>

using namespace OP2Utility;
using Archive::HuffLZ;
using Archive::BitStreamReader;
using mc::Ctx;

namespace {

struct ImplOut { std::vector<uint8_t> out; char cls = 'R'; std::string what; uint64_t calls = 0; };

// decode everything with GetData(chunk); the input lives in an exact-size heap block
ImplOut implDecode(const std::vector<uint8_t>& in, std::size_t chunk, std::size_t limit = 64u << 20)
{
	ImplOut r;
	std::unique_ptr<uint8_t[]> buf(new uint8_t[in.size() ? in.size() : 1]);
	std::memcpy(buf.get(), in.data(), in.size());
	std::unique_ptr<char[]> dst(new char[chunk]);
	auto o = mc::guarded([&] {
		HuffLZ z(BitStreamReader(buf.get(), in.size()));
		for (;;) {
			std::size_t n = z.GetData(dst.get(), chunk);
			++r.calls;
			if (n == 0) break;
			r.out.insert(r.out.end(), dst.get(), dst.get() + n);
			if (r.out.size() > limit) throw std::runtime_error("harness: output limit exceeded");
		}
	});
	r.cls = o.cls; r.what = o.what;
	return r;
}

bool compareWithRef(Ctx& ctx, const std::string& site, const std::string& key, const std::vector<uint8_t>& in, const ImplOut& got, const ref::LzhDecoded& exp)
{
	if (exp.capacityExceeded) {
		if (got.cls == 'R') { ctx.violation(site + "/over-capacity-stream-accepted", key, "delivered " + std::to_string(got.out.size())); return false; }
		return true;
	}
	if (got.cls != 'R') { ctx.violation(site + "/decoder-throws", key, got.what + " input " + mc::hex(in.data(), in.size(), 32)); return false; }
	if (got.out != exp.out) {
		std::size_t i = 0; while (i < got.out.size() && i < exp.out.size() && got.out[i] == exp.out[i]) ++i;
		ctx.violation(site + "/output-differs", key, "input " + mc::hex(in.data(), in.size(), 32) + " lengths " + std::to_string(got.out.size()) + "/" + std::to_string(exp.out.size()) + " first difference at " + std::to_string(i));
		return false;
	}
	return true;
}

// ---- A: all short inputs ----
void shortInputs(Ctx& ctx, int len, int firstLo, int firstHi)
{
	std::vector<uint8_t> in(len);
	uint64_t total = 1; for (int i = 1; i < len; ++i) total *= 256;
	for (int f = firstLo; f < firstHi; ++f) {
		for (uint64_t rest = 0; rest < total; ++rest) {
			if (len >= 1) in[0] = uint8_t(f);
			uint64_t x = rest; for (int i = len - 1; i >= 1; --i) { in[i] = uint8_t(x); x >>= 8; }
			if ((rest & 0xFF) == 0) ctx.sub("input " + mc::hex(in.data(), in.size()));
			ImplOut got = implDecode(in, 2048);
			ctx.transition();
			if (len == 0) {
				// an empty stream: safety, termination and drain independence only (the format does not say whether it holds a code)
				ImplOut g1 = implDecode(in, 1);
				if (got.cls != g1.cls || got.out != g1.out) ctx.violation("C04/short/empty-input-drain-dependent", "empty", "");
				ctx.count("short/empty");
				continue;
			}
			ref::LzhDecoded exp = ref::lzhDecode(in.data(), in.size());
			compareWithRef(ctx, "C04/short", "input " + mc::hex(in.data(), in.size()), in, got, exp);
			ctx.count(exp.out.size() > in.size() ? "short/with-match" : "short/literals-only");
			ctx.outcome(mc::fnv(exp.out.data(), exp.out.size()) ^ exp.codes);
		}
		if (len == 0) break;
	}
	ctx.state(uint64_t(firstHi - firstLo) * total);
	ctx.trace(uint64_t(firstHi - firstLo) * total);
}

// ---- B/C: token sequences ----
std::vector<ref::LzhToken> tokenAlphabet()
{
	std::vector<ref::LzhToken> t;
	for (uint8_t b : { uint8_t('a'), uint8_t('b'), uint8_t(0x00), uint8_t(0xFF) }) t.push_back(ref::Lit(b));
	for (int len : { 3, 4, 59, 60 }) for (int dist : { 1, 2, 63, 64, 65, 4095, 4096 }) t.push_back(ref::Match(len, dist));
	return t;
}

std::string showTokens(const std::vector<ref::LzhToken>& toks)
{
	std::string s;
	for (auto& t : toks) s += t.match ? "M(" + std::to_string(t.len) + "," + std::to_string(t.dist) + ") " : "L(" + std::to_string(t.lit) + ") ";
	return s;
}

void checkTokens(Ctx& ctx, const std::vector<ref::LzhToken>& toks, const char* site)
{
	auto payload = ref::lzhExpand(toks);
	auto enc = ref::lzhEncode(toks);
	auto exp = ref::lzhDecode(enc.data(), enc.size());
	ImplOut got = implDecode(enc, 4096);
	ctx.transition();
	std::string key = "tokens " + showTokens(toks);
	// reference self-consistency: decoder(encoder(tokens)) starts with expand(tokens) and adds fewer than eight codes
	if (exp.out.size() < payload.size() || !std::equal(payload.begin(), payload.end(), exp.out.begin()) || exp.codes < toks.size() || exp.codes - toks.size() >= 8) {
		ctx.violation("harness/reference-codec-inconsistent", key, "codes " + std::to_string(exp.codes) + " tokens " + std::to_string(toks.size()));
		return;
	}
	if (got.cls != 'R') { ctx.violation(std::string(site) + "/decoder-throws", key, got.what); return; }
	if (got.out.size() < payload.size() || !std::equal(payload.begin(), payload.end(), got.out.begin())) { ctx.violation(std::string(site) + "/output-does-not-begin-with-payload", key, "got " + std::to_string(got.out.size()) + " bytes, payload " + std::to_string(payload.size())); return; }
	if (got.out != exp.out) { ctx.violation(std::string(site) + "/tail-differs-from-reference", key, "lengths " + std::to_string(got.out.size()) + "/" + std::to_string(exp.out.size())); return; }
	ctx.outcome(mc::fnv(exp.out.data(), exp.out.size()));
	ctx.count(exp.codes > toks.size() ? "tokens/with-padding-codes" : "tokens/exact-end");
	// every leading part of the encoding is an input as well (a final code cut anywhere inside its offset field)
	if (toks.size() <= 3) for (std::size_t k = 1; k < enc.size(); ++k) {
		std::vector<uint8_t> in(enc.begin(), enc.begin() + k);
		ref::LzhDecoded e2 = ref::lzhDecode(in.data(), in.size());
		ImplOut g2 = implDecode(in, 4096);
		ctx.transition();
		ctx.count("tokens/leading-parts");
		if (!compareWithRef(ctx, std::string(site) + "/leading-part", key + " leading " + std::to_string(k) + " of " + std::to_string(enc.size()) + " bytes", in, g2, e2)) return;
	}
}

void tokenSequences(Ctx& ctx, int first, int maxDepth)
{
	auto A = tokenAlphabet();
	std::vector<ref::LzhToken> seq;
	uint64_t n = 0;
	std::function<void(int)> rec = [&](int depth) {
		if (!seq.empty()) { if ((n++ & 63) == 0) ctx.sub("tokens " + showTokens(seq)); checkTokens(ctx, seq, "C04/tokens"); }
		if (depth == maxDepth) return;
		for (auto& t : A) { seq.push_back(t); rec(depth + 1); seq.pop_back(); }
	};
	if (first < 0) { checkTokens(ctx, {}, "C04/tokens"); n = 1; }
	else { seq.push_back(A[first]); rec(1); }
	ctx.state(n); ctx.trace(n);
}

void matchGrid(Ctx& ctx, int len)
{
	for (int dist = 1; dist <= 4096; ++dist) {
		std::vector<ref::LzhToken> toks = { ref::Lit('x'), ref::Lit('y'), ref::Match(len, dist) };
		if ((dist & 63) == 1) ctx.sub("grid len " + std::to_string(len) + " dist " + std::to_string(dist));
		checkTokens(ctx, toks, "C04/match-grid");
	}
	ctx.state(4096); ctx.trace(4096);
	ctx.count("grid/lengths");
}

// ---- D: drain schedules ----
std::vector<uint8_t> streamFor(int which)
{
	std::vector<ref::LzhToken> t;
	auto lits = [&](int n, int seed) { for (int i = 0; i < n; ++i) t.push_back(ref::Lit(uint8_t('a' + (i * 7 + seed) % 26))); };
	switch (which) {
	case 0: lits(300, 1); t.push_back(ref::Lit(0)); t.push_back(ref::Lit(0xFF)); break;
	case 1: lits(70, 2); for (int i = 0; i < 150; ++i) t.push_back(ref::Match(i % 3 == 0 ? 60 : 59, i % 2 ? 4096 : 4095)); break;
	case 2: t.push_back(ref::Lit('q')); for (int i = 0; i < 140; ++i) { t.push_back(ref::Match(60, 1 + i % 5)); if (i % 7 == 0) lits(1 + i % 3, i); } break;
	case 3: for (int i = 0; i < 600; ++i) { t.push_back(ref::Lit(uint8_t('A' + i % 50))); t.push_back(ref::Match(3 + i % 4, 1 + i % 9)); } break;
	case 4: lits(40, 5); for (int i = 0; i < 320; ++i) { t.push_back(ref::Match(3 + (i * 13) % 58, 1 + (i * 977) % 4096)); if (i % 5 == 0) lits(2, i); } break;
	default: {
		std::vector<uint8_t> v(1536); uint32_t x = 12345;
		for (auto& b : v) { x = x * 1103515245u + 12345u; b = uint8_t(x >> 16); }
		return v;
	}
	}
	return ref::lzhEncode(t);
}

struct DOp { int k; };   // k >= 0: GetData(k); -1: GetInternalBuffer
struct Drain {
	using Op = DOp;
	struct State {
		std::shared_ptr<std::vector<uint8_t>> in;
		std::unique_ptr<HuffLZ> z;
		uint64_t n = 0;
		uint64_t tail = 0;   // the last three operations and what they returned (part of the fallback key only)
	};
	Ctx& ctx; std::shared_ptr<std::vector<uint8_t>> input; const std::vector<uint8_t>& expected; std::vector<int> sizes; std::string name;

	std::unique_ptr<State> fresh() { auto s = std::make_unique<State>(); s->in = input; s->z = std::make_unique<HuffLZ>(BitStreamReader(input->data(), input->size())); return s; }
	std::unique_ptr<State> clone(const State& s) { auto c = std::make_unique<State>(); c->in = s.in; c->z = std::make_unique<HuffLZ>(*s.z); c->n = s.n; c->tail = s.tail; return c; }
	// Full decoder state (window, indices, bit reader, tree arrays) through the private members, if they still exist under
	// these names. Otherwise the key is (bytes delivered, last two operations and their results): coarser - states that
	// differ only in how far the decoder ran ahead are merged, which can only lose exploration - and counted in the evidence.
	template <class Z, class = void> struct HasDecoderState : std::false_type {};
	template <class Z> struct HasDecoderState<Z, std::void_t<decltype(std::declval<Z&>().m_DecompressBuffer), decltype(std::declval<Z&>().m_BuffWriteIndex), decltype(std::declval<Z&>().m_BuffReadIndex), decltype(std::declval<Z&>().m_EOS),
		decltype(std::declval<Z&>().m_BitStreamReader.m_ReadBitIndex), decltype(std::declval<Z&>().m_BitStreamReader.m_ReadBuff),
		decltype(std::declval<Z&>().m_AdaptiveHuffmanTree.linkOrData.data()), decltype(std::declval<Z&>().m_AdaptiveHuffmanTree.subtreeCount.data()), decltype(std::declval<Z&>().m_AdaptiveHuffmanTree.parentIndex.data())>> : std::true_type {};
	bool usedFallbackKey = false;

	template <class Z>
	std::string keyOf(Z& z, const State& s)
	{
		uint64_t h1 = 0x9E3779B97F4A7C15ull, h2 = 0xC2B2AE3D27D4EB4Full;
		auto mix = [&](const void* p, std::size_t n) {
			const unsigned char* b = static_cast<const unsigned char*>(p);
			std::size_t i = 0;
			for (; i + 8 <= n; i += 8) { uint64_t w; std::memcpy(&w, b + i, 8); h1 = (h1 ^ w) * 0x100000001B3ull; h1 ^= h1 >> 29; h2 = (h2 + w) * 0xFF51AFD7ED558CCDull; h2 ^= h2 >> 32; }
			for (; i < n; ++i) { h1 = (h1 ^ b[i]) * 0x100000001B3ull; h2 = (h2 + b[i]) * 0xFF51AFD7ED558CCDull; h2 ^= h2 >> 31; }
		};
		if constexpr (HasDecoderState<Z>::value) {
			mix(z.m_DecompressBuffer, sizeof z.m_DecompressBuffer);
			uint64_t scal[6] = { uint64_t(z.m_BuffWriteIndex), uint64_t(z.m_BuffReadIndex), uint64_t(z.m_EOS), uint64_t(z.m_BitStreamReader.m_ReadBitIndex), uint64_t(z.m_BitStreamReader.m_ReadBuff), s.n };
			mix(scal, sizeof scal);
			auto& t = z.m_AdaptiveHuffmanTree;
			mix(t.linkOrData.data(), t.linkOrData.size() * sizeof(t.linkOrData[0])); mix(t.subtreeCount.data(), t.subtreeCount.size() * sizeof(t.subtreeCount[0])); mix(t.parentIndex.data(), t.parentIndex.size() * sizeof(t.parentIndex[0]));
		}
		else {
			usedFallbackKey = true;
			uint64_t scal[2] = { s.n, s.tail & ((uint64_t(1) << 42) - 1) };   // last two operations
			mix(scal, sizeof scal);
		}
		std::string k(16, '\0'); std::memcpy(&k[0], &h1, 8); std::memcpy(&k[8], &h2, 8);
		return k;
	}
	std::string key(const State& s) { return keyOf(*s.z, s); }

	// the window of the decoder, if it can be located: GetInternalBuffer must point into it
	template <class Z>
	static bool ringOf(Z& z, const char*& begin, std::size_t& size)
	{
		if constexpr (HasDecoderState<Z>::value) { begin = z.m_DecompressBuffer; size = sizeof z.m_DecompressBuffer; return true; }
		else return false;
	}
	std::string show(const Op& o) { return o.k < 0 ? std::string("GetInternalBuffer") : "GetData(" + std::to_string(o.k) + ")"; }
	std::vector<Op> enabled(const State&) { std::vector<Op> v; for (int k : sizes) v.push_back({ k }); return v; }
	bool apply(State& s, const Op& op, bool check, const mc::Hist& hist)
	{
		auto bad = [&](const std::string& c, const std::string& d) { if (check) ctx.violation("C04/drain/" + c, name + " delivered=" + std::to_string(s.n) + " " + hist.str(12), d); return false; };
		uint64_t total = expected.size();
		if (op.k >= 0) {
			std::unique_ptr<char[]> dst(new char[op.k ? op.k : 1]);
			std::size_t m = 0;
			auto o = mc::guarded([&] { m = s.z->GetData(dst.get(), std::size_t(op.k)); });
			if (o.cls != 'R') return bad("GetData-throws", o.what);
			if (m > std::size_t(op.k)) return bad("GetData-returns-more-than-asked", std::to_string(m));
			if (s.n + m > total) return bad("delivers-beyond-reference-output", "m=" + std::to_string(m) + " total=" + std::to_string(total));
			if (m && std::memcmp(dst.get(), &expected[s.n], m) != 0) return bad("GetData-bytes", "m=" + std::to_string(m));
			if (m == 0 && op.k > 0 && s.n != total) return bad("GetData-returns-0-before-the-end", "total=" + std::to_string(total));
			if (check) { if (m < std::size_t(op.k) && s.n + m < total) ctx.count("drain/short-return-before-end"); ctx.count(m == 0 ? "drain/zero-returns" : "drain/data-returns"); }
			s.n += m;
			s.tail = (s.tail << 21) ^ (uint64_t(op.k + 2) << 13) ^ uint64_t(m & 0x1FFF);
		}
		else {
			std::size_t m = 0; const char* p = nullptr;
			auto o = mc::guarded([&] { p = s.z->GetInternalBuffer(&m); });
			if (o.cls != 'R') return bad("GetInternalBuffer-throws", o.what);
			if (s.n + m > total) return bad("delivers-beyond-reference-output", "internal buffer m=" + std::to_string(m));
			const char* ring = nullptr; std::size_t ringSize = 0;
			if (ringOf(*s.z, ring, ringSize) && m && (p < ring || p + m > ring + ringSize)) return bad("internal-buffer-range-outside-window", "");
			if (m && std::memcmp(p, &expected[s.n], m) != 0) return bad("GetInternalBuffer-bytes", "m=" + std::to_string(m));
			if (m == 0 && s.n != total) return bad("GetInternalBuffer-reports-0-before-the-end", "total=" + std::to_string(total));
			if (check) ctx.count("drain/internal-buffer-calls");
			s.n += m;
			s.tail = (s.tail << 21) ^ (uint64_t(1) << 13) ^ uint64_t(m & 0x1FFF);
		}
		return true;
	}
};

void drainCase(Ctx& ctx, int which)
{
	auto input = std::make_shared<std::vector<uint8_t>>(streamFor(which));
	auto exp = ref::lzhDecode(input->data(), input->size());
	if (exp.capacityExceeded) { ctx.violation("harness/drain-stream-over-capacity", std::to_string(which), ""); return; }
	std::vector<int> sizes = ctx.thorough ? std::vector<int>{ 0, 1, 2, 61, 62, 63, 100, 4033, 4034, 4035, 4095, 4096, 4097, 5000, -1 } : std::vector<int>{ 1, 62, 4096, -1 };
	if (!ctx.thorough && which == 0) sizes = { 0, 1, 2, 61, 62, 63, 100, 4033, 4034, 4035, 4095, 4096, 4097, 5000, -1 };
	Drain h{ ctx, input, exp.out, sizes, "stream" + std::to_string(which) };
	auto r = mc::bfs(h, ctx, 4000000, 100000000, "drain-stream" + std::to_string(which));
	if (h.usedFallbackKey) ctx.count("binding/fallback-keys");
	ctx.trace(r.transitions);
	ctx.outcome(mc::fnv(exp.out.data(), exp.out.size()) ^ r.states);
	ctx.count(("drain/states-stream" + std::to_string(which)).c_str(), r.states);
	if (which == 5 || which == 0) ctx.sample("drain BFS stream " + std::to_string(which) + ": input " + std::to_string(input->size()) + " bytes -> " + std::to_string(exp.out.size()) + " output bytes, " + std::to_string(sizes.size()) + "-operation alphabet, states=" + std::to_string(r.states) + " transitions=" + std::to_string(r.transitions) + " fixpoint=" + (r.fixpoint ? "yes" : "no"));
}

// every leading part (byte granularity) of an encoded stream is itself an input: codes whose offset field or Huffman
// path straddles the end of the input must decode as the reference does (missing bits read as zero)
void prefixCase(Ctx& ctx, int which)
{
	std::vector<uint8_t> full = streamFor(which);
	uint64_t n = 0;
	for (std::size_t k = 1; k < full.size(); ++k) {
		std::vector<uint8_t> in(full.begin(), full.begin() + k);
		if ((k & 31) == 1) ctx.sub("stream " + std::to_string(which) + " leading " + std::to_string(k) + " of " + std::to_string(full.size()) + " bytes");
		ref::LzhDecoded exp = ref::lzhDecode(in.data(), in.size());
		ImplOut got = implDecode(in, k % 3 == 0 ? 1 : k % 3 == 1 ? 4096 : 62);
		ctx.transition(); ++n;
		compareWithRef(ctx, "C04/leading-part", "stream " + std::to_string(which) + " leading " + std::to_string(k) + " bytes", in, got, exp);
		ctx.count("leading/parts");
		ctx.outcome(mc::fnv(exp.out.data(), exp.out.size()) ^ k);
	}
	ctx.state(n); ctx.trace(n);
}

// all drain schedules on every short input (tiny graphs): first byte f, second byte from a small set, and the 1-byte inputs
void drainShortInputs(Ctx& ctx, int fFrom, int fTo)
{
	std::vector<int> sizes = { 0, 1, 2, 3, 59, 60, 61, 62, 100, 4096, -1 };
	for (int f = fFrom; f < fTo; ++f) for (int second : { -1, 0x00, 0x55, 0xFF }) {
		auto input = std::make_shared<std::vector<uint8_t>>();
		input->push_back(uint8_t(f)); if (second >= 0) input->push_back(uint8_t(second));
		auto exp = ref::lzhDecode(input->data(), input->size());
		Drain h{ ctx, input, exp.out, sizes, "input " + mc::hex(input->data(), input->size()) };
		auto r = mc::bfs(h, ctx, 100000, 100000, "drain-short-" + mc::hex(input->data(), input->size()));
		ctx.trace(r.transitions);
		ctx.count("drain/short-input-graphs");
	}
}

// ---- E: capacity ----
std::vector<uint8_t> capacityStream(int which)
{
	if (which == 0) return std::vector<uint8_t>(200000, 0x00);
	std::vector<ref::LzhToken> t;
	if (which == 1) for (int i = 0; i < 65300; ++i) t.push_back(ref::Lit(uint8_t(i)));
	else { t.push_back(ref::Lit('m')); t.push_back(ref::Lit('n')); for (int i = 0; i < 65300; ++i) t.push_back(ref::Match(60, 1 + i % 2)); }
	return ref::lzhEncode(t);
}

void capacityCase(Ctx& ctx, int which, int mode)
{
	auto in = capacityStream(which);
	auto exp = ref::lzhDecode(in.data(), in.size());
	std::string key = "capacity stream " + std::to_string(which) + " drain mode " + std::to_string(mode);
	ctx.sub(key);
	if (!exp.capacityExceeded) { ctx.violation("harness/capacity-stream-within-capacity", key, ""); return; }
	std::unique_ptr<uint8_t[]> buf(new uint8_t[in.size()]); std::memcpy(buf.get(), in.data(), in.size());
	HuffLZ z(BitStreamReader(buf.get(), in.size()));
	std::vector<uint8_t> got;
	bool threw = false; std::string what;
	std::size_t chunk = mode == 0 ? 1 : 4096;
	std::unique_ptr<char[]> dst(new char[chunk]);
	uint64_t calls = 0;
	auto step = [&]() -> std::size_t {
		std::size_t m = 0;
		if (mode == 2) { const char* p = z.GetInternalBuffer(&m); got.insert(got.end(), p, p + m); }
		else { m = z.GetData(dst.get(), chunk); got.insert(got.end(), dst.get(), dst.get() + m); }
		return m;
	};
	for (;;) {
		std::size_t m = 0;
		auto o = mc::guarded([&] { m = step(); });
		++calls;
		if (o.cls != 'R') { threw = true; what = o.what; if (o.cls == 'X') { ctx.violation("C04/capacity/non-std-exception", key, ""); return; } break; }
		if (m == 0) break;
		if (got.size() > exp.out.size() + (1u << 20)) break;
	}
	ctx.transition(calls);
	if (!threw) { ctx.violation("C04/capacity/no-error-for-over-capacity-stream", key, "delivered " + std::to_string(got.size()) + " bytes; reference output of the first 65221 codes has " + std::to_string(exp.out.size())); return; }
	if (got.size() > exp.out.size() || std::memcmp(got.data(), exp.out.data(), got.size()) != 0) { ctx.violation("C04/capacity/delivered-bytes-not-a-prefix", key, std::to_string(got.size()) + " vs " + std::to_string(exp.out.size())); return; }
	// bytes still in the 4 KiB window, and bytes already copied inside the call that raised the error, are lost to the caller
	if (got.size() + chunk + 4096 + 64 < exp.out.size()) { ctx.violation("C04/capacity/error-raised-early", key, "delivered " + std::to_string(got.size()) + " of " + std::to_string(exp.out.size())); return; }
	// decoding does not continue after the error: whatever further calls still hand out (bytes decoded before the refused
	// update may be pending) continues the reference output of the accepted codes and never goes beyond it
	for (int i = 0; i < 64; ++i) {
		std::size_t m = 0;
		auto o = mc::guarded([&] { m = step(); });
		if (o.cls == 'X') { ctx.violation("C04/capacity/non-std-exception", key, ""); return; }
		if (got.size() > exp.out.size() || std::memcmp(got.data(), exp.out.data(), got.size()) != 0) { ctx.violation("C04/capacity/data-delivered-after-the-error", key, "after the error the decoder went on to deliver " + std::to_string(got.size()) + " bytes; the accepted codes produce " + std::to_string(exp.out.size())); return; }
	}
	ctx.count("capacity/over-long-streams");
	ctx.state(); ctx.trace();
}

void capacityTail(Ctx& ctx)
{
	std::vector<ref::LzhToken> prefix;
	for (uint32_t i = 0; i + 3 < ref::kLzhMaxCodes; ++i) prefix.push_back(ref::Lit(uint8_t(i * 5)));
	const ref::LzhToken alpha[3] = { ref::Lit('x'), ref::Match(3, 1), ref::Match(60, 4096) };
	std::vector<int> seq;
	std::function<void()> rec = [&]() {
		std::vector<ref::LzhToken> toks = prefix;
		std::string key = "capacity-3 then";
		for (int a : seq) { toks.push_back(alpha[a]); key += a == 0 ? " Lit" : a == 1 ? " Match(3,1)" : " Match(60,4096)"; }
		ctx.sub(key);
		auto enc = ref::lzhEncode(toks);
		auto exp = ref::lzhDecode(enc.data(), enc.size());
		ImplOut got = implDecode(enc, 4096);
		ctx.transition();
		if (exp.capacityExceeded) {
			ctx.count("capacity/tail-over");
			if (got.cls == 'R') ctx.violation("C04/capacity/tail-over-capacity-accepted", key, "");
			else if (got.out.size() > exp.out.size() || std::memcmp(got.out.data(), exp.out.data(), got.out.size()) != 0) ctx.violation("C04/capacity/tail-delivered-bytes-not-a-prefix", key, "");
		}
		else {
			ctx.count("capacity/tail-within");
			if (got.cls != 'R') ctx.violation("C04/capacity/tail-within-capacity-refused", key, got.what + " (codes " + std::to_string(exp.codes) + ")");
			else if (got.out != exp.out) ctx.violation("C04/capacity/tail-output-differs", key, "");
		}
		ctx.state(); ctx.trace();
		if (seq.size() == 4) return;
		for (int a = 0; a < 3; ++a) { seq.push_back(a); rec(); seq.pop_back(); }
	};
	rec();
}

// ---- F: extraction from volumes ----
void volumeCase(Ctx& ctx)
{
	std::string dir = ctx.freshDir("c04vol");
	std::vector<ref::VolMember> ms;
	std::vector<std::vector<uint8_t>> plain;
	std::vector<bool> over;
	auto add = [&](const std::string& name, std::vector<uint8_t> stream) {
		auto d = ref::lzhDecode(stream.data(), stream.size());
		ref::VolMember m; m.name = name; m.stored = stream; m.kind = 0x103; m.overrideIndexSize = true; m.indexSize = uint32_t(d.out.size());
		ms.push_back(m); plain.push_back(d.out); over.push_back(d.capacityExceeded);
	};
	add("a_lit.txt", streamFor(0));
	add("b_alt.txt", streamFor(3));
	add("c_rand.bin", streamFor(5));
	add("d_tok.bin", ref::lzhEncode({ ref::Lit('a'), ref::Match(60, 1), ref::Match(3, 4096) }));
	add("e_over.bin", capacityStream(1));
	// an empty packed block: what the empty stream decodes to is not fixed by the format, but extraction must write what the
	// decoder itself delivers for it (judged against the library's own GetData drain below, not against the reference)
	{ ref::VolMember m; m.name = "e_zero.bin"; m.stored = {}; m.kind = 0x103; m.overrideIndexSize = true; m.indexSize = 0; ms.push_back(m); plain.push_back(implDecode({}, 4096).out); over.push_back(false); ctx.count("volume/empty-packed-member"); }
	{ ref::VolMember m; m.name = "f_plain.txt"; m.stored = { 'h', 'e', 'l', 'l', 'o' }; ms.push_back(m); plain.push_back(m.stored); over.push_back(false); }
	auto img = ref::encodeVol(ms);
	auto strict = ref::parseVolStrict(img.bytes);
	if (!strict.ok) { ctx.violation("harness/reference-vol-self-check", "volume", strict.why); return; }
	std::string path = dir + "/lzh.vol";
	mc::writeFile(path, img.bytes);
	auto o = mc::guarded([&] {
		Archive::VolFile vol(path);
		for (std::size_t i = 0; i < ms.size(); ++i) {
			std::string out = dir + "/out" + std::to_string(i);
			ctx.sub("ExtractFile " + ms[i].name);
			auto e = mc::guarded([&] { vol.ExtractFile(i, out); });
			ctx.transition();
			if (over[i]) {
				ctx.count("volume/over-capacity-member");
				if (e.cls == 'R') ctx.violation("C04/volume/over-capacity-member-extracted", ms[i].name, "");
				continue;
			}
			if (e.cls != 'R') { ctx.violation("C04/volume/extract-throws", ms[i].name, e.what); continue; }
			auto got = mc::readFile(out);
			if (got != plain[i]) ctx.violation("C04/volume/extracted-bytes-differ", ms[i].name, "sizes " + std::to_string(got.size()) + "/" + std::to_string(plain[i].size()));
			ctx.count("volume/members-extracted");
			ctx.trace();
		}
	});
	if (o.cls != 'R') ctx.violation("C04/volume/open-fails", "lzh.vol", o.what);
	// the same volume cut inside / at the start of / in the block header of its last member: the torn member is refused,
	// and every intact LZH member is still extracted to the reference bytes afterwards (and again, in reverse order)
	{
		auto strictFull = ref::parseVolStrict(img.bytes);
		std::size_t lastBlock = strictFull.entries.back().blockOffset;
		for (std::size_t cut : { lastBlock, lastBlock + 3, lastBlock + 8, lastBlock + 8 + 2 }) {   // before, inside and just after the block header, and inside the 5 data bytes
			std::vector<uint8_t> torn(img.bytes.begin(), img.bytes.begin() + cut);
			std::string tpath = dir + "/torn.vol";
			mc::writeFile(tpath, torn);
			auto ot = mc::guarded([&] {
				Archive::VolFile vol(tpath);
				std::size_t last = ms.size() - 1;
				for (int round = 0; round < 2; ++round) {
					auto bad = mc::guarded([&] { vol.ExtractFile(last, dir + "/torn_out"); });
					ctx.transition();
					ctx.count("volume/torn-member-attempts");
					if (bad.cls == 'R') ctx.violation("C04/volume/torn-member-extracted", ms[last].name + " cut at " + std::to_string(cut), "");
					for (std::size_t k = 0; k < last; ++k) {
						std::size_t i = round ? last - 1 - k : k;
						if (over[i]) continue;
						std::string out = dir + "/after" + std::to_string(i);
						ctx.sub("volume cut at " + std::to_string(cut) + ": ExtractFile " + ms[i].name + " after the refused member");
						auto e = mc::guarded([&] { vol.ExtractFile(i, out); });
						ctx.transition();
						if (e.cls != 'R') { ctx.violation("C04/volume/extract-after-refusal-throws", ms[i].name + " cut at " + std::to_string(cut), e.what); continue; }
						if (mc::readFile(out) != plain[i]) ctx.violation("C04/volume/extracted-bytes-differ-after-refusal", ms[i].name, "");
						ctx.count("volume/members-extracted-after-refusal");
					}
				}
			});
			if (ot.cls != 'R') ctx.count("volume/torn-volume-not-opened");   // a reader that refuses the damaged volume as a whole extracts nothing from it
			ctx.count("volume/torn-volumes-decided");
		}
	}
	ctx.state();
	ctx.sample("reference-encoded volume with 5 LZH members (one over capacity) and 1 stored member: ExtractFile must write exactly the reference decoder's bytes");
	mc::removeTree(dir);
}

// ------------------------------------------------------------------------------------------------
struct CaseDef { char kind; int a, b; };
std::vector<CaseDef> gCases;

void build(Ctx& ctx)
{
	gCases.clear();
	const char* part = std::getenv("VERIF_PART");
	if (part && std::string(part) == "len3") {
		for (int f = 0; f < 256; ++f) gCases.push_back({ '3', f, f + 1 });
		return;
	}
	gCases.push_back({ 'A', 0, 0 });                                   // empty input
	gCases.push_back({ 'A', 1, 0 });                                   // all 1-byte inputs
	for (int f = 0; f < 256; f += 16) gCases.push_back({ 'a', f, f + 16 });   // all 2-byte inputs
	gCases.push_back({ 'B', -1, 0 });
	for (int t = 0; t < 32; ++t) gCases.push_back({ 'B', t, ctx.thorough ? 4 : 3 });
	for (int len = 3; len <= 60; ++len) gCases.push_back({ 'C', len, 0 });
	for (int s = 0; s < 6; ++s) gCases.push_back({ 'D', s, 0 });
	for (int s = 0; s < 6; ++s) gCases.push_back({ 'P', s, 0 });
	for (int f = 0; f < 256; f += 16) gCases.push_back({ 'd', f, f + 16 });
	for (int s = 0; s < 3; ++s) for (int m = 0; m < 3; ++m) gCases.push_back({ 'E', s, m });
	gCases.push_back({ 'T', 0, 0 });
	gCases.push_back({ 'F', 0, 0 });
}

void runCase(std::size_t i, Ctx& ctx)
{
	const CaseDef& c = gCases[i];
	switch (c.kind) {
	case 'A': if (c.a == 0) shortInputs(ctx, 0, 0, 1); else shortInputs(ctx, 1, 0, 256); if (c.a == 1) ctx.sample("all 256 one-byte inputs, e.g. input ff decoded with GetData(2048) and compared with ref_lzh"); break;
	case 'a': shortInputs(ctx, 2, c.a, c.b); break;
	case '3': shortInputs(ctx, 3, c.a, c.b); if (c.a == 0x80) ctx.sample("all 65536 three-byte inputs starting with 0x80"); break;
	case 'B': tokenSequences(ctx, c.a, c.b); if (c.a == 5) ctx.sample("all token sequences starting with M(3,2) up to depth " + std::to_string(c.b) + " over 4 literals and 28 matches"); break;
	case 'C': matchGrid(ctx, c.a); break;
	case 'D': drainCase(ctx, c.a); break;
	case 'P': prefixCase(ctx, c.a); break;
	case 'd': drainShortInputs(ctx, c.a, c.b); break;
	case 'E': capacityCase(ctx, c.a, c.b); break;
	case 'T': capacityTail(ctx); break;
	case 'F': volumeCase(ctx); break;
	}
}

} // namespace

int main(int argc, char** argv)
{
	mc::CheckDef def;
	def.id = "C04";
	def.init = build;
	def.ncases = [](Ctx&) { return gCases.size(); };
	def.run = runCase;
	def.describe = [](std::size_t i) { return std::string(1, gCases[i].kind) + " " + std::to_string(gCases[i].a) + " " + std::to_string(gCases[i].b); };
	def.caseTimeoutS = 1500;
	mc::alloc_cap = std::size_t(4) << 30;   // the explorer's own tables (seen set, parent links, bit matrices) exceed the default 64 MiB environment cap; no library allocation in this check is driven by input sizes
	return mc::Main(argc, argv, def);
}
