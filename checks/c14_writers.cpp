// C14 - writers write exactly what the history implies and refuse what does not fit.
//  (1) MemoryWriter: explicit-state BFS (offset, buffer bytes) to a fixpoint, boundary-valued alphabet, exact-size heap buffer
//  (2) DynamicMemoryWriter: BFS with content length capped
//  (3) size-prefixed writes: refuse iff the size does not fit; typed write/read mutual inverses
//  (4) stream copy product: chunk size x source length x start x reader backend x writer kind
//  (5) FileWriter: all 16 flag values x {exists, absent} x {directory exists, absent}
#include "mc/mc.hpp"
#include "mc/explore.hpp"
#include "mc/peek.hpp"
#include "Stream/FileWriter.h"
#include <memory>
#include <set>
#include <functional>
#include <sys/stat.h>

using namespace OP2Utility;
using mc::Ctx;
typedef unsigned __int128 u128;

namespace {

std::vector<uint64_t> bv(uint64_t len, uint64_t pos)
{
	uint64_t rem = len >= pos ? len - pos : 0;
	std::set<uint64_t> s = { 0, 1, 2, rem, rem + 1, len, len + 1, pos, pos + 1, 0x7FFFFFFFull, 0x80000000ull, 0xFFFFFFFFull, 0x100000000ull,
		0x7FFFFFFFFFFFFFFFull, 0x8000000000000000ull, ~0ull, ~0ull - 1, 0 - pos, 0 - pos + 1, 0 - pos + rem, 0 - pos - 1, 0 - len };
	if (rem) s.insert(rem - 1);
	if (pos) s.insert(pos - 1);
	return std::vector<uint64_t>(s.begin(), s.end());
}

enum WKind { wWrite, wSeek, wFwd, wBack, wBegin, wEnd, wU8, wU16, wU32, wVec, wPrefU8 };
struct WOp { int kind; uint64_t a = 0; int fam = 0; };

std::string showW(const WOp& o)
{
	static const char* n[] = { "Write", "Seek", "SeekForward", "SeekBackward", "SeekBeginning", "SeekEnd", "WriteU8", "WriteU16", "WriteU32", "WriteVec", "WritePrefixedU8" };
	return std::string(n[o.kind]) + "(" + std::to_string(o.a) + (o.kind == wWrite || o.kind >= wU8 ? (o.fam ? ",B" : ",A") : "") + ")";
}

// payload byte for absolute offset p in family f: misplacement is visible
inline uint8_t pay(int fam, uint64_t p) { return uint8_t((fam ? 0x80 : 0x40) | (p & 0x3F)); }

// ------------------------------------------------------------------------------------------------
// (1) MemoryWriter
// ------------------------------------------------------------------------------------------------
struct MemW {
	using Op = WOp;
	struct State { std::unique_ptr<uint8_t[]> buf; std::unique_ptr<Stream::MemoryWriter> w; std::vector<uint8_t> model; uint64_t mpos = 0; };
	Ctx& ctx; std::size_t n;
	std::unique_ptr<State> fresh()
	{
		auto s = std::make_unique<State>();
		s->buf.reset(new uint8_t[n ? n : 1]);
		std::memset(s->buf.get(), 0xCD, n ? n : 1);
		s->w = std::make_unique<Stream::MemoryWriter>(s->buf.get(), n);
		s->model.assign(n, 0xCD);
		return s;
	}
	std::unique_ptr<State> clone(const State& s)
	{
		// exact copy: same buffer bytes in a new exact-size block, same private cursor (set directly, not through Seek)
		auto c = std::make_unique<State>();
		c->buf.reset(new uint8_t[n ? n : 1]);
		std::memcpy(c->buf.get(), s.buf.get(), n ? n : 1);
		c->w = std::make_unique<Stream::MemoryWriter>(c->buf.get(), n);
		peek::copyCursor(*c->w, *s.w);
		c->model = s.model; c->mpos = s.mpos;
		return c;
	}
	std::string key(const State& s) { return peek::key(*s.w) + "|" + std::to_string(s.mpos) + "|" + std::string((const char*)s.buf.get(), n) + "|" + std::string(s.model.begin(), s.model.end()); }
	std::string show(const Op& o) { return showW(o); }
	std::vector<Op> enabled(const State& s)
	{
		std::vector<Op> v;
		auto K = bv(n, s.mpos);
		for (auto k : K) { v.push_back({ wWrite, k, 0 }); if (k && k <= n) v.push_back({ wWrite, k, 1 }); v.push_back({ wSeek, k }); v.push_back({ wFwd, k }); v.push_back({ wBack, k }); }
		v.push_back({ wBegin }); v.push_back({ wEnd });
		for (int f = 0; f < 2; ++f) { v.push_back({ wU8, 0, f }); v.push_back({ wU16, 0, f }); v.push_back({ wU32, 0, f }); }
		for (uint64_t m : { 0ull, 1ull, (unsigned long long)(n - s.mpos), (unsigned long long)(n - s.mpos + 1) }) { v.push_back({ wVec, m, 0 }); v.push_back({ wPrefU8, m, 1 }); }
		return v;
	}
	bool apply(State& s, const Op& op, bool check, const mc::Hist& hist)
	{
		auto bad = [&](const std::string& c, const std::string& d) { if (check) ctx.violation("C14/MemoryWriter/" + c, "n=" + std::to_string(n) + " " + hist.str(), d); return false; };
		uint64_t rem = n - s.mpos;
		auto& w = *s.w;
		std::vector<uint8_t> data;   // bytes the operation wants to append at mpos
		bool isWrite = true, expectOk = true;
		mc::Outcome o;
		switch (op.kind) {
		case wWrite: {
			uint64_t k = op.a;
			std::size_t real = std::size_t(k < 64 ? k : 64);
			std::unique_ptr<uint8_t[]> src(new uint8_t[real ? real : 1]);
			for (std::size_t i = 0; i < real; ++i) src[i] = pay(op.fam, s.mpos + i);
			expectOk = k <= rem;
			if (expectOk) data.assign(src.get(), src.get() + k);
			if (check) ctx.count(expectOk ? "memwriter/write-fits" : (k > ~0ull - s.mpos ? "memwriter/write-wraps" : "memwriter/write-too-big"));
			o = mc::guarded([&] { w.Write(src.get(), std::size_t(k)); });
			break;
		}
		case wU8: { uint8_t v = pay(op.fam, s.mpos); data = { v }; expectOk = 1 <= rem; o = mc::guarded([&] { w.Write(v); }); break; }
		case wU16: { data = { pay(op.fam, s.mpos), pay(op.fam, s.mpos + 1) }; uint16_t v; std::memcpy(&v, data.data(), 2); expectOk = 2 <= rem; o = mc::guarded([&] { w.Write(v); }); break; }
		case wU32: { data = { pay(op.fam, s.mpos), pay(op.fam, s.mpos + 1), pay(op.fam, s.mpos + 2), pay(op.fam, s.mpos + 3) }; uint32_t v; std::memcpy(&v, data.data(), 4); expectOk = 4 <= rem; o = mc::guarded([&] { w.Write(v); }); break; }
		case wVec: { for (uint64_t i = 0; i < op.a; ++i) data.push_back(pay(op.fam, s.mpos + i)); expectOk = op.a <= rem; auto v = data; o = mc::guarded([&] { w.Write(v); }); break; }
		case wPrefU8: {
			std::vector<uint8_t> v; for (uint64_t i = 0; i < op.a; ++i) v.push_back(pay(op.fam, s.mpos + 1 + i));
			data.push_back(uint8_t(op.a)); data.insert(data.end(), v.begin(), v.end());
			expectOk = op.a + 1 <= rem;
			o = mc::guarded([&] { w.template Write<uint8_t>(v); });
			if (!expectOk && o.cls != 'R' && rem >= 1) {
				// weaker reading: a refused size-prefixed write may have emitted the prefix before the body was refused
				uint64_t p = w.Position();
				if (p == s.mpos + 1) { s.model[s.mpos] = uint8_t(op.a); s.mpos += 1; if (check) ctx.count("memwriter/prefix-emitted-before-refusal"); }
			}
			break;
		}
		default: isWrite = false;
		}
		if (isWrite) {
			if (expectOk) {
				if (o.cls != 'R') return bad("refused-fitting-write", showW(op) + " " + o.what);
				std::copy(data.begin(), data.end(), s.model.begin() + s.mpos);
				s.mpos += data.size();
			}
			else if (o.cls == 'R') return bad("accepted-write-beyond-buffer", showW(op));
			else if (o.cls == 'X') return bad("non-std-exception", showW(op));
		}
		else {
			uint64_t a = op.a;
			bool fits = true; uint64_t np = s.mpos;
			switch (op.kind) {
			case wSeek: fits = a <= n; np = a; o = mc::guarded([&] { w.Seek(a); }); break;
			case wFwd: fits = a <= rem; np = s.mpos + a; o = mc::guarded([&] { w.SeekForward(a); }); break;
			case wBack: fits = a <= s.mpos; np = s.mpos - a; o = mc::guarded([&] { w.SeekBackward(a); }); break;
			case wBegin: np = 0; o = mc::guarded([&] { w.SeekBeginning(); }); break;
			case wEnd: np = n; o = mc::guarded([&] { w.SeekEnd(); }); break;
			}
			if (check) ctx.count(fits ? "memwriter/seek-fits" : "memwriter/seek-refused");
			if (fits) { if (o.cls != 'R') return bad("refused-in-range-seek", showW(op) + " " + o.what); s.mpos = np; }
			else if (o.cls == 'R') return bad("accepted-out-of-range-seek", showW(op) + " Position()=" + std::to_string(w.Position()) + " was " + std::to_string(s.mpos));
		}
		if (check) {
			if (w.Position() != s.mpos) return bad("position", showW(op) + " Position()=" + std::to_string(w.Position()) + " expected " + std::to_string(s.mpos));
			if (w.Length() != n) return bad("length", std::to_string(w.Length()));
			if (std::memcmp(s.buf.get(), s.model.data(), n) != 0) return bad("buffer-content", showW(op) + " buffer " + mc::hex(s.buf.get(), n) + " expected " + mc::hex(s.model.data(), n));
		}
		return true;
	}
};

// ------------------------------------------------------------------------------------------------
// (2) DynamicMemoryWriter
// ------------------------------------------------------------------------------------------------
struct DynW {
	using Op = WOp;
	struct State { std::unique_ptr<Stream::DynamicMemoryWriter> w; std::vector<uint8_t> model; };
	Ctx& ctx; std::size_t cap; bool prealloc;
	std::unique_ptr<State> fresh() { auto s = std::make_unique<State>(); s->w = prealloc ? std::make_unique<Stream::DynamicMemoryWriter>(3) : std::make_unique<Stream::DynamicMemoryWriter>(); return s; }
	std::unique_ptr<State> clone(const State& s) { auto c = std::make_unique<State>(); c->w = std::make_unique<Stream::DynamicMemoryWriter>(*s.w); c->model = s.model; return c; }
	std::string key(const State& s) { return peek::key(*s.w) + "|" + std::string(s.model.begin(), s.model.end()); }
	std::string show(const Op& o) { return showW(o); }
	std::vector<Op> enabled(const State& s)
	{
		std::vector<Op> v;
		uint64_t len = s.model.size();
		if (len > cap) return v;    // bound: states longer than the cap are checked but not expanded
		std::set<uint64_t> K = { 0, 1, 2, len, len + 1, 0x7FFFFFFFFFFFFFFFull, 0x8000000000000000ull, ~0ull, ~0ull - 1, 0 - len, 0 - len + 1, 0 - len - 1, 0x100000000ull, 0x80000000ull };
		if (len) K.insert(len - 1);
		for (auto k : K) { v.push_back({ wWrite, k, 0 }); if (k && k < 3) v.push_back({ wWrite, k, 1 }); v.push_back({ wSeek, k }); v.push_back({ wFwd, k }); v.push_back({ wBack, k }); }
		v.push_back({ wBegin }); v.push_back({ wEnd }); v.push_back({ wU16, 0, 1 }); v.push_back({ wPrefU8, 2, 0 });
		return v;
	}
	bool apply(State& s, const Op& op, bool check, const mc::Hist& hist)
	{
		auto bad = [&](const std::string& c, const std::string& d) { if (check) ctx.violation("C14/DynamicMemoryWriter/" + c, hist.str(), d); return false; };
		auto& w = *s.w;
		uint64_t len = s.model.size();
		const uint64_t huge = uint64_t(1) << 31;   // beyond the environment's allocation cap: must be refused with an error, content unchanged (alphabet values are <= len+2 or >= 2^31)
		mc::Outcome o;
		std::vector<uint8_t> next = s.model;
		bool expectOk = true;
		switch (op.kind) {
		case wWrite: {
			uint64_t k = op.a;
			std::size_t real = std::size_t(k < 64 ? k : 64);
			std::unique_ptr<uint8_t[]> src(new uint8_t[real ? real : 1]);
			for (std::size_t i = 0; i < real; ++i) src[i] = pay(op.fam, len + i);
			expectOk = k < huge;
			if (expectOk) next.insert(next.end(), src.get(), src.get() + real);
			if (check) ctx.count(expectOk ? "dynwriter/append" : (k > ~0ull - len ? "dynwriter/write-wraps" : "dynwriter/write-huge"));
			o = mc::guarded([&] { w.Write(src.get(), std::size_t(k)); });
			break;
		}
		case wU16: { uint16_t v = 0x4241; next.push_back(0x41); next.push_back(0x42); o = mc::guarded([&] { w.Write(v); }); break; }
		case wPrefU8: { std::vector<uint8_t> v = { 9, 8 }; next.push_back(2); next.push_back(9); next.push_back(8); o = mc::guarded([&] { w.template Write<uint8_t>(v); }); break; }
		case wSeek: expectOk = op.a < huge; if (expectOk) next.resize(op.a, 0); o = mc::guarded([&] { w.Seek(op.a); }); if (check) ctx.count(op.a > len ? "dynwriter/zero-fill" : "dynwriter/truncate"); break;
		case wFwd: expectOk = op.a < huge && u128(len) + op.a < huge; if (expectOk) next.resize(len + op.a, 0); o = mc::guarded([&] { w.SeekForward(op.a); }); break;
		case wBack: expectOk = op.a <= len; if (expectOk) next.resize(len - op.a); o = mc::guarded([&] { w.SeekBackward(op.a); }); break;
		case wBegin: next.clear(); o = mc::guarded([&] { w.SeekBeginning(); }); break;
		case wEnd: o = mc::guarded([&] { w.SeekEnd(); }); break;
		}
		if (expectOk) { if (o.cls != 'R') return bad("refused-valid-operation", showW(op) + " " + o.what); s.model = next; }
		else {
			if (check) ctx.count("dynwriter/refusals");
			if (o.cls == 'R') return bad("accepted-unsatisfiable-operation", showW(op) + " Length()=" + std::to_string(w.Length()));
			if (o.cls == 'X') return bad("non-std-exception", showW(op));
		}
		if (check) {
			if (w.Length() != s.model.size() || w.Position() != s.model.size()) return bad("length-position", showW(op) + " Length()=" + std::to_string(w.Length()) + " Position()=" + std::to_string(w.Position()) + " expected " + std::to_string(s.model.size()));
			auto r = w.GetReader();
			std::vector<uint8_t> got(std::size_t(r.Length()));
			r.Read(got.data(), got.size());
			if (got != s.model) return bad("content", showW(op) + " got " + mc::hex(got.data(), got.size()) + " expected " + mc::hex(s.model.data(), s.model.size()));
		}
		return true;
	}
};

// ------------------------------------------------------------------------------------------------
// (3) size prefixes and typed inverses
// ------------------------------------------------------------------------------------------------
template <class S, class C>
void prefixOne(Ctx& ctx, const char* sname, const char* cname, uint64_t z)
{
	typedef typename C::value_type E;
	C c; c.resize(z);
	for (uint64_t i = 0; i < z; ++i) c[i] = E(i * 7 + 1);
	Stream::DynamicMemoryWriter w;
	auto o = mc::guarded([&] { w.template Write<S>(c); });
	uint64_t maxv = uint64_t(std::numeric_limits<S>::max());
	std::string key = std::string("Write<") + sname + ">(" + cname + " of " + std::to_string(z) + ")";
	ctx.sub(key);
	ctx.transition();
	if (z > maxv) {
		ctx.count("prefix/too-large-refused");
		if (o.cls == 'R') { ctx.violation(std::string("C14/prefix/accepted-oversize/") + sname, key, "wrote " + std::to_string(w.Length()) + " bytes"); return; }
		if (w.Length() != 0) ctx.violation(std::string("C14/prefix/partial-output-on-refusal/") + sname, key, std::to_string(w.Length()));
		return;
	}
	ctx.count("prefix/fits");
	if (o.cls != 'R') { ctx.violation(std::string("C14/prefix/refused-fitting/") + sname, key, o.what); return; }
	std::vector<uint8_t> exp;
	for (std::size_t i = 0; i < sizeof(S); ++i) exp.push_back(uint8_t(z >> (8 * i)));
	const uint8_t* p = reinterpret_cast<const uint8_t*>(c.data());
	exp.insert(exp.end(), p, p + z * sizeof(E));
	auto r = w.GetReader();
	std::vector<uint8_t> got(std::size_t(r.Length())); r.Read(got.data(), got.size());
	if (got != exp) { ctx.violation(std::string("C14/prefix/encoding/") + sname, key, "got " + mc::hex(got.data(), got.size(), 16) + " expected " + mc::hex(exp.data(), exp.size(), 16)); return; }
	// inverse
	auto r2 = w.GetReader();
	C back; back.resize(2);
	auto q = mc::guarded([&] { r2.template Read<S>(back); });
	if (q.cls != 'R' || !(back == c) || r2.Position() != r2.Length()) ctx.violation(std::string("C14/prefix/read-is-not-inverse/") + sname, key, q.what);
	ctx.trace();
}

template <class S>
void prefixFamily(Ctx& ctx, const char* sname)
{
	uint64_t maxv = uint64_t(std::numeric_limits<S>::max());
	std::set<uint64_t> Z = { 0, 1, 2, maxv - 1, maxv, maxv + 1, maxv + 2 };
	for (auto z : Z) {
		if (z > 70000) continue;
		prefixOne<S, std::vector<uint8_t>>(ctx, sname, "vector<u8>", z);
		prefixOne<S, std::string>(ctx, sname, "string", z);
		if (z < 40000) prefixOne<S, std::vector<uint16_t>>(ctx, sname, "vector<u16>", z);
		if (z < 40000) prefixOne<S, std::u16string>(ctx, sname, "u16string", z);
		if (z < 40000) prefixOne<S, std::wstring>(ctx, sname, "wstring", z);
		if (z < 40000) prefixOne<S, std::vector<uint64_t>>(ctx, sname, "vector<u64>", z);
	}
}

struct Rec { uint8_t a; uint16_t b; uint8_t c[3]; } __attribute__((packed));

void typedInverse(Ctx& ctx)
{
	// typed writes and typed reads are mutual inverses for fixed-size values
	for (uint64_t v : { 0ull, 1ull, 0x7Full, 0x80ull, 0xFFull, 0x1234ull, 0xFFFFull, 0x12345678ull, 0xFFFFFFFFull, 0x0123456789ABCDEFull, ~0ull }) {
		Stream::DynamicMemoryWriter w;
		uint8_t a = uint8_t(v); uint16_t b = uint16_t(v); uint32_t c = uint32_t(v); uint64_t d = v; int32_t e = int32_t(v); Rec rec{ uint8_t(v), uint16_t(v >> 8), { 1, 2, 3 } };
		w.Write(a); w.Write(b); w.Write(c); w.Write(d); w.Write(e); w.Write(rec);
		std::vector<uint8_t> exp;
		mc::put8(exp, a); mc::put16(exp, b); mc::put32(exp, c); mc::put32(exp, uint32_t(d)); mc::put32(exp, uint32_t(d >> 32)); mc::put32(exp, uint32_t(e));
		mc::put8(exp, rec.a); mc::put16(exp, rec.b); exp.push_back(1); exp.push_back(2); exp.push_back(3);
		auto r = w.GetReader();
		std::vector<uint8_t> got(std::size_t(r.Length())); r.Read(got.data(), got.size());
		ctx.transition(6);
		if (got != exp) { ctx.violation("C14/typed/encoding", std::to_string(v), mc::hex(got.data(), got.size())); continue; }
		auto r2 = w.GetReader();
		uint8_t a2; uint16_t b2; uint32_t c2; uint64_t d2; int32_t e2; Rec rec2;
		r2.Read(a2); r2.Read(b2); r2.Read(c2); r2.Read(d2); r2.Read(e2); r2.Read(rec2);
		if (a2 != a || b2 != b || c2 != c || d2 != d || e2 != e || std::memcmp(&rec, &rec2, sizeof rec) != 0) ctx.violation("C14/typed/read-is-not-inverse", std::to_string(v), "");
		ctx.count("typed/inverse");
	}
}

// ------------------------------------------------------------------------------------------------
// (4) stream copy
// ------------------------------------------------------------------------------------------------
struct CopyEnv { std::string dir; };

template <std::size_t C>
void copyFamily(Ctx& ctx, const std::string& dir)
{
	std::set<std::size_t> lens;
	for (std::size_t l = 0; l <= 20; ++l) lens.insert(l);
	for (std::size_t l : { C - 1, C, C + 1, 2 * C, 2 * C + 1 }) lens.insert(l);
	static const char* bnames[] = { "memory", "memory-slice", "file", "file-slice", "slice-of-slice" };
	static const char* dnames[] = { "dynamic", "fixed", "file" };
	// content: hashed bytes; all 0xFF (EOF as a char) and all zero (a writer may be tempted to skip zero blocks) for the longer sources
	for (int content = 0; content < 3; ++content) for (std::size_t len : lens) {
		if (content && len < 16) continue;
		std::vector<uint8_t> src(len);
		for (std::size_t i = 0; i < len; ++i) src[i] = content == 0 ? mc::contentByte(uint32_t(C), i) : content == 1 ? uint8_t(0xFF) : uint8_t(0);
		std::vector<uint8_t> framed = { 0xD0, 0xD1 }; framed.insert(framed.end(), src.begin(), src.end()); framed.push_back(0xD2);
		std::string plain = dir + "/plain.bin", fr = dir + "/framed.bin";
		mc::writeFile(plain, src); mc::writeFile(fr, framed);
		std::set<std::size_t> starts = { 0, len };
		if (len >= 1) { starts.insert(1); starts.insert(len - 1); }
		if (len > C) starts.insert(C);
		for (std::size_t start : starts) for (int b = 0; b < 5; ++b) for (int d = 0; d < 3; ++d) {
			if (len > 4096 && (b == 1 || b == 4) && d == 2) continue;   // large x redundant combinations trimmed
			std::string key = "chunk=" + std::to_string(C) + " len=" + std::to_string(len) + (content == 1 ? " (all 0xFF)" : content == 2 ? " (all zero)" : "") + " start=" + std::to_string(start) + " src=" + bnames[b] + " dst=" + dnames[d];
			ctx.sub(key);
			std::unique_ptr<Stream::BidirectionalReader> r;
			std::unique_ptr<uint8_t[]> memCopy;
			auto mk = mc::guarded([&] {
				switch (b) {
				case 0: memCopy.reset(new uint8_t[len ? len : 1]); std::memcpy(memCopy.get(), src.data(), len); r = std::make_unique<Stream::MemoryReader>(memCopy.get(), len); break;
				case 1: { memCopy.reset(new uint8_t[framed.size()]); std::memcpy(memCopy.get(), framed.data(), framed.size()); Stream::MemoryReader whole(memCopy.get(), framed.size()); r = std::make_unique<Stream::MemoryReader>(whole.Slice(2, len)); break; }
				case 2: r = std::make_unique<Stream::FileReader>(plain); break;
				case 3: { Stream::FileReader f(fr); r = std::make_unique<Stream::FileSliceReader>(f.Slice(2, len)); break; }
				default: { Stream::FileReader f(fr); auto outer = f.Slice(1, len + 2); r = std::make_unique<Stream::FileSliceReader>(outer.Slice(1, len)); break; }
				}
				r->Seek(start);
			});
			if (mk.cls != 'R') { ctx.violation("C14/copy/setup", key, mk.what); continue; }
			std::size_t expectN = len - start;
			std::vector<uint8_t> got;
			mc::Outcome o;
			if (d == 0) {
				Stream::DynamicMemoryWriter w;
				o = mc::guarded([&] { w.template Write<C>(*r); });
				auto rd = w.GetReader(); got.resize(std::size_t(rd.Length())); rd.Read(got.data(), got.size());
			}
			else if (d == 1) {
				std::unique_ptr<uint8_t[]> dst(new uint8_t[expectN ? expectN : 1]);
				Stream::MemoryWriter w(dst.get(), expectN);
				o = mc::guarded([&] { w.template Write<C>(*r); });
				got.assign(dst.get(), dst.get() + std::size_t(w.Position()));
			}
			else {
				std::string out = dir + "/out.bin";
				{ Stream::FileWriter w(out); o = mc::guarded([&] { w.template Write<C>(*r); }); }
				got = mc::readFile(out);
			}
			ctx.transition();
			ctx.count(len >= C ? "copy/multi-chunk" : "copy/single-chunk");
			if (o.cls != 'R') { ctx.violation(std::string("C14/copy/throws/") + bnames[b], key, o.what); continue; }
			if (got.size() != expectN || std::memcmp(got.data(), src.data() + start, expectN) != 0)
				ctx.violation(std::string("C14/copy/content/") + bnames[b] + "/" + dnames[d], key, "copied " + std::to_string(got.size()) + " bytes, expected " + std::to_string(expectN) + "; head " + mc::hex(got.data(), got.size(), 24));
			// the reader stays usable after a copy ran it to its end: position = length, and seeking back to the start
			// position and copying again transfers the same bytes (a reader left in a failed state would deliver nothing)
			{
				uint64_t posAfter = ~0ull;
				auto q = mc::guarded([&] { posAfter = r->Position(); });
				if (q.cls != 'R' || posAfter != len) { ctx.violation(std::string("C14/copy/reader-position-after-copy/") + bnames[b], key, "Position() " + std::to_string(posAfter) + " expected " + std::to_string(len)); continue; }
				Stream::DynamicMemoryWriter w2;
				auto o2 = mc::guarded([&] { r->Seek(start); w2.template Write<C>(*r); });
				auto rd2 = w2.GetReader(); std::vector<uint8_t> again(std::size_t(rd2.Length())); if (!again.empty()) rd2.Read(again.data(), again.size());
				ctx.transition(); ctx.count("copy/second-copy-from-the-same-reader");
				if (o2.cls != 'R') { ctx.violation(std::string("C14/copy/second-copy-throws/") + bnames[b], key, o2.what); continue; }
				if (again.size() != expectN || std::memcmp(again.data(), src.data() + start, expectN) != 0) { ctx.violation(std::string("C14/copy/second-copy-content/") + bnames[b], key, "copied " + std::to_string(again.size()) + " bytes, expected " + std::to_string(expectN)); continue; }
			}
			ctx.outcome(mc::fnv(key.substr(0, key.find(" len"))) ^ (expectN % C) ^ ((expectN / C) << 8));
			ctx.trace();
		}
	}
}

// ------------------------------------------------------------------------------------------------
// (5) FileWriter flags
// ------------------------------------------------------------------------------------------------
bool exists(const std::string& p) { struct stat st; return ::stat(p.c_str(), &st) == 0; }

void fileWriterMatrix(Ctx& ctx)
{
	using OM = Stream::FileWriter::OpenMode;
	const std::vector<uint8_t> old = { 'O', 'L', 'D', '!', '!' }, fresh = { 'n', 'e', 'w' };
	for (int flags = 0; flags < 16; ++flags) for (int ex = 0; ex < 2; ++ex) for (int dirEx = 0; dirEx < 2; ++dirEx) {
		if (ex && !dirEx) continue;
		std::string base = ctx.freshDir("c14fw");
		std::string dir = base + "/sub";
		if (dirEx) mc::makeDir(dir);
		std::string path = dir + "/f.bin";
		if (ex) mc::writeFile(path, old);
		std::string key = "flags=" + std::to_string(flags) + (ex ? " file-exists" : " file-absent") + (dirEx ? "" : " directory-absent");
		ctx.sub(key);
		bool canEx = flags & OM::CanOpenExisting, canNew = flags & OM::CanOpenNew, trunc = flags & OM::Truncate, app = flags & OM::Append;
		mc::Outcome o = mc::guarded([&] {
			Stream::FileWriter w(path, static_cast<OM>(flags));
			w.Write(fresh.data(), fresh.size());
		});
		ctx.transition();
		bool invalid = (!canEx && !canNew) || (trunc && app);
		auto now = mc::readFile(path);
		bool nowExists = exists(path);
		std::string site;
		if (invalid) {
			ctx.count("filewriter/invalid-flags");
			if (o.cls == 'R') site = "accepted-invalid-flag-combination";
			else if (ex && now != old) site = "existing-file-modified-by-refused-open";
			else if (!ex && nowExists) site = "file-created-by-refused-open";
		}
		else if (ex && !canEx) {
			ctx.count("filewriter/existing-not-allowed");
			if (o.cls == 'R') site = "opened-existing-file-without-permission";
			else if (now != old) site = "existing-file-modified-by-refused-open";
		}
		else if (!ex && !canNew) {
			ctx.count("filewriter/new-not-allowed");
			if (o.cls == 'R') site = "created-file-without-permission";
			else if (nowExists) site = "file-created-by-refused-open";
		}
		else {
			if (o.cls != 'R') site = "refused-permitted-open";
			else if (trunc || !ex) {
				ctx.count("filewriter/truncate-or-new");
				if (now != fresh) site = "truncate-content";
			}
			else if (app) {
				ctx.count("filewriter/append-existing");
				std::vector<uint8_t> e = old; e.insert(e.end(), fresh.begin(), fresh.end());
				if (now != e) site = "append-does-not-preserve-and-append";
				else {
					// appending also after seeking back: what the file held before stays, everything written is behind it
					mc::writeFile(path, old);
					auto o2 = mc::guarded([&] { Stream::FileWriter w(path, static_cast<OM>(flags)); w.Write(fresh.data(), fresh.size()); w.SeekBeginning(); w.Write("XY", 2); w.Seek(2); w.Write("Z", 1); });
					auto now2 = mc::readFile(path);
					ctx.transition(); ctx.count("filewriter/append-after-seeking-back");
					if (o2.cls == 'R' && (now2.size() != old.size() + 6 || !std::equal(old.begin(), old.end(), now2.begin()))) { site = "append-mode-overwrote-existing-content"; now = now2; }
					else if (o2.cls != 'R' && now2.size() >= old.size() && !std::equal(old.begin(), old.end(), now2.begin())) { site = "append-mode-overwrote-existing-content"; now = now2; }
				}
			}
			else {
				ctx.count("filewriter/neither-truncate-nor-append");   // weaker reading: only the existence rules are asserted
				if (!nowExists) site = "file-missing-after-open";
			}
		}
		// without CanOpenNew nothing new may appear, not even the directory of the requested file
		if (site.empty() && !canNew && !dirEx) { ctx.count("filewriter/missing-directory-without-permission-to-create"); if (exists(dir)) site = "directory-created-without-permission-to-create"; }
		ctx.outcome(mc::fnv(key) ^ uint64_t(o.cls));
		if (!site.empty()) ctx.violation("C14/FileWriter/" + site, key, "outcome " + std::string(1, o.cls) + " " + o.what + "; file now " + (nowExists ? mc::hex(now.data(), now.size()) : std::string("absent")));
		ctx.trace();
		mc::removeTree(base);
	}
}

// ------------------------------------------------------------------------------------------------
const std::size_t memLensQuick[] = { 0, 1, 2, 4 };
const std::size_t memLensThorough[] = { 0, 1, 2, 3, 4, 5, 6 };

std::size_t nMem(Ctx& c) { return c.thorough ? 7 : 4; }

void runCase(std::size_t i, Ctx& ctx)
{
	std::size_t nm = nMem(ctx);
	if (i < nm) {
		std::size_t n = ctx.thorough ? memLensThorough[i] : memLensQuick[i];
		MemW h{ ctx, n };
		// the explorer's own tables exceed the 64 MiB environment cap for n = 6; no allocation of the fixed writer is input driven
		const std::size_t savedCap = mc::alloc_cap; mc::alloc_cap = std::size_t(8) << 30;
		auto r = mc::bfs(h, ctx, 6000000, 100000, "memwriter" + std::to_string(n));
		mc::alloc_cap = savedCap;
		ctx.trace(r.transitions);
		ctx.outcome(r.states * 31 + n);
		if (n == 2) ctx.sample("MemoryWriter n=2: states=" + std::to_string(r.states) + " transitions=" + std::to_string(r.transitions) + " e.g. history: Write(1,A) SeekForward(18446744073709551615) Write(2,B)");
		return;
	}
	i -= nm;
	if (i < 2) {
		DynW h{ ctx, ctx.thorough ? std::size_t(6) : std::size_t(4), i == 1 };
		auto r = mc::bfs(h, ctx, 3000000, 100000, i ? "dynwriter-prealloc" : "dynwriter");
		ctx.trace(r.transitions);
		ctx.outcome(r.states * 17 + i);
		if (i == 0) ctx.sample("DynamicMemoryWriter cap " + std::to_string(h.cap) + ": states=" + std::to_string(r.states) + " transitions=" + std::to_string(r.transitions));
		return;
	}
	i -= 2;
	if (i == 0) { prefixFamily<uint8_t>(ctx, "u8"); prefixFamily<int8_t>(ctx, "i8"); prefixFamily<uint16_t>(ctx, "u16"); prefixFamily<int16_t>(ctx, "i16"); prefixFamily<uint32_t>(ctx, "u32"); typedInverse(ctx); ctx.state(); return; }
	if (i == 1) { fileWriterMatrix(ctx); ctx.state(); ctx.sample("FileWriter: flags=9 (CanOpenExisting|Append) on existing file 'OLD!!' then Write('new') must leave 'OLD!!new'"); return; }
	i -= 2;
	if (peek::usedFallback()) ctx.count("binding/fallback-keys");
	std::string dir = ctx.freshDir("c14copy");
	switch (i) {
	case 0: copyFamily<1>(ctx, dir); break;
	case 1: copyFamily<2>(ctx, dir); break;
	case 2: copyFamily<3>(ctx, dir); break;
	case 3: copyFamily<4>(ctx, dir); break;
	case 4: copyFamily<7>(ctx, dir); break;
	case 5: copyFamily<8>(ctx, dir); break;
	case 6: copyFamily<16>(ctx, dir); break;
	default: copyFamily<0x20000>(ctx, dir); break;
	}
	ctx.state();
	mc::removeTree(dir);
}

} // namespace

int main(int argc, char** argv)
{
	mc::CheckDef def;
	def.id = "C14";
	def.ncases = [](Ctx& c) { return nMem(c) + 2 + 2 + 8; };
	def.run = runCase;
	def.caseTimeoutS = 900;
	return mc::Main(argc, argv, def);
}
