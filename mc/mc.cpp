#include "mc.hpp"
#include <sys/mman.h>
#include <sys/wait.h>
#include <sys/resource.h>
#include <sys/stat.h>
#include <sys/time.h>
#include <unistd.h>
#include <fcntl.h>
#include <dirent.h>
#include <signal.h>
#include <time.h>
#include <cerrno>
#include <cstdlib>
#include <new>
#include <set>
#include <unordered_map>
#include <algorithm>

// ---------------------------------------------------------------------------------------------
// Environment model: allocation. Huge requests are refused deterministically, fresh memory is
// filled with a configurable byte.
// ---------------------------------------------------------------------------------------------
namespace mc {
std::size_t alloc_cap = 64u << 20;
unsigned char heap_fill = 0xA5;
}

// fill mode is read from the environment on first use (allocations happen before main):
// VERIF_HEAP_NOFILL leaves fresh memory untouched (valgrind definedness tracking), VERIF_HEAP_FILL=<byte> selects the pattern
static int gFillMode = -2;   // -2 unknown, -1 no fill, 0..255 pattern
static void* verifAlloc(std::size_t n)
{
	if (gFillMode == -2) {
		if (std::getenv("VERIF_HEAP_NOFILL")) gFillMode = -1;
		else if (const char* f = std::getenv("VERIF_HEAP_FILL")) { gFillMode = int(std::strtoul(f, nullptr, 0) & 0xFF); mc::heap_fill = (unsigned char)gFillMode; }
		else gFillMode = mc::heap_fill;
	}
	if (n > mc::alloc_cap) throw std::bad_alloc();
	void* p = std::malloc(n ? n : 1);
	if (!p) throw std::bad_alloc();
	if (gFillMode >= 0) std::memset(p, gFillMode, n);
	return p;
}
void* operator new(std::size_t n) { return verifAlloc(n); }
void* operator new[](std::size_t n) { return verifAlloc(n); }
void* operator new(std::size_t n, const std::nothrow_t&) noexcept { try { return verifAlloc(n); } catch (...) { return nullptr; } }
void* operator new[](std::size_t n, const std::nothrow_t&) noexcept { try { return verifAlloc(n); } catch (...) { return nullptr; } }
void operator delete(void* p) noexcept { std::free(p); }
void operator delete[](void* p) noexcept { std::free(p); }
void operator delete(void* p, std::size_t) noexcept { std::free(p); }
void operator delete[](void* p, std::size_t) noexcept { std::free(p); }
void operator delete(void* p, const std::nothrow_t&) noexcept { std::free(p); }
void operator delete[](void* p, const std::nothrow_t&) noexcept { std::free(p); }

extern "C" const char* __asan_default_options()
{
	return "abort_on_error=1:detect_leaks=0:allocator_may_return_null=1:handle_abort=0:malloc_context_size=12:detect_stack_use_after_return=0";
}
extern "C" const char* __ubsan_default_options()
{
	return "print_stacktrace=1:abort_on_error=1";
}

namespace mc {

// ---------------------------------------------------------------------------------------------
// utilities
// ---------------------------------------------------------------------------------------------
std::string hex(const void* p, std::size_t n, std::size_t maxBytes)
{
	static const char* d = "0123456789abcdef";
	const unsigned char* b = static_cast<const unsigned char*>(p);
	std::string s;
	std::size_t m = n < maxBytes ? n : maxBytes;
	for (std::size_t i = 0; i < m; ++i) { s.push_back(d[b[i] >> 4]); s.push_back(d[b[i] & 15]); }
	if (m < n) s += "..(" + std::to_string(n) + " bytes)";
	return s;
}

std::string jstr(const std::string& s)
{
	std::string o = "\"";
	for (unsigned char c : s) {
		switch (c) {
		case '"': o += "\\\""; break;
		case '\\': o += "\\\\"; break;
		case '\n': o += "\\n"; break;
		case '\r': o += "\\r"; break;
		case '\t': o += "\\t"; break;
		default:
			if (c < 0x20 || c >= 0x7f) { char b[8]; std::snprintf(b, sizeof b, "\\u%04x", c); o += b; }
			else o.push_back(char(c));
		}
	}
	o += "\"";
	return o;
}

uint64_t fnv(const void* p, std::size_t n, uint64_t h)
{
	const unsigned char* b = static_cast<const unsigned char*>(p);
	for (std::size_t i = 0; i < n; ++i) { h ^= b[i]; h *= 1099511628211ull; }
	return h;
}

std::vector<uint8_t> readFile(const std::string& path, bool* ok)
{
	std::vector<uint8_t> v;
	FILE* f = std::fopen(path.c_str(), "rb");
	if (!f) { if (ok) *ok = false; return v; }
	unsigned char buf[65536];
	std::size_t n;
	while ((n = std::fread(buf, 1, sizeof buf, f)) > 0) v.insert(v.end(), buf, buf + n);
	std::fclose(f);
	if (ok) *ok = true;
	return v;
}

void writeFile(const std::string& path, const void* p, std::size_t n)
{
	FILE* f = std::fopen(path.c_str(), "wb");
	if (!f) { std::fprintf(stderr, "harness: cannot create %s: %s\n", path.c_str(), std::strerror(errno)); std::abort(); }
	if (n && std::fwrite(p, 1, n, f) != n) { std::fprintf(stderr, "harness: short write %s\n", path.c_str()); std::abort(); }
	std::fclose(f);
}

void makeDir(const std::string& path)
{
	std::string cur;
	for (std::size_t i = 0; i <= path.size(); ++i) {
		if (i == path.size() || path[i] == '/') {
			if (!cur.empty()) ::mkdir(cur.c_str(), 0777);
		}
		if (i < path.size()) cur.push_back(path[i]);
	}
}

void removeTree(const std::string& path)
{
	struct stat st;
	if (::lstat(path.c_str(), &st) != 0) return;
	if (S_ISDIR(st.st_mode)) {
		DIR* d = ::opendir(path.c_str());
		if (d) {
			while (dirent* e = ::readdir(d)) {
				std::string n = e->d_name;
				if (n == "." || n == "..") continue;
				removeTree(path + "/" + n);
			}
			::closedir(d);
		}
		::rmdir(path.c_str());
	}
	else ::unlink(path.c_str());
}

uint64_t hashTree(const std::string& dir)
{
	std::vector<std::string> names;
	DIR* d = ::opendir(dir.c_str());
	if (!d) return 0x1234;
	while (dirent* e = ::readdir(d)) {
		std::string n = e->d_name;
		if (n == "." || n == "..") continue;
		names.push_back(n);
	}
	::closedir(d);
	std::sort(names.begin(), names.end());
	uint64_t h = 0xcbf29ce484222325ull;
	for (auto& n : names) {
		std::string p = dir + "/" + n;
		struct stat st;
		if (::lstat(p.c_str(), &st) != 0) continue;
		h = fnv(n, h);
		if (S_ISDIR(st.st_mode)) { h = fnv("D", 1, h); uint64_t s = hashTree(p); h = fnv(&s, 8, h); }
		else { auto v = readFile(p); uint64_t sz = v.size(); h = fnv("F", 1, h); h = fnv(&sz, 8, h); h = fnv(v.data(), v.size(), h); }
	}
	return h;
}

// ---------------------------------------------------------------------------------------------
// shared state
// ---------------------------------------------------------------------------------------------
static const int kMaxWorkers = 64;
static const int kMaxCounters = 768;
static const int kOutcomeSlots = 1 << 18;
static const int kMaxSamples = 6;

struct Shared {
	std::atomic<uint64_t> nextCase, casesDone, states, transitions, traces, violations, nOutcomes, capsHit;
	std::atomic<int> counterLock;
	std::atomic<uint32_t> nCounters;
	struct Counter { char name[72]; std::atomic<uint64_t> v; } counters[kMaxCounters];
	struct Slot { std::atomic<int64_t> caseIdx; char sub[1000]; } slots[kMaxWorkers];
	std::atomic<uint32_t> nSamples;
	char samples[kMaxSamples][900];
	std::atomic<uint32_t> nCaps;
	char caps[8][120];
	std::atomic<uint64_t> outcomes[kOutcomeSlots];
	double deadline;     // absolute CLOCK_MONOTONIC seconds, 0 = none
	std::atomic<int> slowLock;
	struct Slow { double s; int64_t idx; } slow[8];
};

static Shared* g = nullptr;
static int gViolFd = -1;
static std::string gOutDir, gScratchRoot;
static std::map<std::string, int> gSiteCount;   // per process: limit records per site
static CheckDef* gDef = nullptr;

static double nowS()
{
	timespec ts; clock_gettime(CLOCK_MONOTONIC, &ts);
	return ts.tv_sec + ts.tv_nsec * 1e-9;
}

void Ctx::count(const char* name, uint64_t n)
{
	// fast path: string literals have stable addresses
	static std::unordered_map<const void*, int> byAddr;
	static std::map<std::string, int> cache;
	auto ia = byAddr.find(name);
	if (ia != byAddr.end() && !std::strcmp(g->counters[ia->second].name, name)) { g->counters[ia->second].v.fetch_add(n); return; }
	auto it = cache.find(name);
	int idx;
	if (it != cache.end()) idx = it->second;
	else {
		while (g->counterLock.exchange(1)) {}
		uint32_t k = g->nCounters.load();
		idx = -1;
		for (uint32_t i = 0; i < k; ++i) if (!std::strcmp(g->counters[i].name, name)) { idx = int(i); break; }
		if (idx < 0) {
			if (k >= kMaxCounters) { g->counterLock.store(0); return; }
			std::snprintf(g->counters[k].name, sizeof g->counters[k].name, "%s", name);
			g->nCounters.store(k + 1);
			idx = int(k);
		}
		g->counterLock.store(0);
		cache[name] = idx;
	}
	if (byAddr.size() < 4096) byAddr[name] = idx;
	g->counters[idx].v.fetch_add(n);
}

void Ctx::state(uint64_t n) { g->states.fetch_add(n); }
void Ctx::transition(uint64_t n) { g->transitions.fetch_add(n); }
void Ctx::trace(uint64_t n) { g->traces.fetch_add(n); }

void Ctx::outcome(uint64_t h)
{
	if (h == 0) h = 1;
	uint64_t i = (h * 0x9E3779B97F4A7C15ull) >> (64 - 18);
	for (int probe = 0; probe < 64; ++probe) {
		uint64_t cur = g->outcomes[i].load();
		if (cur == h) return;
		if (cur == 0) {
			uint64_t expect = 0;
			if (g->outcomes[i].compare_exchange_strong(expect, h)) { g->nOutcomes.fetch_add(1); return; }
			if (expect == h) return;
		}
		i = (i + 1) & (kOutcomeSlots - 1);
	}
}

void Ctx::sub(const std::string& label)
{
	std::snprintf(g->slots[worker].sub, sizeof g->slots[worker].sub, "%s", label.c_str());
}

void Ctx::sample(const std::string& text)
{
	if (g->nSamples.load() >= kMaxSamples) return;
	uint32_t k = g->nSamples.fetch_add(1);
	if (k >= kMaxSamples) return;
	std::snprintf(g->samples[k], sizeof g->samples[k], "%s", text.c_str());
}

void Ctx::capHit(const char* what)
{
	g->capsHit.fetch_add(1);
	uint32_t k = g->nCaps.fetch_add(1);
	if (k < 8) std::snprintf(g->caps[k], sizeof g->caps[k], "%s", what);
}

void Ctx::violation(const std::string& site, const std::string& key, const std::string& detail)
{
	g->violations.fetch_add(1);
	count(("violation:" + site).c_str());
	int& c = gSiteCount[site];
	if (++c > 3 && !single) return;
	std::string line = "{\"site\":" + jstr(site) + ",\"key\":" + jstr(key) + ",\"case\":" + std::to_string(caseIndex) +
		",\"kind\":\"oracle\",\"detail\":" + jstr(detail.substr(0, 3000)) + "}\n";
	if (gViolFd >= 0) { ssize_t r = ::write(gViolFd, line.data(), line.size()); (void)r; }
	if (single) { std::fputs(line.c_str(), stdout); }
}

std::string Ctx::scratch()
{
	std::string d = gScratchRoot + "/w" + std::to_string(worker);
	makeDir(d);
	return d;
}

std::string Ctx::freshDir(const std::string& name)
{
	std::string d = scratch() + "/" + name;
	removeTree(d);
	makeDir(d);
	return d;
}

bool Ctx::deadlinePassed()
{
	return g->deadline > 0 && nowS() > g->deadline;
}

// ---------------------------------------------------------------------------------------------
// worker / parent
// ---------------------------------------------------------------------------------------------
static void onAlarm(int) { const char m[] = "\nharness: WATCHDOG case exceeded its time limit\n"; ssize_t r = ::write(2, m, sizeof m - 1); (void)r; _exit(97); }

static void setLimits(const CheckDef& def)
{
	rlimit rl; rl.rlim_cur = rl.rlim_max = def.fsizeLimit;
	setrlimit(RLIMIT_FSIZE, &rl);
	signal(SIGXFSZ, SIG_IGN);
	rlimit core; core.rlim_cur = core.rlim_max = 0; setrlimit(RLIMIT_CORE, &core);
}

static void runOneCase(CheckDef& def, Ctx& ctx, std::size_t i, int timeoutS)
{
	ctx.caseIndex = i;
	g->slots[ctx.worker].caseIdx.store(int64_t(i));
	g->slots[ctx.worker].sub[0] = 0;
	signal(SIGALRM, onAlarm);
	alarm(unsigned(timeoutS));
	try { def.run(i, ctx); }
	catch (const std::exception& e) {
		ctx.violation("harness/uncaught-exception", "case " + std::to_string(i), std::string("exception escaped the case body: ") + e.what());
	}
	alarm(0);
}

static void workerLoop(CheckDef& def, Ctx ctx, std::size_t n, int errFd)
{
	setLimits(def);
	for (;;) {
		if (ctx.deadlinePassed()) break;
		uint64_t i = g->nextCase.fetch_add(1);
		if (i >= n) break;
		if (errFd >= 0) { if (ftruncate(errFd, 0) == 0) lseek(errFd, 0, SEEK_SET); }
		double c0 = nowS();
		runOneCase(def, ctx, i, def.caseTimeoutS);
		double dt = nowS() - c0;
		while (g->slowLock.exchange(1)) {}
		{ int m = 0; for (int k = 1; k < 8; ++k) if (g->slow[k].s < g->slow[m].s) m = k; if (dt > g->slow[m].s) { g->slow[m].s = dt; g->slow[m].idx = int64_t(i); } }
		g->slowLock.store(0);
		g->casesDone.fetch_add(1);
	}
	removeTree(gScratchRoot + "/w" + std::to_string(ctx.worker));
	_exit(0);
}

static std::string tailOf(const std::string& path, std::size_t maxBytes = 6000)
{
	auto v = readFile(path);
	std::size_t b = v.size() > maxBytes ? v.size() - maxBytes : 0;
	return std::string(v.begin() + b, v.end());
}

static std::string headOf(const std::string& path, std::size_t maxBytes = 3500)
{
	auto v = readFile(path);
	std::size_t e = v.size() > maxBytes ? maxBytes : v.size();
	return std::string(v.begin(), v.begin() + e);
}

static std::string classify(int status, const std::string& err)
{
	if (WIFEXITED(status) && WEXITSTATUS(status) == 97) return "timeout";
	if (err.find("AddressSanitizer") != std::string::npos) {
		auto p = err.find("AddressSanitizer: ");
		std::string k = "asan";
		if (p != std::string::npos) {
			auto q = err.find_first_of(" \n", p + 18);
			k += ":" + err.substr(p + 18, q - (p + 18));
		}
		return k;
	}
	if (err.find("runtime error:") != std::string::npos) {
		auto p = err.find("runtime error: ");
		auto q = err.find('\n', p);
		std::string msg = err.substr(p + 15, (q == std::string::npos ? err.size() : q) - (p + 15));
		// normalise numbers so that the class is stable across inputs
		std::string k;
		for (char c : msg) { if ((c >= '0' && c <= '9') || c == '-') { if (k.empty() || k.back() != '#') k.push_back('#'); } else k.push_back(c); }
		return "ubsan:" + k.substr(0, 80);
	}
	if (WIFSIGNALED(status)) return "signal:" + std::to_string(WTERMSIG(status));
	if (WIFEXITED(status)) return "exit:" + std::to_string(WEXITSTATUS(status));
	return "unknown";
}

// run one case alone in a child; returns wait status, stderr goes to errPath
static int runIsolated(CheckDef& def, Ctx ctx, std::size_t i, int timeoutS, const std::string& errPath)
{
	pid_t pid = fork();
	if (pid == 0) {
		int fd = ::open(errPath.c_str(), O_CREAT | O_TRUNC | O_WRONLY, 0644);
		if (fd >= 0) { dup2(fd, 2); }
		setLimits(def);
		ctx.worker = kMaxWorkers - 1;
		ctx.replaying = true;
		gViolFd = -1; // replays do not record oracle violations a second time
		runOneCase(def, ctx, i, timeoutS);
		removeTree(gScratchRoot + "/w" + std::to_string(ctx.worker));
		_exit(0);
	}
	int st = 0;
	waitpid(pid, &st, 0);
	return st;
}

static void writeStats(const CheckDef& def, const Ctx& ctx, std::size_t n, double wall, int workers, uint64_t crashes, uint64_t unreproduced)
{
	std::string p = gOutDir + "/stats.json";
	FILE* f = std::fopen(p.c_str(), "w");
	if (!f) return;
	bool complete = g->casesDone.load() >= n;
	std::fprintf(f, "{\n \"id\": %s,\n \"tier\": %s,\n \"seed\": %llu,\n \"cases\": %zu,\n \"cases_done\": %llu,\n", jstr(def.id).c_str(), jstr(ctx.tier).c_str(),
		(unsigned long long)ctx.seed, n, (unsigned long long)g->casesDone.load());
	std::fprintf(f, " \"states\": %llu,\n \"transitions\": %llu,\n \"traces\": %llu,\n \"violations\": %llu,\n \"distinct_outcomes\": %llu,\n",
		(unsigned long long)g->states.load(), (unsigned long long)g->transitions.load(), (unsigned long long)g->traces.load(),
		(unsigned long long)g->violations.load(), (unsigned long long)g->nOutcomes.load());
	std::fprintf(f, " \"crash_violations\": %llu,\n \"unreproduced_deaths\": %llu,\n \"caps_hit\": %llu,\n \"complete\": %s,\n \"workers\": %d,\n \"wall_s\": %.3f,\n",
		(unsigned long long)crashes, (unsigned long long)unreproduced, (unsigned long long)g->capsHit.load(), complete ? "true" : "false", workers, wall);
	std::fprintf(f, " \"slowest_cases\": [");
	{ bool first = true; for (int k = 0; k < 8; ++k) if (g->slow[k].s > 0) { std::fprintf(f, "%s{\"case\": %lld, \"s\": %.2f, \"what\": %s}", first ? "" : ", ", (long long)g->slow[k].idx, g->slow[k].s, jstr(gDef && gDef->describe ? gDef->describe(std::size_t(g->slow[k].idx)) : std::string()).c_str()); first = false; } }
	std::fprintf(f, "],\n");
	std::fprintf(f, " \"caps\": [");
	uint32_t nc = std::min<uint32_t>(g->nCaps.load(), 8);
	for (uint32_t i = 0; i < nc; ++i) std::fprintf(f, "%s%s", i ? ", " : "", jstr(g->caps[i]).c_str());
	std::fprintf(f, "],\n \"samples\": [");
	uint32_t ns = std::min<uint32_t>(g->nSamples.load(), kMaxSamples);
	for (uint32_t i = 0; i < ns; ++i) std::fprintf(f, "%s%s", i ? ", " : "", jstr(g->samples[i]).c_str());
	std::fprintf(f, "],\n \"counters\": {");
	uint32_t k = g->nCounters.load();
	std::vector<std::pair<std::string, uint64_t>> cs;
	for (uint32_t i = 0; i < k; ++i) cs.push_back({ g->counters[i].name, g->counters[i].v.load() });
	std::sort(cs.begin(), cs.end());
	for (std::size_t i = 0; i < cs.size(); ++i) std::fprintf(f, "%s\n  %s: %llu", i ? "," : "", jstr(cs[i].first).c_str(), (unsigned long long)cs[i].second);
	std::fprintf(f, "\n }\n}\n");
	std::fclose(f);
}

int Main(int argc, char** argv, CheckDef& def)
{
	gDef = &def;
	Ctx ctx;
	std::string outDir = "/verif/build/out/" + def.id;
	long singleCase = -1;
	int workers = 16;
	if (const char* w = std::getenv("VERIF_WORKERS")) workers = std::atoi(w);
	if (const char* s = std::getenv("VERIF_SEED")) ctx.seed = std::strtoull(s, nullptr, 10);
	if (const char* c = std::getenv("VERIF_ALLOC_CAP")) alloc_cap = std::strtoull(c, nullptr, 10);
	double deadlineS = 0;
	if (const char* d = std::getenv("VERIF_DEADLINE_S")) deadlineS = std::atof(d);
	for (int i = 1; i < argc; ++i) {
		std::string a = argv[i];
		if (a == "--tier" && i + 1 < argc) ctx.tier = argv[++i];
		else if (a == "--out" && i + 1 < argc) outDir = argv[++i];
		else if (a == "--case" && i + 1 < argc) singleCase = std::atol(argv[++i]);
		else if (a == "--workers" && i + 1 < argc) workers = std::atoi(argv[++i]);
		else if (a == "--deadline" && i + 1 < argc) deadlineS = std::atof(argv[++i]);
		else { std::fprintf(stderr, "usage: %s --tier quick|thorough [--out DIR] [--case N] [--workers N]\n", argv[0]); return 2; }
	}
	if (workers < 1) workers = 1;
	if (workers > kMaxWorkers - 2) workers = kMaxWorkers - 2;
	ctx.thorough = ctx.tier == "thorough";
	gOutDir = outDir;
	makeDir(outDir);

	const char* shm = "/dev/shm";
	struct stat st;
	std::string root = (::stat(shm, &st) == 0 && S_ISDIR(st.st_mode)) ? std::string(shm) : std::string("/verif/build/scratch");
	gScratchRoot = root + "/opmc." + def.id + "." + std::to_string(getpid());
	makeDir(gScratchRoot);

	g = static_cast<Shared*>(mmap(nullptr, sizeof(Shared), PROT_READ | PROT_WRITE, MAP_SHARED | MAP_ANONYMOUS, -1, 0));
	if (g == MAP_FAILED) { std::perror("mmap"); return 2; }
	std::memset(static_cast<void*>(g), 0, sizeof(Shared));
	for (auto& s : g->slots) s.caseIdx.store(-1);

	double t0 = nowS();
	g->deadline = deadlineS > 0 ? t0 + deadlineS : 0;

	if (def.init) def.init(ctx);
	std::size_t n = def.ncases(ctx);

	if (singleCase >= 0) {
		ctx.single = true;
		ctx.worker = 0;
		setLimits(def);
		if (std::size_t(singleCase) >= n) { std::fprintf(stderr, "case %ld out of range (%zu cases)\n", singleCase, n); return 2; }
		std::printf("replaying %s tier=%s case=%ld%s\n", def.id.c_str(), ctx.tier.c_str(), singleCase,
			def.describe ? (" : " + def.describe(std::size_t(singleCase))).c_str() : "");
		std::fflush(stdout);
		runOneCase(def, ctx, std::size_t(singleCase), def.caseTimeoutS * 4);
		uint64_t v = g->violations.load();
		std::printf("replay finished: %llu violation(s)\n", (unsigned long long)v);
		removeTree(gScratchRoot);
		return v ? 1 : 0;
	}

	std::string violPath = outDir + "/violations.jsonl";
	gViolFd = ::open(violPath.c_str(), O_CREAT | O_TRUNC | O_WRONLY | O_APPEND, 0644);

	std::vector<pid_t> pids(workers, -1);
	auto spawn = [&](int w) {
		std::string errPath = outDir + "/w" + std::to_string(w) + ".err";
		pid_t pid = fork();
		if (pid == 0) {
			int fd = ::open(errPath.c_str(), O_CREAT | O_TRUNC | O_RDWR, 0644);
			if (fd >= 0) dup2(fd, 2);
			Ctx c = ctx; c.worker = w;
			workerLoop(def, c, n, fd >= 0 ? 2 : -1);
		}
		pids[w] = pid;
	};
	int live = 0;
	for (int w = 0; w < workers && std::size_t(w) < std::max<std::size_t>(n, 1); ++w) { spawn(w); ++live; }

	uint64_t crashViolations = 0, unreproduced = 0;
	std::map<std::string, int> crashSiteCount;
	while (live > 0) {
		int status = 0;
		pid_t pid = waitpid(-1, &status, 0);
		if (pid < 0) { if (errno == EINTR) continue; break; }
		int w = -1;
		for (int i = 0; i < workers; ++i) if (pids[i] == pid) w = i;
		if (w < 0) continue;
		--live; pids[w] = -1;
		if (WIFEXITED(status) && WEXITSTATUS(status) == 0) continue;
		// abnormal death: attribute to the case in the slot, replay twice
		int64_t ci = g->slots[w].caseIdx.load();
		std::string subLabel = g->slots[w].sub;
		std::string errPath = outDir + "/w" + std::to_string(w) + ".err";
		std::string errText = tailOf(errPath);
		std::string cls = classify(status, errText);
		g->casesDone.fetch_add(1);
		if (ci >= 0) {
			bool same = true;
			std::string rerr;
			for (int rep = 0; rep < 2 && same; ++rep) {
				std::string rp = outDir + "/replay_w" + std::to_string(w) + ".err";
				int to = def.caseTimeoutS * 2;   // a replayed case gets twice the limit before it is called a hang
				int st2 = runIsolated(def, ctx, std::size_t(ci), to, rp);
				rerr = headOf(rp);
				if (g->slots[kMaxWorkers - 1].sub[0]) subLabel = g->slots[kMaxWorkers - 1].sub;   // detailed label written by the replay
				std::string cls2 = classify(st2, tailOf(rp));
				bool died = !(WIFEXITED(st2) && WEXITSTATUS(st2) == 0);
				if (!died || cls2 != cls) same = false;
			}
			if (same) {
				std::string site = "crash/" + cls;
				++crashViolations;
				g->violations.fetch_add(1);
				Ctx c2 = ctx; c2.worker = w; c2.count(("violation:" + site).c_str());
				if (++crashSiteCount[site] <= 6) {
					std::string line = "{\"site\":" + jstr(site) + ",\"key\":" + jstr(subLabel) + ",\"case\":" + std::to_string(ci) +
						",\"kind\":\"crash\",\"detail\":" + jstr(rerr) + "}\n";
					ssize_t r = ::write(gViolFd, line.data(), line.size()); (void)r;
				}
			}
			else {
				++unreproduced;
				std::fprintf(stderr, "harness: worker %d died (%s) in case %lld [%s] but the death did not reproduce in two isolated replays; not reported\n",
					w, cls.c_str(), (long long)ci, subLabel.c_str());
			}
		}
		removeTree(gScratchRoot + "/w" + std::to_string(w));
		removeTree(gScratchRoot + "/w" + std::to_string(kMaxWorkers - 1));
		// continue with a fresh worker if work remains
		if (g->nextCase.load() < n && !(g->deadline > 0 && nowS() > g->deadline)) { spawn(w); ++live; }
	}
	double wall = nowS() - t0;
	writeStats(def, ctx, n, wall, workers, crashViolations, unreproduced);
	::close(gViolFd);
	removeTree(gScratchRoot);
	std::printf("%s tier=%s cases=%llu/%zu states=%llu transitions=%llu outcomes=%llu violations=%llu wall=%.1fs\n", def.id.c_str(), ctx.tier.c_str(),
		(unsigned long long)g->casesDone.load(), n, (unsigned long long)g->states.load(), (unsigned long long)g->transitions.load(),
		(unsigned long long)g->nOutcomes.load(), (unsigned long long)g->violations.load(), wall);
	return 0;
}

} // namespace mc
