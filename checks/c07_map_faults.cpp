// C07 - map and saved-game readers are safe and self-consistent on arbitrary bytes.
//  (1) every proper prefix of valid maps and saved games (reader over one buffer whose tail is poisoned)
//  (2) every header/count/length field x boundary values, byte substitutions, field pairs (thorough), log-width x height grid
//  (3) saved game == map file on the shared portion, for every map of the C06 quick set
#include "mc/mc.hpp"
#include "mc/faults.hpp"
#include "checks/map_common.hpp"
#include "Stream/FileReader.h"
#include <memory>
#include <set>
#include <functional>
#if defined(__SANITIZE_ADDRESS__)
#include <sanitizer/asan_interface.h>
#define POISON(p, n) __asan_poison_memory_region((p), (n))
#define UNPOISON(p, n) __asan_unpoison_memory_region((p), (n))
#else
#define POISON(p, n) ((void)0)
#define UNPOISON(p, n) ((void)0)
#endif

using namespace OP2Utility;
using mc::Ctx;

namespace {

struct SeedDef { std::string name; bool saved; std::vector<uint8_t> bytes; std::vector<mc::FField> fields; std::size_t consumed; std::size_t subFrom, subTo; };
std::vector<SeedDef> gSeeds;

std::vector<mc::FField> conv(const std::vector<ref::Field>& f) { std::vector<mc::FField> r; for (auto& x : f) r.push_back({ x.offset, x.width, x.name }); return r; }

void buildSeeds()
{
	gSeeds.clear();
	auto cfgMap = [&](const std::string& name, std::vector<int> cfg) {
		ref::RMap m = mapc::makeMap(cfg);
		std::vector<ref::Field> f; std::size_t c = 0;
		auto b = ref::encodeMap(m, &f, &c);
		gSeeds.push_back({ name, false, b, conv(f), c, 0, b.size() });
	};
	std::vector<int> z(mapc::kDims, 0);
	cfgMap("map32x2", z);
	{ auto c = z; c[0] = 1; c[1] = 1; c[6] = 1; c[7] = 1; c[8] = 1; c[9] = 1; cfgMap("map1x0-empty", c); }
	{ auto c = z; c[0] = 4; c[1] = 3; c[6] = 5; c[9] = 4; c[8] = 2; cfgMap("map64x3-full", c); }
	{ auto c = z; c[0] = 2; c[1] = 2; c[6] = 4; c[9] = 6; c[11] = 1; cfgMap("map2x1-trailing", c); }
	{ auto c = z; c[6] = 6; c[9] = 5; c[3] = 1; cfgMap("map32x2-5sources", c); }
	auto sg = [&](const std::string& name, std::vector<int> cfg, ref::RSavedUnits u) {
		ref::RMap m = mapc::makeMap(cfg);
		std::vector<ref::Field> f; std::size_t c = 0;
		auto b = ref::encodeSavedGame(m, u, &f, &c);
		std::size_t mapEnd = f.back().offset;   // offset of the final tag
		for (auto& x : f) if (x.name == "objectCount2") mapEnd = x.offset + 4;
		gSeeds.push_back({ name, true, b, conv(f), c, 0x1E025 - 8, mapEnd + 8 });
	};
	{ ref::RSavedUnits u; sg("save32x2", z, u); }
	{ ref::RSavedUnits u; u.unitCount = 3; u.lastUsed = 2; u.nextFree = 4; u.firstFree = 9; u.n1 = 1; u.n2 = 2; auto c = z; c[0] = 4; c[6] = 5; c[3] = 1; sg("save64x2-freelist", c, u); }
	{ ref::RSavedUnits u; u.unitCount = 0; u.sizeOfUnit = 7; u.n2 = 1; auto c = z; c[1] = 1; c[6] = 1; sg("save32x0-nounits", c, u); }
}

// judge one parse result; returns false if a violation was reported
bool judgeReturned(Ctx& ctx, const Map& m, const std::string& key, const char* what)
{
	uint64_t W = m.WidthInTiles(), H = m.HeightInTiles();
	if (W == 0 || (W & (W - 1)) != 0) { ctx.violation(std::string("C07/") + what + "/width-not-a-power-of-two", key, std::to_string(W)); return false; }
	if (uint64_t(m.tiles.size()) != W * H || m.TileCount() != m.tiles.size()) {
		ctx.violation(std::string("C07/") + what + "/tile-array-size", key, "width " + std::to_string(W) + " x height " + std::to_string(H) + " but " + std::to_string(m.tiles.size()) + " tiles");
		return false;
	}
	return true;
}

mc::Outcome parse(const SeedDef& sd, const uint8_t* p, std::size_t n, Map& out)
{
	return mc::guarded([&] {
		Stream::MemoryReader r(p, n);
		out = sd.saved ? Map::ReadSavedGame(r) : Map::ReadMap(r);
	});
}

// ---- (1) prefixes ----
void prefixCase(Ctx& ctx, const SeedDef& sd, std::size_t from, std::size_t to)
{
	std::size_t n = sd.bytes.size();
	std::unique_ptr<uint8_t[]> buf(new uint8_t[n]);
	std::memcpy(buf.get(), sd.bytes.data(), n);
	for (std::size_t k = from; k < to && k < n; ++k) {
		if ((k & 255) == 0) ctx.sub(sd.name + " prefix " + std::to_string(k));
		POISON(buf.get() + k, n - k);
		Map m;
		auto o = parse(sd, buf.get(), k, m);
		UNPOISON(buf.get() + k, n - k);
		ctx.transition();
		if (o.cls == 'X') { ctx.violation("C07/prefix/non-std-exception", sd.name + " prefix " + std::to_string(k), ""); return; }
		if (k < sd.consumed) {
			ctx.count("prefix/cuts-consumed-portion");
			if (o.cls == 'R') { ctx.violation(std::string("C07/prefix/accepted/") + (sd.saved ? "saved-game" : "map"), sd.name + " prefix " + std::to_string(k) + " of " + std::to_string(n) + " (reader consumes " + std::to_string(sd.consumed) + ")", "returned a map with " + std::to_string(m.tiles.size()) + " tiles"); return; }
		}
		else { ctx.count("prefix/only-trailing-bytes-cut"); if (o.cls != 'R') { if (o.cls == 'X') ctx.violation("C07/prefix/non-std-exception", sd.name, ""); ctx.count("prefix/complete-file-refused"); return; } }   // this property lets the reader refuse any file: then every prefix is refused as well
	}
	ctx.state(to - from); ctx.trace();
}

// (1b) the same proper prefixes offered as files through the file-name overloads (a file reader signals a short read
// differently from a memory reader): small seeds every prefix, large seeds the last 64 and +-3 bytes around every field
void filePrefixCase(Ctx& ctx, const SeedDef& sd)
{
	std::size_t n = sd.bytes.size();
	std::set<std::size_t> cuts;
	if (n <= 8192) for (std::size_t k = 0; k < n; ++k) cuts.insert(k);
	else {
		for (std::size_t k = n - 64; k < n; ++k) cuts.insert(k);
		for (auto& f : sd.fields) for (int d = -3; d <= 3; ++d) { long long k = (long long)f.offset + f.width + d; if (k >= 0 && std::size_t(k) < n) cuts.insert(std::size_t(k)); }
		for (std::size_t k = sd.consumed > 8 ? sd.consumed - 8 : 0; k < sd.consumed && k < n; ++k) cuts.insert(k);
	}
	std::string dir = ctx.freshDir("c07fp");
	std::string path = dir + "/cut.bin";
	uint64_t m = 0;
	for (std::size_t k : cuts) {
		if ((m & 63) == 0) ctx.sub(sd.name + " file prefix " + std::to_string(k) + " of " + std::to_string(n));
		mc::writeFile(path, sd.bytes.data(), k);
		Map out;
		auto o = mc::guarded([&] { out = sd.saved ? Map::ReadSavedGame(path) : Map::ReadMap(path); });
		ctx.transition(); ++m;
		if (k < sd.consumed) {
			ctx.count("prefix/file-overload-cuts-consumed-portion");
			if (o.cls == 'R') { ctx.violation(std::string("C07/prefix/accepted-through-file-overload/") + (sd.saved ? "saved-game" : "map"), sd.name + " prefix " + std::to_string(k) + " of " + std::to_string(n) + " (reader consumes " + std::to_string(sd.consumed) + ")", "returned a map with " + std::to_string(out.tiles.size()) + " tiles"); break; }
			if (o.cls == 'X') { ctx.violation("C07/prefix/non-std-exception", sd.name + " file prefix " + std::to_string(k), ""); break; }
		}
		else if (o.cls != 'R') { ctx.count("prefix/complete-file-refused"); break; }
	}
	ctx.state(m); ctx.trace();
	mc::removeTree(dir);
}

// ---- (2) field faults ----
void faultCase(Ctx& ctx, const SeedDef& sd, const mc::FaultSpace& sp, std::size_t from, std::size_t to)
{
	for (std::size_t k = from; k < to; ++k) {
		mc::Mutant mu = sp.get(k);
		ctx.sub(mu.desc);
		std::unique_ptr<uint8_t[]> buf(new uint8_t[mu.bytes.size() ? mu.bytes.size() : 1]);
		std::memcpy(buf.get(), mu.bytes.data(), mu.bytes.size());
		Map m;
		auto o = parse(sd, buf.get(), mu.bytes.size(), m);
		ctx.transition();
		ctx.outcome(mc::fnv(mu.desc.substr(0, mu.desc.find('='))) ^ uint64_t(o.cls));
		if (o.cls == 'X') { ctx.violation("C07/fault/non-std-exception", mu.desc, ""); continue; }
		if (o.cls == 'R') { ctx.count("fault/accepted"); judgeReturned(ctx, m, mu.desc, "fault"); }
		else ctx.count(o.cls == 'A' ? "fault/refused-by-allocation" : "fault/refused");
	}
	ctx.state(to - from); ctx.trace();
}

// log-width x height grid on a small map seed and a saved game
void gridCase(Ctx& ctx, const SeedDef& sd)
{
	std::size_t lgOff = 0, hOff = 0;
	for (auto& f : sd.fields) { if (f.name == "lgWidth") lgOff = f.offset; if (f.name == "height") hOff = f.offset; }
	std::vector<uint32_t> lgs; for (uint32_t i = 0; i <= 40; ++i) lgs.push_back(i);
	for (uint32_t v : { 63u, 64u, 65u, 0x7FFFFFFFu, 0x80000000u, 0xFFFFFFE0u, 0xFFFFFFFFu }) lgs.push_back(v);
	std::vector<uint32_t> hs; for (int k = 0; k < 32; ++k) hs.push_back(1u << k);
	for (uint32_t v : { 0u, 3u, 0x7FFFFFFFu, 0xFFFFFFFFu, 0x10001u, 0xFFFFu, 0x8001u, 0x1001u }) hs.push_back(v);
	for (uint32_t lg : lgs) for (uint32_t h : hs) {
		std::vector<uint8_t> b = sd.bytes;
		mc::set32(b, lgOff, lg); mc::set32(b, hOff, h);
		std::string key = sd.name + " lgWidth=" + std::to_string(lg) + " & height=" + std::to_string(h);
		ctx.sub(key);
		std::unique_ptr<uint8_t[]> buf(new uint8_t[b.size()]);
		std::memcpy(buf.get(), b.data(), b.size());
		Map m;
		ctx.count(lg >= 32 ? "grid/over-wide-shift" : ((uint64_t(h) << lg) > 0xFFFFFFFFull ? "grid/product-exceeds-32-bits" : "grid/representable"));
		auto o = parse(sd, buf.get(), b.size(), m);
		ctx.transition();
		if (o.cls == 'X') { ctx.violation("C07/grid/non-std-exception", key, ""); continue; }
		if (o.cls == 'R') { ctx.count("grid/accepted"); judgeReturned(ctx, m, key, "grid"); }
	}
	ctx.state(lgs.size() * hs.size()); ctx.trace();
}

// (2b) dimension fields whose product does not fit 32 bits, with exactly as many tile words in the file as the wrapped
// product says (64-bit shift truncated, 32-bit shift with masked count, zero): a reader that sizes the tile array from a
// wrapped count parses such a file to its end, so it must be refused on the dimension fields themselves
void wrapGridCase(Ctx& ctx, bool saved)
{
	std::vector<int> z(mapc::kDims, 0);
	std::vector<uint32_t> lgs; for (uint32_t i = 0; i <= 40; ++i) lgs.push_back(i);
	for (uint32_t v : { 63u, 64u, 65u, 0x80000000u, 0xFFFFFFE0u, 0xFFFFFFFFu }) lgs.push_back(v);
	std::vector<uint32_t> hs; for (int k = 0; k < 32; ++k) { hs.push_back(1u << k); hs.push_back((1u << k) + 1); hs.push_back((1u << k) + (1u << (k / 2))); }
	for (uint32_t v : { 0u, 3u, 0x7FFFFFFFu, 0xFFFFFFFFu, 0x80000001u, 0xC0000000u }) hs.push_back(v);
	std::size_t n = 0;
	for (uint32_t lg : lgs) for (uint32_t h : hs) {
		bool fits = lg < 32 && (uint64_t(h) << lg) <= 0xFFFFFFFFull;
		if (fits) continue;
		std::set<uint64_t> counts = { 0 };
		if (lg < 64) counts.insert((uint64_t(h) << lg) & 0xFFFFFFFFull);
		counts.insert(uint64_t(uint32_t(h << (lg & 31))));
		counts.insert(uint64_t(h) & 0xFFFFFFFFull);
		for (uint64_t c : counts) {
			if (c > 2048) continue;
			ref::RMap m = mapc::makeMap(z);
			m.lgWidth = lg; m.height = h; m.tiles.assign(std::size_t(c), 0x12345678u);
			std::vector<uint8_t> b = saved ? ref::encodeSavedGame(m, ref::RSavedUnits()) : ref::encodeMap(m);
			std::string key = std::string(saved ? "saved game" : "map") + " lgWidth=" + std::to_string(lg) + " & height=" + std::to_string(h) + " with " + std::to_string(c) + " tile words in the file (wrapped product)";
			ctx.sub(key);
			std::unique_ptr<uint8_t[]> buf(new uint8_t[b.size()]);
			std::memcpy(buf.get(), b.data(), b.size());
			Map mm;
			SeedDef sd; sd.saved = saved;
			auto o = parse(sd, buf.get(), b.size(), mm);
			ctx.transition(); ++n;
			ctx.count("grid/wrap-consistent-files");
			if (o.cls == 'X') { ctx.violation("C07/grid/non-std-exception", key, ""); continue; }
			if (o.cls == 'R') {
				ctx.count("grid/accepted");
				if (judgeReturned(ctx, mm, key, "grid")) ctx.violation("C07/grid/unrepresentable-dimensions-accepted", key, "width " + std::to_string(mm.WidthInTiles()) + " height " + std::to_string(mm.HeightInTiles()) + " tiles " + std::to_string(mm.tiles.size()));
			}
		}
	}
	ctx.state(n); ctx.trace();
}

// (2b') a representable but giant map: 32768 x 32768 tiles are 2^30 tile words, exactly 2^32 bytes - a byte count kept in 32 bits
// wraps to 0. The file holds the header and eight tile words, so it is a (very) proper prefix of the real thing and must be
// refused. The reader may allocate the 4 GiB tile array before it notices; the case runs only where that much memory is free.
void giantCase(Ctx& ctx)
{
	uint64_t availKiB = 0;
	if (FILE* f = std::fopen("/proc/meminfo", "r")) { char line[256]; while (std::fgets(line, sizeof line, f)) { unsigned long long v; if (std::sscanf(line, "MemAvailable: %llu kB", &v) == 1) availKiB = v; } std::fclose(f); }
	if (availKiB < (uint64_t(24) << 20)) { ctx.count("giant/skipped-for-lack-of-memory"); ctx.state(); return; }
	std::size_t savedCap = mc::alloc_cap; mc::alloc_cap = std::size_t(5) << 30;
	std::vector<int> z(mapc::kDims, 0);
	ref::RMap m = mapc::makeMap(z);
	m.lgWidth = 15; m.height = 32768;
	for (std::size_t words : { std::size_t(0), std::size_t(8) }) {   // 0 words: the file a reader with a wrapped byte count takes for complete
		m.tiles.assign(words, 0x12345678u);
		std::vector<uint8_t> b = ref::encodeMap(m);
		std::string key = "map lgWidth=15 & height=32768 (2^30 tiles, 2^32 bytes of tile data) with " + std::to_string(words) + " tile words in the file";
		ctx.sub(key);
		std::unique_ptr<uint8_t[]> buf(new uint8_t[b.size()]);
		std::memcpy(buf.get(), b.data(), b.size());
		Map mm; SeedDef sd; sd.saved = false;
		auto o = parse(sd, buf.get(), b.size(), mm);
		ctx.transition(); ctx.count("giant/files");
		if (o.cls == 'X') ctx.violation("C07/giant/non-std-exception", key, "");
		else if (o.cls == 'R') ctx.violation("C07/giant/file-without-the-tile-data-of-a-giant-map-accepted", key, "returned " + std::to_string(mm.tiles.size()) + " tiles");
	}
	mc::alloc_cap = savedCap;
	ctx.state(); ctx.trace();
}

// (2b'') files at scale: a map of the size the game ships (131072 tiles, i.e. more than one 64 Ki block of tile data) and a map with
// 1500 tile groups - accepted with exactly the reference content, and cut at a handful of places inside the consumed portion
void scaleCase(Ctx& ctx, int which, bool saved)
{
	std::vector<int> z(mapc::kDims, 0);
	ref::RMap m = mapc::makeMap(z);
	std::string what;
	if (which == 0) { m.lgWidth = 9; m.height = 256; m.fillTiles(0); what = "512 x 256 map"; if (!m.mappings.empty()) for (auto& t : m.tiles) { uint32_t idx = (t >> 5) & 0x7FFu; t = (t & ~(0x7FFu << 5)) | (uint32_t(idx % m.mappings.size()) << 5); } }
	else {
		m.groups.clear();
		for (int g = 0; g < 1500; ++g) { ref::RGroup G; G.w = 1 + uint32_t(g % 2); G.h = 1; G.name = "g" + std::to_string(g); for (uint32_t i = 0; i < G.w * G.h; ++i) G.idx.push_back(uint32_t(g) + i); m.groups.push_back(G); }
		m.undocumented = uint32_t(m.groups.size() - 1);
		what = "32 x 2 map with 1500 tile groups";
	}
	std::size_t consumed = 0;
	std::vector<uint8_t> b = saved ? ref::encodeSavedGame(m, ref::RSavedUnits()) : ref::encodeMap(m, nullptr, &consumed);
	std::size_t n = b.size();
	std::string key = std::string(saved ? "saved game: " : "map: ") + what + " (" + std::to_string(n) + " bytes)";
	ctx.sub(key);
	std::unique_ptr<uint8_t[]> buf(new uint8_t[n]);
	std::memcpy(buf.get(), b.data(), n);
	SeedDef sd; sd.saved = saved;
	Map mm;
	auto o = parse(sd, buf.get(), n, mm);
	ctx.transition();
	// this property lets the reader refuse any file with an ordinary error (that valid maps are accepted is demanded by C06)
	if (o.cls != 'R') { if (o.cls == 'X') ctx.violation("C07/scale/non-std-exception", key, ""); ctx.count("scale/valid-file-refused"); ctx.count("scale/files"); return; }
	std::string d = mapc::compare(mm, m, !saved);
	if (!d.empty()) { ctx.violation("C07/scale/returned-map-differs-from-the-file", key, d); return; }
	mm = Map();
	std::set<std::size_t> cuts = { n - 1, n - 2, n - 9, n / 2, n / 3, (n / 4) * 3, n - n / 5, n - n / 20 };
	if (which == 0) { std::size_t tilesAt = n - 4 * 131072 - 2000; for (std::size_t k : { std::size_t(65536), std::size_t(65537), std::size_t(131071) }) cuts.insert(std::min(n - 1, tilesAt + 4 * k)); }
	for (std::size_t c : cuts) {
		std::unique_ptr<uint8_t[]> pre(new uint8_t[c ? c : 1]);
		std::memcpy(pre.get(), b.data(), c);
		Map pm;
		auto op = parse(sd, pre.get(), c, pm);
		ctx.transition();
		if (op.cls == 'R') { ctx.violation("C07/scale/proper-prefix-accepted", key + " cut to " + std::to_string(c) + " bytes", "returned " + std::to_string(pm.tiles.size()) + " tiles, " + std::to_string(pm.tileGroups.size()) + " groups"); return; }
		if (op.cls == 'X') { ctx.violation("C07/scale/non-std-exception", key, ""); return; }
	}
	ctx.count("scale/files");
	ctx.state(); ctx.trace();
}

// (2c) saved games whose unit table really has records of the size the sizeOfUnit field names (with no units the field
// is not pinned to 120), followed by plenty of data: a reader that trusts the field for the fixed unit table writes
// outside it (ASan); every outcome must be an ordinary error or a map
void unitSizeCase(Ctx& ctx)
{
	std::vector<int> z(mapc::kDims, 0);
	std::size_t n = 0;
	for (uint32_t count : { 0u, 1u, 3u }) for (uint32_t s : { 0u, 1u, 7u, 119u, 120u, 121u, 124u, 125u, 128u, 136u, 152u, 240u, 0x10000u, 0x80000000u, 0xFFFFFFFFu }) for (int table = 0; table < 2; ++table) for (int freeList = 0; freeList < 2; ++freeList) {
		ref::RMap m = mapc::makeMap(z);
		ref::RSavedUnits u; u.unitCount = count; u.sizeOfUnit = s; if (freeList) { u.firstFree = 1; u.nextFree = 2; }
		u.tableRecordBytes = table == 0 ? 120 : (s <= 240 ? s : 120);
		m.trailing.assign(96 * 1024, 0x5C);
		std::vector<uint8_t> b = ref::encodeSavedGame(m, u);
		b.insert(b.end(), 96 * 1024, 0x5C);
		std::string key = "saved game unitCount=" + std::to_string(count) + " sizeOfUnit=" + std::to_string(s) + " table of " + std::to_string(u.tableRecordBytes) + "-byte records" + (freeList ? " + free list" : "") + " + 96 KiB of further data";
		ctx.sub(key);
		std::unique_ptr<uint8_t[]> buf(new uint8_t[b.size()]);
		std::memcpy(buf.get(), b.data(), b.size());
		Map mm;
		SeedDef sd; sd.saved = true;
		auto o = parse(sd, buf.get(), b.size(), mm);
		ctx.transition(); ++n;
		ctx.count("units/record-size-files");
		if (o.cls == 'X') { ctx.violation("C07/units/non-std-exception", key, ""); continue; }
		if (o.cls == 'R') { ctx.count("units/accepted"); judgeReturned(ctx, mm, key, "units"); }
		else ctx.count("units/refused");
	}
	ctx.state(n); ctx.trace();
}

// ---- (3) saved game == map ----
void equivalenceCase(Ctx& ctx, std::size_t part, std::size_t parts)
{
	const auto& D = mapc::dimSizes();
	std::vector<std::vector<int>> cfgs;
	std::vector<int> cur(mapc::kDims, 0);
	std::function<void(int, int)> rec = [&](int d, int dev) {
		if (d == mapc::kDims) { cfgs.push_back(cur); return; }
		for (int v = 0; v < D[d]; ++v) { if (v && dev == 2) continue; cur[d] = v; rec(d + 1, dev + (v ? 1 : 0)); }
		cur[d] = 0;
	};
	rec(0, 0);
	for (std::size_t i = part; i < cfgs.size(); i += parts) {
		ref::RMap r = mapc::makeMap(cfgs[i]);
		std::string key = mapc::describe(cfgs[i]);
		ctx.sub("equivalence " + key);
		ref::RSavedUnits u; if (i % 3 == 1) { u.unitCount = 2; u.nextFree = 1; u.firstFree = 5; u.n1 = 1; }
		auto mb = ref::encodeMap(r), sb = ref::encodeSavedGame(r, u);
		Map a, b;
		auto oa = mc::guarded([&] { a = mapc::readMap(mb); });
		auto ob = mc::guarded([&] { std::unique_ptr<uint8_t[]> p(new uint8_t[sb.size()]); std::memcpy(p.get(), sb.data(), sb.size()); Stream::MemoryReader rd(p.get(), sb.size()); b = Map::ReadSavedGame(rd); });
		ctx.transition(2);
		if (oa.cls != 'R') { ctx.count("equivalence/map-variant-rejected"); continue; }   // un-normalised variant (judged by C06)
		if (ob.cls != 'R') { ctx.violation("C07/equivalence/saved-game-rejected", key, ob.what); continue; }
		if (mapc::dumpShared(a) != mapc::dumpShared(b)) { ctx.violation("C07/equivalence/saved-game-differs-from-map", key, mapc::compare(b, r, false)); continue; }
		std::string d = mapc::compare(b, r, false);
		if (!d.empty()) { ctx.violation("C07/equivalence/saved-game-field", key, d); continue; }
		if (i % 16 == 0) {
			// the file-name overload reads the same saved game from disk
			std::string path = ctx.scratch() + "/save.op2";
			mc::writeFile(path, sb);
			Map c2;
			auto oc = mc::guarded([&] { c2 = Map::ReadSavedGame(path); });
			if (oc.cls != 'R' || mapc::dump(c2) != mapc::dump(b)) { ctx.violation("C07/equivalence/saved-game-file-overload-differs", key, oc.what); continue; }
			Map c3;
			auto ot = mc::guarded([&] { c3 = Map::ReadSavedGame(Stream::FileReader(path)); });   // the overload taking a temporary stream
			if (ot.cls != 'R' || mapc::dump(c3) != mapc::dump(b)) { ctx.violation("C07/equivalence/saved-game-temporary-stream-overload-differs", key, ot.what); continue; }
			ctx.count("equivalence/file-overload");
			// the saved game (and the map) embedded behind k foreign bytes, the stream handed over at position k
			bool differs = false;
			for (std::size_t k : { std::size_t(1), std::size_t(62) }) for (int saved = 0; saved < 2 && !differs; ++saved) {
				const auto& body = saved ? sb : mb;
				std::unique_ptr<uint8_t[]> p(new uint8_t[k + body.size()]);
				std::memset(p.get(), 0xEE, k); std::memcpy(p.get() + k, body.data(), body.size());
				Map e;
				auto oe = mc::guarded([&] { Stream::MemoryReader rd(p.get(), k + body.size()); rd.Seek(k); e = saved ? Map::ReadSavedGame(rd) : Map::ReadMap(rd); });
				ctx.transition();
				if (oe.cls != 'R' || mapc::dump(e) != mapc::dump(saved ? b : a)) { ctx.violation(std::string("C07/equivalence/") + (saved ? "saved-game" : "map") + "-read-from-a-stream-position-other-than-0-differs", key + " behind " + std::to_string(k) + " bytes", oe.what); differs = true; }
			}
			if (differs) continue;
			ctx.count("equivalence/stream-not-at-its-beginning");
		}
		ctx.count("equivalence/pairs");
		ctx.state(); ctx.trace();
	}
}

struct CaseDef { int kind; std::size_t seed, from, to; };
std::vector<CaseDef> gCases;
std::vector<std::unique_ptr<mc::FaultSpace>> gSpaces;

void build(Ctx& ctx)
{
	buildSeeds();
	gCases.clear(); gSpaces.clear();
	for (std::size_t s = 0; s < gSeeds.size(); ++s) {
		const auto& sd = gSeeds[s];
		if (sd.saved && !ctx.thorough && s != 5) { /* quick: one saved-game seed gets the full prefix sweep */ }
		else for (std::size_t f = 0; f < sd.bytes.size(); f += 16384) gCases.push_back({ 0, s, f, std::min(f + 16384, sd.bytes.size()) });
		mc::FaultSeed fs{ sd.name, sd.bytes, sd.fields, false, sd.subFrom, sd.subTo };
		gSpaces.push_back(std::make_unique<mc::FaultSpace>(fs, ctx.thorough));
		std::size_t chunk = sd.saved ? 400 : 1500;
		for (std::size_t f = 0; f < gSpaces.back()->size(); f += chunk) gCases.push_back({ 1, s, f, std::min(f + chunk, gSpaces.back()->size()) });
	}
	gCases.push_back({ 2, 0, 0, 0 });
	gCases.push_back({ 2, 5, 0, 0 });
	for (std::size_t sidx = 0; sidx < gSeeds.size(); ++sidx) gCases.push_back({ 6, sidx, 0, 0 });
	gCases.push_back({ 4, 0, 0, 0 });
	gCases.push_back({ 4, 0, 1, 0 });
	gCases.push_back({ 5, 0, 0, 0 });
	if (ctx.thorough) gCases.push_back({ 7, 0, 0, 0 });
	for (std::size_t w = 0; w < 2; ++w) for (std::size_t sv = 0; sv < 2; ++sv) gCases.push_back({ 8, 0, w, sv });
	for (std::size_t p = 0; p < 8; ++p) gCases.push_back({ 3, 0, p, 8 });
}

void runCase(std::size_t i, Ctx& ctx)
{
	const CaseDef& c = gCases[i];
	switch (c.kind) {
	case 0: prefixCase(ctx, gSeeds[c.seed], c.from, c.to); if (c.seed == 5 && c.from == 0) ctx.sample("saved game " + gSeeds[5].name + ": every proper prefix 0.." + std::to_string(gSeeds[5].bytes.size() - 1) + " presented through a reader whose tail is poisoned; each must be rejected"); break;
	case 1: faultCase(ctx, gSeeds[c.seed], *gSpaces[c.seed], c.from, c.to); if (c.seed == 2 && c.from == 0) ctx.sample(gSpaces[2]->get(30).desc + " -> reader must fail or return a map with width*height tiles"); break;
	case 2: gridCase(ctx, gSeeds[c.seed]); break;
	case 4: wrapGridCase(ctx, c.from != 0); break;
	case 5: unitSizeCase(ctx); break;
	case 7: giantCase(ctx); break;
	case 8: scaleCase(ctx, int(c.from), c.to != 0); break;
	case 6: filePrefixCase(ctx, gSeeds[c.seed]); break;
	default: equivalenceCase(ctx, c.from, c.to);
	}
}

} // namespace

int main(int argc, char** argv)
{
	mc::CheckDef def;
	def.id = "C07";
	def.init = build;
	def.ncases = [](Ctx&) { return gCases.size(); };
	def.run = runCase;
	def.describe = [](std::size_t i) { const auto& c = gCases[i]; return std::string(c.kind == 0 ? "prefixes " : c.kind == 1 ? "faults " : c.kind == 2 ? "grid " : c.kind == 4 ? "wrap-consistent grid " : c.kind == 5 ? "unit record sizes " : c.kind == 6 ? "file-overload prefixes " : "equivalence ") + (c.kind < 3 ? gSeeds[c.seed].name : "") + " " + std::to_string(c.from) + ".." + std::to_string(c.to); };
	def.caseTimeoutS = 300;
	return mc::Main(argc, argv, def);
}
