// C10 - PRT sprite metadata round-trips and always satisfies its cross-field rules.
// Small-scope deviation-bounded enumeration of well-formed PRT files through an independent encoder; writer refusals;
// single-field corruptions either rejected or rule-conforming.
#include "mc/mc.hpp"
#include "mc/faults.hpp"
#include "checks/prt_common.hpp"
#include <array>
#include "Stream/MemoryWriter.h"
#include "Stream/FileReader.h"
#include <memory>
#include <set>
#include <functional>

using namespace OP2Utility;
using mc::Ctx;

namespace {

std::vector<std::vector<int>> gConfigs;
const std::size_t kChunk = 100;

void enumerate(Ctx& ctx)
{
	gConfigs.clear();
	const auto& D = prtc::dimSizes();
	std::vector<int> cur(prtc::kDims, 0);
	int maxDev = ctx.thorough ? 5 : 3;
	std::function<void(int, int)> rec = [&](int d, int dev) {
		if (d == prtc::kDims) { gConfigs.push_back(cur); return; }
		for (int v = 0; v < D[d]; ++v) { if (v && dev == maxDev) continue; cur[d] = v; rec(d + 1, dev + (v ? 1 : 0)); }
		cur[d] = 0;
	};
	rec(0, 0);
}

void checkPrt(Ctx& ctx, const ref::RPrt& r, const std::string& key, bool canonicalInput);
void checkOne(Ctx& ctx, const std::vector<int>& cfg) { checkPrt(ctx, prtc::makePrt(cfg), prtc::describe(cfg), cfg[11] == 0); }

// a file at scale: 9 palettes, 300 images, 40 animations of 1..25 frames with 0..12 layers each (about 6000 frames, 36000 layers)
void largePrt(Ctx& ctx)
{
	ref::RPrt p;
	for (int i = 0; i < 9; ++i) { std::array<ref::RColor, 256> pal; for (int k = 0; k < 256; ++k) pal[k] = { uint8_t(k * 3 + i), uint8_t(k ^ (i * 17)), uint8_t(255 - k), uint8_t((k + i) % 7) }; p.palettes.push_back(pal); }
	for (int i = 0; i < 300; ++i) { ref::RImage im; im.width = uint32_t(1 + (i * 37) % 200); im.scanLine = uint32_t(ref::roundUp4(im.width)); im.height = uint32_t((i * 11) % 150); im.pixelOffset = uint32_t(i) * 4000u; im.type = uint16_t(i % 6); im.paletteIndex = uint16_t(i % 9); p.images.push_back(im); }
	for (int a = 0; a < 40; ++a) {
		ref::RAnimation an; an.unknown = uint32_t(a) * 0x01010101u; an.rect[0] = -a; an.rect[1] = a; an.rect[2] = a * 1000; an.rect[3] = -a * 1000; an.disp[0] = a; an.disp[1] = -a; an.unknown2 = uint32_t(a);
		for (int f = 0; f < 1 + (a * 7) % 25 * (a % 3 == 0 ? 12 : 1); ++f) {
			ref::RFrame fr; int layers = (a + f) % 13;
			fr.count7 = uint8_t(layers); fr.flag1 = (f % 3) == 0; fr.unknown7 = uint8_t((a * f) % 128); fr.flag2 = (f % 5) == 0;
			for (int k = 0; k < 4; ++k) fr.opt[k] = uint8_t(a + f + k);
			for (int l = 0; l < layers; ++l) { ref::RLayer ly; ly.bitmapIndex = uint16_t((a * 31 + f * 7 + l) % 300); ly.unknown = uint8_t(l); ly.frameIndex = uint8_t(f); ly.x = int16_t(l * 3 - 20); ly.y = int16_t(f - 100); fr.layers.push_back(ly); }
			an.frames.push_back(fr);
		}
		for (int c = 0; c < a % 4; ++c) { ref::RUnknown u; for (int k = 0; k < 4; ++k) u.v[k] = uint32_t(a * 100 + c * 10 + k); an.containers.push_back(u); }
		p.animations.push_back(an);
	}
	std::size_t frames = 0, layers = 0; for (auto& an : p.animations) { frames += an.frames.size(); for (auto& f : an.frames) layers += f.layers.size(); }
	checkPrt(ctx, p, "large file: 9 palettes, 300 images, 40 animations, " + std::to_string(frames) + " frames, " + std::to_string(layers) + " layers", true);
	ctx.count("roundtrip/large-file");
}

void checkPrt(Ctx& ctx, const ref::RPrt& r, const std::string& key, bool canonicalInput)
{
	ctx.sub(key);
	auto bytes = ref::encodePrt(r);
	auto bad = [&](const std::string& c, const std::string& d) { ctx.violation("C10/" + c, key, d); };
	ArtFile a;
	auto o = mc::guarded([&] { a = prtc::readArt(bytes); });
	ctx.transition();
	if (!canonicalInput) ctx.count("roundtrip/non-canonical-headers-tried");
	// a file whose palette section headers are not the canonical ones need not be accepted (the statement speaks of the inputs the
	// reader accepts, and of reproducing those with canonical headers)
	if (o.cls != 'R' && !canonicalInput) { ctx.count("roundtrip/non-canonical-headers-refused"); return; }
	{
		// acceptance is demanded of plain well-formed files; one with an empty image or with type bits set need not be accepted
		bool unusual = false; for (auto& im : r.images) if (im.width == 0 || im.height == 0 || im.type != 0) unusual = true;
		for (auto& an : r.animations) for (auto& f : an.frames) for (auto& l : f.layers) if (l.bitmapIndex >= r.images.size()) unusual = true;   // a layer naming an image that is not there
		if (o.cls != 'R' && unusual && o.cls != 'X') { ctx.count("roundtrip/unusual-well-formed-file-refused"); return; }
	}
	if (o.cls != 'R') { bad("well-formed-file-rejected", o.what); return; }
	std::string d = prtc::compare(a, r);
	if (!d.empty()) { bad("parsed-structure-differs", d); return; }
	std::string rl = prtc::rules(a);
	if (!rl.empty()) { bad("cross-field-rule-violated-after-read", rl); return; }
	std::string before = prtc::dump(a);
	std::vector<uint8_t> w1;
	auto ow = mc::guarded([&] { w1 = prtc::writeArt(a); });
	ctx.transition();
	if (ow.cls != 'R') { bad("write-throws", ow.what); return; }
	if (prtc::dump(a) != before) { bad("write-altered-the-object", ""); return; }
	ref::RPrt canon = r; canon.form = ref::RPaletteHeaderForm();
	auto expect = ref::encodePrt(canon);
	if (w1 != expect) {
		std::size_t i = 0; while (i < w1.size() && i < expect.size() && w1[i] == expect[i]) ++i;
		bad(canonicalInput ? "written-bytes-differ-from-input" : "written-bytes-differ-from-canonical-encoding", "first difference at byte " + std::to_string(i) + " lengths " + std::to_string(w1.size()) + "/" + std::to_string(expect.size())); return;
	}
	ctx.count(canonicalInput ? "roundtrip/canonical-input-reproduced" : "roundtrip/non-canonical-headers-canonicalised");
	ArtFile b;
	auto o2 = mc::guarded([&] { b = prtc::readArt(w1); });
	ctx.transition();
	if (o2.cls != 'R') { bad("reread-rejected", o2.what); return; }
	if (prtc::dump(b) != before) { bad("reread-differs", ""); return; }
	auto w2 = prtc::writeArt(b);
	ctx.transition();
	if (w2 != w1) { bad("write-not-byte-stable", ""); return; }
	{
		// the game's own spelling of the file name; a differently cased twin sits next to it and must not be touched or read
		std::string dir = ctx.scratch(), in = dir + "/OP2_ART.PRT", out = dir + "/Out.Prt";
		mc::writeFile(in, bytes);
		mc::writeFile(dir + "/OP2_ART.prt", "decoy", 5); mc::writeFile(dir + "/op2_art.prt", "decoy", 5); mc::writeFile(dir + "/out.prt", "decoy", 5); mc::writeFile(dir + "/Out.prt", "decoy", 5);
		ArtFile af; std::vector<uint8_t> wf;
		auto o3 = mc::guarded([&] { af = ArtFile::Read(in); af.Write(out); wf = mc::readFile(out); });
		ctx.transition(2);
		if (o3.cls != 'R') { bad("file-overloads-throw", o3.what); return; }
		if (prtc::dump(af) != before) { bad("file-overload-read-differs-from-stream-read", ""); return; }
		if (wf != w1) { bad("file-overload-write-differs-from-stream-write", ""); return; }
		ArtFile at; std::vector<uint8_t> wt;
		auto o4 = mc::guarded([&] { at = ArtFile::Read(Stream::FileReader(in)); mc::writeFile(out, std::vector<uint8_t>(w1.size() + 555, 0xEE)); at.Write(out); wt = mc::readFile(out); });   // temporary reader; output over an existing longer file
		ctx.transition(2);
		if (o4.cls != 'R') { bad("temporary-stream-overloads-throw", o4.what); return; }
		if (prtc::dump(at) != before) { bad("temporary-stream-overload-read-differs", ""); return; }
		if (wt != w1) { bad("write-over-existing-longer-file-differs", ""); return; }
		ctx.count("file-overloads/round-trips");
	}
	ctx.state(); ctx.trace();
	ctx.outcome(mc::fnv(w1.data(), w1.size()));
	for (auto& an : r.animations) for (auto& f : an.frames) { if (f.flag1 && f.flag2) ctx.count("frames/both-optional-flags"); else if (f.flag1 || f.flag2) ctx.count("frames/one-optional-flag"); else ctx.count("frames/no-optional-flag"); if (f.layers.size() == 127) ctx.count("frames/127-layers"); if (f.layers.empty()) ctx.count("frames/0-layers"); }
}

// in-memory structures violating a rule: Write must throw
void writerRefusals(Ctx& ctx)
{
	std::vector<int> z(prtc::kDims, 0);
	ref::RPrt base = prtc::makePrt(z);
	ArtFile good = prtc::readArt(ref::encodePrt(base));
	auto expectThrow = [&](const std::string& key, ArtFile a, const char* clause) {
		ctx.sub(key);
		std::string before = prtc::dump(a);
		auto o = mc::guarded([&] { prtc::writeArt(a); });
		ctx.transition(); ctx.count("writer-refusals/attempts");
		if (o.cls == 'R') ctx.violation(std::string("C10/writer/") + clause, key, "written although " + prtc::rules(a));
		else if (prtc::dump(a) != before) ctx.violation("C10/writer/refusal-altered-the-object", key, "");
		// the file-name overload refuses as well
		std::string path = ctx.scratch() + "/refused.prt";
		auto of = mc::guarded([&] { a.Write(path); });
		ctx.transition();
		if (of.cls == 'R') ctx.violation(std::string("C10/writer/") + clause, key + " (file-name overload)", "Write(filename) returned normally although " + prtc::rules(a));
		else if (prtc::dump(a) != before) ctx.violation("C10/writer/refusal-altered-the-object", key + " (file-name overload)", "");
	};
	for (uint16_t idx : { uint16_t(1), uint16_t(2), uint16_t(0xFFFF) }) { ArtFile a = good; a.imageMetas[0].paletteIndex = idx; expectThrow("palette index " + std::to_string(idx) + " with 1 palette", a, "accepted-palette-index-out-of-range"); }
	{ ArtFile a = good; a.palettes.clear(); expectThrow("image present, no palettes", a, "accepted-palette-index-out-of-range"); }
	for (uint32_t w : { 0u, 1u, 3u, 4u, 5u, 8u, 0xFFFFFFFCu, 0xFFFFFFFDu, 0xFFFFFFFEu, 0xFFFFFFFFu }) for (int64_t delta : { int64_t(-4), int64_t(-1), int64_t(1), int64_t(4) }) {
		ArtFile a = good; a.imageMetas[0].width = w; a.imageMetas[0].scanLineByteWidth = uint32_t(ref::roundUp4(w) + delta);
		if (uint64_t(a.imageMetas[0].scanLineByteWidth) == ref::roundUp4(w)) continue;
		expectThrow("width " + std::to_string(w) + " scan line " + std::to_string(a.imageMetas[0].scanLineByteWidth), a, "accepted-scan-line-not-rounded-width");
	}
	for (uint32_t w : { 0xFFFFFFFDu, 0xFFFFFFFEu, 0xFFFFFFFFu }) { ArtFile a = good; a.imageMetas[0].width = w; a.imageMetas[0].scanLineByteWidth = 0; expectThrow("width " + std::to_string(w) + " scan line 0 (rounded width does not fit 32 bits)", a, "accepted-scan-line-not-rounded-width"); }
	for (int listLen : { 0, 2, 3, 129, 257, 385, 1 + 128 * 16 }) { ArtFile a = good; a.animations[0].frames[0].layers.resize(listLen); expectThrow("frame count 1 with " + std::to_string(listLen) + " layers", a, "accepted-layer-list-count-mismatch"); }
	// two frames whose mismatches cancel in the header totals
	{
		std::vector<int> z2(prtc::kDims, 0); z2[5] = 2;
		ArtFile two = prtc::readArt(ref::encodePrt(prtc::makePrt(z2)));
		if (!two.animations.empty() && two.animations[0].frames.size() >= 2) for (auto pr : std::vector<std::array<int, 4>>{ { 1, 3, 3, 1 }, { 0, 2, 2, 0 }, { 2, 1, 1, 2 } }) {
			ArtFile a = two;
			a.animations[0].frames[0].layerMetadata.count = uint8_t(pr[0]); a.animations[0].frames[0].layers.resize(std::size_t(pr[1]));
			a.animations[0].frames[1].layerMetadata.count = uint8_t(pr[2]); a.animations[0].frames[1].layers.resize(std::size_t(pr[3]));
			expectThrow("two frames: count " + std::to_string(pr[0]) + "/" + std::to_string(pr[1]) + " layers and count " + std::to_string(pr[2]) + "/" + std::to_string(pr[3]) + " layers (sums agree)", a, "accepted-layer-list-count-mismatch");
		}
	}
	// 7-bit count field: list lengths congruent to the count modulo 128 are mismatches too
	for (int count : { 0, 2, 127 }) for (int k : { 1, 2, 3 }) {
		ArtFile a = good; a.animations[0].frames[0].layerMetadata.count = uint8_t(count); a.animations[0].frames[0].layers.resize(std::size_t(count + 128 * k));
		expectThrow("frame count " + std::to_string(count) + " with " + std::to_string(count + 128 * k) + " layers (equal modulo 128)", a, "accepted-layer-list-count-mismatch");
	}
	ctx.state(); ctx.trace();
}

// a write that fails half-way (destination of every capacity below the full length) never alters the in-memory object,
// and a following write into a large enough destination gives the normal bytes
void failingWrites(Ctx& ctx)
{
	std::vector<int> cfg(prtc::kDims, 0);
	cfg[0] = 2; cfg[1] = 2; cfg[4] = 2; cfg[5] = 2; cfg[6] = 3; cfg[7] = 2;
	ArtFile a = prtc::readArt(ref::encodePrt(prtc::makePrt(cfg)));
	const std::string before = prtc::dump(a);
	const auto full = prtc::writeArt(a);
	uint64_t n = 0;
	for (std::size_t cap = 0; cap < full.size(); ++cap) {
		if ((cap & 63) == 0) ctx.sub("Write into a fixed destination of " + std::to_string(cap) + " of " + std::to_string(full.size()) + " bytes");
		std::unique_ptr<uint8_t[]> dst(new uint8_t[cap ? cap : 1]);
		Stream::MemoryWriter w(dst.get(), cap);
		auto o = mc::guarded([&] { a.Write(w); });
		ctx.transition(); ++n;
		if (o.cls == 'R') { ctx.violation("C10/writer/wrote-more-than-the-destination-holds", "capacity " + std::to_string(cap), ""); return; }
		if (o.cls == 'X') { ctx.violation("C10/writer/non-std-exception", "capacity " + std::to_string(cap), ""); return; }
		if (prtc::dump(a) != before) { ctx.violation("C10/writer/failed-write-altered-the-object", "Write into a destination of " + std::to_string(cap) + " bytes (full length " + std::to_string(full.size()) + ")", ""); return; }
		if ((cap % 97) == 0 && prtc::writeArt(a) != full) { ctx.violation("C10/writer/write-after-failed-write-differs", "capacity " + std::to_string(cap), ""); return; }
	}
	ctx.count("writer/failing-writes", n);
	ctx.state(); ctx.trace();
}

// every image type (no bit, each single bit, all bits) x widths 0..70 x scan line widths 0..72 in steps of 4: reader and writer
// accept exactly the width rounded up to four, whatever the type says
void scanLineGrid(Ctx& ctx)
{
	std::vector<int> cfg(prtc::kDims, 0);
	ref::RPrt base = prtc::makePrt(cfg);
	if (base.images.empty()) { ctx.violation("harness/prt-scan-line-grid", "", "no image in the base file"); return; }
	std::vector<uint16_t> types = { 0, 0xFFFF }; for (int k = 0; k < 16; ++k) types.push_back(uint16_t(1u << k));
	for (uint16_t t : types) for (uint32_t w = 0; w <= 70; ++w) for (uint32_t sl = 0; sl <= 72; sl += 4) {
		ref::RPrt r = base; r.images[0].width = w; r.images[0].scanLine = sl; r.images[0].type = t;
		bool valid = uint64_t(sl) == ref::roundUp4(w);
		std::string key = "image type " + mc::hex(reinterpret_cast<const uint8_t*>(&t), 2) + " width " + std::to_string(w) + " scan line " + std::to_string(sl);
		if ((w + sl) % 16 == 0) ctx.sub(key);
		ArtFile a;
		auto o = mc::guarded([&] { a = prtc::readArt(ref::encodePrt(r)); });
		ctx.transition();
		if (!valid && o.cls == 'R') { ctx.violation("C10/scan-line-grid/reader-accepted-scan-line-not-rounded-width", key, o.what); return; }
		// a file that satisfies the rule must be accepted where it is the plain kind of image with at least one pixel column; unusual type bits and empty images need not be
		if (valid && o.cls != 'R') { if (t == 0 && w > 0) { ctx.violation("C10/scan-line-grid/valid-file-rejected", key, o.what); return; } ctx.count("scan-line-grid/valid"); ctx.count("scan-line-grid/unusual-valid-file-refused"); continue; }
		if (valid) { ctx.count("scan-line-grid/valid"); continue; }
		// writer: the valid neighbour with the scan line changed on the object
		ref::RPrt ok = r; ok.images[0].scanLine = uint32_t(ref::roundUp4(w));
		ArtFile b;
		auto ob = mc::guarded([&] { b = prtc::readArt(ref::encodePrt(ok)); });
		if (ob.cls != 'R') { if (t == 0 && w > 0) { ctx.violation("C10/scan-line-grid/valid-file-rejected", key, ob.what); return; } ctx.count("scan-line-grid/refused"); continue; }
		b.imageMetas[0].scanLineByteWidth = sl;
		auto ow = mc::guarded([&] { prtc::writeArt(b); });
		ctx.transition();
		if (ow.cls == 'R') { ctx.violation("C10/scan-line-grid/writer-accepted-scan-line-not-rounded-width", key, ""); return; }
		ctx.count("scan-line-grid/refused");
	}
	ctx.state(); ctx.trace();
}

// single-field corruptions: rejected, or a result that satisfies the rules
void corruptions(Ctx& ctx, int seedIdx)
{
	std::vector<int> cfg(prtc::kDims, 0);
	if (seedIdx == 1) { cfg[0] = 2; cfg[1] = 2; cfg[4] = 2; cfg[5] = 2; cfg[6] = 3; cfg[7] = 2; cfg[9] = 2; }
	if (seedIdx == 2) cfg[4] = 1;                       // no animations: the header totals are the last bytes of the file
	ref::RPrt r = prtc::makePrt(cfg);
	if (seedIdx == 3) r = ref::RPrt();                  // nothing at all
	if (seedIdx == 4) {                                 // two images, the second an empty 0 x 0 placeholder: its fields are bound by the same rules
		cfg[1] = 2; r = prtc::makePrt(cfg);
		if (r.images.size() < 2) { ctx.violation("harness/prt-seed-4", "", "expected two images"); return; }
		r.images[1].width = 0; r.images[1].height = 0; r.images[1].scanLine = 0;
		ArtFile ok; auto o0 = mc::guarded([&] { ok = prtc::readArt(ref::encodePrt(r)); });
		if (o0.cls != 'R') { ctx.count("corruption/empty-image-file-refused"); ctx.count("corruption/empty-image-writer-refusals"); return; }   // an empty image need not be accepted
		for (int which = 0; which < 2; ++which) {
			ArtFile badArt = ok;
			if (which == 0) badArt.imageMetas[1].paletteIndex = uint16_t(badArt.palettes.size()); else badArt.imageMetas[1].scanLineByteWidth = 4;
			auto w = mc::guarded([&] { prtc::writeArt(badArt); });
			ctx.transition(); ctx.count("corruption/empty-image-writer-refusals");
			if (w.cls == 'R') ctx.violation("C10/writer/accepted-rule-violation-on-an-empty-image", which == 0 ? "0 x 0 image naming a palette that does not exist" : "0 x 0 image with scan line width 4", "");
		}
	}
	std::vector<ref::Field> f;
	auto bytes = ref::encodePrt(r, &f);
	std::vector<mc::FField> ff; for (auto& x : f) ff.push_back({ x.offset, x.width, x.name });
	mc::FaultSeed seed{ "prt" + std::to_string(seedIdx), bytes, ff, true, 0, 0 };    // prefixes and fields; no byte substitutions (palette bytes are free data)
	mc::FaultSpace sp(seed, false);
	for (std::size_t k = 0; k < sp.size(); ++k) {
		mc::Mutant m = sp.get(k);
		ctx.sub(m.desc);
		ArtFile a; uint64_t consumed = 0;
		auto o = mc::guarded([&] { a = prtc::readArtConsumed(m.bytes, consumed); });
		ctx.transition();
		if (o.cls == 'X') { ctx.violation("C10/corruption/non-std-exception", m.desc, ""); continue; }
		if (o.cls != 'R') { ctx.count("corruption/rejected"); continue; }
		ctx.count("corruption/accepted");
		if (sp.isPrefix(k)) { ctx.violation("C10/corruption/proper-prefix-accepted", m.desc, ""); continue; }
		std::string rl = prtc::rules(a);
		if (!rl.empty()) { ctx.violation("C10/corruption/accepted-result-violates-rule", m.desc, rl); continue; }
		// header totals equal the contents / writing reproduces the input: the object does not keep the header totals, so an
		// accepted byte string whose palette section headers are untouched (canonical) must be reproduced exactly by Write
		// (the bytes the reader consumed; a corrupted count can leave unread bytes behind, which the reader does not judge)
		if (m.desc.find(".overallLength") != std::string::npos || m.desc.find(".headLength") != std::string::npos || m.desc.find(".tagCount") != std::string::npos || m.desc.find(".dataLength") != std::string::npos) continue;
		std::vector<uint8_t> back;
		auto w = mc::guarded([&] { back = prtc::writeArt(a); });
		if (w.cls != 'R') { ctx.violation("C10/corruption/accepted-result-cannot-be-written", m.desc, w.what); continue; }
		ctx.count("corruption/accepted-and-reproduced");
		if (consumed < m.bytes.size()) ctx.count("corruption/accepted-with-unread-tail");
		if (back.size() != consumed || std::memcmp(back.data(), m.bytes.data(), std::size_t(consumed)) != 0) ctx.violation("C10/corruption/accepted-input-not-reproduced", m.desc, "header totals or counts differ from the contents: wrote " + std::to_string(back.size()) + " bytes for " + std::to_string(consumed) + " bytes consumed of " + std::to_string(m.bytes.size()));
	}
	ctx.state(sp.size()); ctx.trace();
}

std::size_t nChunks() { return (gConfigs.size() + kChunk - 1) / kChunk; }

void runCase(std::size_t i, Ctx& ctx)
{
	if (i < nChunks()) {
		for (std::size_t k = i * kChunk; k < std::min(gConfigs.size(), (i + 1) * kChunk); ++k) checkOne(ctx, gConfigs[k]);
		if (i == 2) ctx.sample("well-formed PRT: " + prtc::describe(gConfigs[i * kChunk + 3]) + " -> read, rules, red/blue order, write == input bytes, object unchanged, re-read equal, byte-stable");
		return;
	}
	std::size_t k = i - nChunks();
	if (k == 0) writerRefusals(ctx);
	else if (k == 5) failingWrites(ctx);
	else if (k == 6) corruptions(ctx, 4);
	else if (k == 7) largePrt(ctx);
	else if (k == 8) scanLineGrid(ctx);
	else corruptions(ctx, int(k - 1));
}

} // namespace

int main(int argc, char** argv)
{
	mc::CheckDef def;
	def.id = "C10";
	def.init = enumerate;
	def.ncases = [](Ctx&) { return nChunks() + 9; };
	def.run = runCase;
	def.caseTimeoutS = 300;
	return mc::Main(argc, argv, def);
}
