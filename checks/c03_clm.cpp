// C03 - CLM pack, reopen, extract preserves every track's audio data and format.
// Small-scope exhaustive enumeration of WAV sets (names x data lengths x chunk layouts x formats x list orders),
// checked against an independent RIFF builder/parser and an independent description of the CLM layout.
#include "mc/mc.hpp"
#include "ref/ref_wav.hpp"
#include "ref/ref_vol.hpp"   // case folding helpers
#include "ref/ref_clm.hpp"
#include "Archive/ClmFile.h"
#include <memory>
#include <set>
#include <functional>
#include <algorithm>
#include <unistd.h>
#include <fcntl.h>

using namespace OP2Utility;
using mc::Ctx;

namespace {

const std::vector<std::string> kBase = { "a", "B", "ab", "A_1", "abcdefgh", "Z", "b2" };
const std::vector<uint32_t> kLens = { 0, 1, 2, 3, 4, 6 };
const std::vector<uint32_t> kBigLens = { 0x1FFFF, 0x20000, 0x20001 };

struct Track { int base; bool upperExt; uint32_t len; int layout; /* bit0 before fmt, bit1 between, bit2 after data, bit3 fmt size 18 */ int dir; std::string custom; };
typedef std::vector<Track> TrackSet;

std::string baseOf(const Track& t) { return t.custom.empty() ? kBase[t.base] : t.custom; }
std::string fileOf(const Track& t) { return baseOf(t) + (t.upperExt ? ".WAV" : ".wav"); }
std::string pathOf(const Track& t) { return t.dir == 0 ? fileOf(t) : "d" + std::to_string(t.dir) + "/" + fileOf(t); }

std::vector<uint8_t> audioOf(const Track& t)
{
	std::vector<uint8_t> v(t.len);
	uint32_t s = uint32_t(mc::fnv(baseOf(t)));
	for (uint32_t j = 0; j < t.len; ++j) v[j] = mc::contentByte(s, j);
	return v;
}

std::vector<uint8_t> wavOf(const Track& t, const ref::WaveFormat& fmt)
{
	ref::WavSpec w;
	w.fmt = fmt; w.data = audioOf(t);
	w.chunkBeforeFmt = t.layout & 1; w.chunkBetween = t.layout & 2; w.chunkAfterData = t.layout & 4;
	w.fmtSize = (t.layout & 8) ? 18 : 16;
	w.decoys = (t.len + std::size_t(t.base)) % 2 == 0;   // every other track: extra chunks whose bodies look like chunk headers
	w.cbSizeValue = (t.layout & 8) ? uint16_t(0) : uint16_t(0);
	// RIFF: a chunk with an odd length is followed by one pad byte when another chunk follows
	if (w.chunkAfterData && (w.data.size() & 1)) {
		auto v = ref::encodeWav(w);
		// insert the pad byte after the data and fix the RIFF size
		std::size_t afterData = v.size() - (8 + ref::extraChunkBody(w, 2).size());
		v.insert(v.begin() + afterData, 0);
		mc::set32(v, 4, uint32_t(v.size() - 8));
		return v;
	}
	return ref::encodeWav(w);
}

std::string describe(const TrackSet& s, int fmtIdx)
{
	std::string r = "fmt" + std::to_string(fmtIdx) + " ";
	for (auto& t : s) r += pathOf(t) + ":" + std::to_string(t.len) + "/layout" + std::to_string(t.layout) + " ";
	return r;
}

using ref::ClmEntry; using ref::ParsedClm; using ref::parseClm;

struct Scenario {
	Ctx& ctx; std::string root;
	void bad(const std::string& clause, const std::string& key, const std::string& d) { ctx.violation("C03/" + clause, key, d); }

	void materialise(const TrackSet& s, const ref::WaveFormat& fmt)
	{
		mc::removeTree(root); mc::makeDir(root);
		if (::chdir(root.c_str()) != 0) std::abort();
		for (auto& t : s) { if (t.dir) mc::makeDir("d" + std::to_string(t.dir)); mc::writeFile(pathOf(t), wavOf(t, fmt)); }
	}

	bool interrogate(const TrackSet& s, const ref::WaveFormat& fmt, const std::string& key, const std::vector<uint8_t>& bytes)
	{
		// expected listing: base names in case-insensitive order
		std::vector<const Track*> order;
		for (auto& t : s) order.push_back(&t);
		std::sort(order.begin(), order.end(), [](const Track* a, const Track* b) { return ref::cmpFold(baseOf(*a), baseOf(*b), true) < 0; });
		auto p = parseClm(bytes);
		if (!p.ok) { bad("archive-layout", key, p.why); return false; }
		if (p.entries.size() != s.size()) { bad("archive-layout/count", key, std::to_string(p.entries.size())); return false; }
		if (!s.empty() && !(p.fmt == fmt)) { bad("archive-layout/common-format", key, ""); return false; }
		for (std::size_t i = 0; i < order.size(); ++i) {
			auto audio = audioOf(*order[i]);
			if (p.entries[i].name != baseOf(*order[i])) { bad("archive-layout/name-order", key, "entry " + std::to_string(i) + " is '" + p.entries[i].name + "' expected '" + baseOf(*order[i]) + "'"); return false; }
			if (p.entries[i].length != audio.size()) { bad("archive-layout/length", key, p.entries[i].name + " " + std::to_string(p.entries[i].length) + " expected " + std::to_string(audio.size())); return false; }
			if (!audio.empty() && std::memcmp(bytes.data() + p.entries[i].offset, audio.data(), audio.size()) != 0) { bad("archive-layout/data", key, p.entries[i].name); return false; }
		}
		bool ok = true;
		auto o = mc::guarded([&] {
			Archive::ClmFile c("out.clm");
			if (c.GetCount() != s.size()) { bad("count", key, std::to_string(c.GetCount())); ok = false; return; }
			mc::makeDir("xall");
			// extraction targets that already exist with longer content (first member, both extraction paths)
			if (!order.empty()) { mc::writeFile("xall/" + baseOf(*order[0]), std::vector<uint8_t>(audioOf(*order[0]).size() + 4000, 0xEE)); mc::writeFile("x_" + baseOf(*order[0]) + ".wav", std::vector<uint8_t>(audioOf(*order[0]).size() + 4000, 0xEE)); }
			c.ExtractAllFiles("xall");
			for (std::size_t i = 0; i < order.size(); ++i) {
				const Track& t = *order[i];
				auto audio = audioOf(t);
				std::string name = c.GetName(i);
				if (name != baseOf(t)) { bad("listing", key, "member " + std::to_string(i) + " '" + name + "' expected '" + baseOf(t) + "'"); ok = false; return; }
				if (c.GetSize(i) != audio.size()) { bad("size", key, name + " " + std::to_string(c.GetSize(i))); ok = false; return; }
				auto st = c.OpenStream(i);
				std::vector<uint8_t> got(std::size_t(st->Length()));
				st->Read(got.data(), got.size());
				if (got != audio) { bad("stream-bytes", key, name + " " + std::to_string(got.size()) + " bytes"); ok = false; return; }
				for (int how = 0; how < 2; ++how) {
					// the statement does not say how the bulk extraction names its files: the member name, or the member name with .wav
					std::string out = how == 0 ? (::access(("xall/" + name + ".wav").c_str(), F_OK) == 0 ? "xall/" + name + ".wav" : "xall/" + name) : "x_" + name + ".wav";
					if (how == 1) c.ExtractFile(i, out);
					auto w = ref::parseCanonicalWav(mc::readFile(out));
					if (!w.ok) { bad("extracted-wav-not-self-consistent", key, name + ": " + w.why); ok = false; return; }
					if (!(w.fmt == fmt)) { bad("extracted-wav-format", key, name); ok = false; return; }
					if (w.data != audio) { bad("extracted-wav-data", key, name); ok = false; return; }
				}
				if (c.GetIndex(ref::equalFold(name, "x") ? name : std::string(name)) != i) { bad("lookup", key, name); ok = false; return; }
				{
					// by-name variants (base-class overloads), under another letter case
					std::string other = name; for (auto& ch : other) ch = char((ch >= 'a' && ch <= 'z') ? ch - 32 : (ch >= 'A' && ch <= 'Z') ? ch + 32 : ch);
					auto sn = static_cast<Archive::ArchiveFile&>(c).OpenStream(other);
					std::vector<uint8_t> gn(std::size_t(sn->Length()));
					if (!gn.empty()) sn->Read(gn.data(), gn.size());
					if (gn != audio) { bad("stream-by-name-bytes", key, name); ok = false; return; }
					static_cast<Archive::ArchiveFile&>(c).ExtractFile(other, "xn_" + name + ".wav");
					auto wn = ref::parseCanonicalWav(mc::readFile("xn_" + name + ".wav"));
					if (!wn.ok || !(wn.fmt == fmt) || wn.data != audio) { bad("extract-by-name", key, name + (wn.ok ? "" : ": " + wn.why)); ok = false; return; }
				}
				ctx.transition(6);
			}
		});
		if (o.cls != 'R') { bad("reopen-or-extract-throws", key, o.what); return false; }
		// all member streams alive at once, read alternately in small steps: each must still deliver its own chunk
		if (ok && order.size() >= 2) {
			auto oi = mc::guarded([&] {
				Archive::ClmFile c("out.clm");
				std::vector<std::unique_ptr<Stream::BidirectionalReader>> st;
				std::vector<std::vector<uint8_t>> got(order.size());
				for (std::size_t i = 0; i < order.size(); ++i) st.push_back(c.OpenStream(i));
				bool more = true;
				while (more) {
					more = false;
					for (std::size_t i = order.size(); i-- > 0;) {
						uint8_t buf[3];
						std::size_t n = st[i]->ReadPartial(buf, 1 + i % 3);
						got[i].insert(got[i].end(), buf, buf + n);
						if (n) more = true;
					}
				}
				for (std::size_t i = 0; i < order.size(); ++i) if (got[i] != audioOf(*order[i])) { bad("interleaved-stream-bytes", key, baseOf(*order[i])); ok = false; return; }
				ctx.count("streams/interleaved");
			});
			if (oi.cls != 'R') { bad("interleaved-streams-throw", key, oi.what); return false; }
		}
		mc::removeTree("xall");
		return ok;
	}

	void packAllOrders(const TrackSet& s, int fmtIdx)
	{
		ref::WaveFormat fmt = ref::waveFormat(fmtIdx);
		materialise(s, fmt);
		std::string key = describe(s, fmtIdx);
		ctx.sub(key);
		std::vector<int> perm(s.size());
		for (std::size_t i = 0; i < perm.size(); ++i) perm[i] = int(i);
		std::vector<uint8_t> first; bool haveFirst = false;
		std::size_t ordersTried = 0;
		do {
			// every order for k <= 4; larger sets: 24 orders spread over the permutation sequence
			if (s.size() > 4 && ordersTried >= 24) break;
			++ordersTried;
			std::vector<std::string> list;
			for (int i : perm) list.push_back(pathOf(s[i]));
			// the destination may already exist and be longer than the new archive (first order of every set)
			if (!haveFirst) { mc::writeFile("out.clm", std::vector<uint8_t>(300000, 0xEE)); ctx.count("create/over-existing-longer-file"); }
			auto o = mc::guarded([&] { Archive::ClmFile::CreateArchive("out.clm", list); });
			ctx.transition();
			if (o.cls != 'R') { bad("create-refused-valid-set", key, o.what); return; }
			auto bytes = mc::readFile("out.clm");
			if (!haveFirst || bytes != first) { if (!interrogate(s, fmt, key, bytes)) return; ctx.count(haveFirst ? "orders/bytes-differ" : "interrogations"); }
			else ctx.count("orders/identical-archives");
			if (!haveFirst) { first = bytes; haveFirst = true; }
		} while (s.size() > 4 ? (std::rotate(perm.begin(), perm.begin() + 1 + ordersTried % (s.size() - 1), perm.end()), true) : std::next_permutation(perm.begin(), perm.end()));
		for (auto& t : s) { if ((t.layout & 1) && (t.len + std::size_t(t.base)) % 2 == 0) ctx.count("layout/decoy-data-header-at-the-usual-offset"); if (t.layout & 4) ctx.count("layout/chunk-after-data"); if (t.layout & 1) ctx.count("layout/chunk-before-fmt"); if (t.layout & 2) ctx.count("layout/chunk-between"); if (!(t.layout & 8)) ctx.count("layout/fmt-16"); }
		ctx.state(); ctx.trace();
		ctx.outcome(mc::fnv(first.data(), std::min<std::size_t>(first.size(), 2048)));
	}

	void refusal(const std::string& clause, const std::vector<std::pair<std::string, std::vector<uint8_t>>>& files)
	{
		mc::removeTree(root); mc::makeDir(root);
		if (::chdir(root.c_str()) != 0) std::abort();
		std::vector<std::string> list; std::string key = clause + ":";
		for (auto& f : files) { auto slash = f.first.rfind('/'); if (slash != std::string::npos) mc::makeDir(f.first.substr(0, slash)); mc::writeFile(f.first, f.second); list.push_back(f.first); key += " " + f.first; }
		ctx.sub(key);
		for (int rev = 0; rev < 2; ++rev) {
			auto o = mc::guarded([&] { Archive::ClmFile::CreateArchive("out.clm", list); });
			ctx.transition();
			ctx.count(("refusal/" + clause).c_str());
			if (o.cls == 'R') bad("refusal/" + clause + "/accepted", key + (rev ? " (reversed)" : ""), "");
			else if (o.cls == 'X') bad("refusal/non-std-exception", key, "");
			std::reverse(list.begin(), list.end());
		}
		ctx.state(); ctx.trace();
	}
};

struct SetCase { TrackSet s; int fmt; };
std::vector<SetCase> gSets;
const std::size_t kChunk = 64;
const int kRefusals = 12;

void build(Ctx& ctx)
{
	gSets.clear();
	auto add = [&](TrackSet s) {
		int salt = int(gSets.size());
		for (std::size_t i = 0; i < s.size(); ++i) { s[i].upperExt = ((salt + int(i)) % 3) == 0; s[i].dir = (salt / 2 + int(i)) % 3; }
		gSets.push_back({ s, salt % 3 });
	};
	add({});
	int NB = int(kBase.size());
	// k = 1: full product name x length x 16 layouts
	for (int b = 0; b < NB; ++b) for (uint32_t l : kLens) for (int lay = 0; lay < 16; ++lay) add({ Track{ b, false, l, lay, 0, "" } });
	// k = 2
	int layoutsQuick[8] = { 0, 1, 2, 4, 8, 5, 12, 15 };
	for (int b1 = 0; b1 < NB; ++b1) for (int b2 = b1 + 1; b2 < NB; ++b2) {
		if (ref::equalFold(kBase[b1], kBase[b2])) continue;
		if (ctx.thorough) { for (uint32_t l1 : kLens) for (uint32_t l2 : kLens) for (int y1 = 0; y1 < 16; ++y1) for (int y2 = 0; y2 < 16; ++y2) add({ Track{ b1, false, l1, y1, 0, "" }, Track{ b2, false, l2, y2, 0, "" } }); }
		else { for (uint32_t l1 : kLens) for (uint32_t l2 : kLens) for (int y1 : layoutsQuick) for (int y2 : layoutsQuick) add({ Track{ b1, false, l1, y1, 0, "" }, Track{ b2, false, l2, y2, 0, "" } }); }
	}
	// k = 3: every name triple; (length, layout) of each member from a reduced product
	for (int b1 = 0; b1 < NB; ++b1) for (int b2 = b1 + 1; b2 < NB; ++b2) for (int b3 = b2 + 1; b3 < NB; ++b3) {
		std::vector<std::pair<uint32_t, int>> variants = { { 3, 0 }, { 0, 4 }, { 1, 15 }, { 4, 13 } };
		if (ctx.thorough) { variants = {}; for (uint32_t l : kLens) for (int y : { 0, 4, 7, 15 }) variants.push_back({ l, y }); }
		for (auto& v1 : variants) for (auto& v2 : variants) for (auto& v3 : variants)
			add({ Track{ b1, false, v1.first, v1.second, 0, "" }, Track{ b2, false, v2.first, v2.second, 0, "" }, Track{ b3, false, v3.first, v3.second, 0, "" } });
	}
	// lengths around the 128 KiB copy chunk
	for (uint32_t l : kBigLens) for (int lay : { 0, 4, 15 }) add({ Track{ 2, false, l, lay, 0, "" } });
	for (uint32_t l1 : kBigLens) for (uint32_t l2 : kBigLens) add({ Track{ 0, false, l1, 4, 0, "" }, Track{ 3, false, l2, ctx.thorough ? 5 : 0, 0, "" } });
	// a 200-track set (the index passes 3 KiB)
	{ TrackSet s; for (int i = 0; i < 200; ++i) s.push_back(Track{ 0, false, uint32_t(i * 7 % 11), i % 16, 0, std::string(1, char(i % 2 ? 't' : 'T')) + std::to_string((i * 77) % 200) + std::string(1, char('a' + i % 26)) }); add(s); }
	// a 12-track set
	{ TrackSet s; for (int i = 0; i < 12; ++i) s.push_back(Track{ 0, false, uint32_t(i * 5 % 9), i % 16, 0, std::string(1, char((i % 2 ? 'k' : 'K') + i % 11)) + std::to_string(i) }); add(s); }
}

std::size_t nChunks() { return (gSets.size() + kChunk - 1) / kChunk; }

void refusalCase(Ctx& ctx, int k, Scenario& sc)
{
	ref::WaveFormat f0 = ref::waveFormat(0);
	auto wav = [&](uint32_t len, const ref::WaveFormat& f, int layout = 8) { Track t{ 0, false, len, layout, 0, "zz" }; return wavOf(t, f); };
	auto good = wav(4, f0);
	switch (k) {
	case 0: { auto w = good; w[0] = 'X'; sc.refusal("bad-riff-tag", { { "a.wav", w }, { "b.wav", good } }); break; }
	case 1: { auto w = good; w[8] = 'w'; sc.refusal("bad-wave-tag", { { "a.wav", w } }); break; }
	case 2: { auto w = good; mc::set32(w, 4, mc::get32(w, 4) + 1); sc.refusal("riff-size-mismatch", { { "a.wav", w }, { "b.wav", good } }); break; }
	case 3: {
		// a complete RIFF chunk followed by one more byte: whether that still is a WAV file is not said; refused, or packed with exactly its audio data
		auto w = good; w.push_back(0);
		mc::removeTree(sc.root); mc::makeDir(sc.root); if (::chdir(sc.root.c_str()) != 0) std::abort();
		mc::writeFile("a.wav", w);
		std::string got; std::size_t count = 0;
		auto o = mc::guarded([&] { Archive::ClmFile::CreateArchive("out.clm", { "a.wav" }); Archive::ClmFile c("out.clm"); count = c.GetCount(); auto st = c.OpenStream(0); got.resize(std::size_t(st->Length())); if (!got.empty()) st->Read(&got[0], got.size()); });
		ctx.transition(); ctx.count("refusal/byte-after-the-riff-chunk-tried");
		Track t{ 0, false, 4, 8, 0, "zz" }; auto audio = audioOf(t);
		if (o.cls == 'R' && (count != 1 || got != std::string(audio.begin(), audio.end()))) ctx.violation("C03/byte-after-the-riff-chunk/accepted-with-other-data", "a.wav", std::to_string(count) + " members, " + std::to_string(got.size()) + " bytes");
		else if (o.cls == 'X') ctx.violation("C03/refusal/non-std-exception", "a.wav with a byte after the RIFF chunk", "");
		break;
	}
	case 4: for (int field = 0; field < 6; ++field) { auto f = f0; switch (field) { case 0: f.tag ^= 2; break; case 1: f.channels = 2; break; case 2: f.rate += 1; break; case 3: f.avgBytes += 1; break; case 4: f.blockAlign = 4; break; default: f.bits = 8; } sc.refusal("format-mismatch", { { "a.wav", good }, { "b.wav", wav(4, f) } }); } break;
	case 5: sc.refusal("name-too-long", { { "abcdefghi.wav", good } }); break;
	case 6: sc.refusal("name-too-long", { { "a.wav", good }, { "d1/nine_char.wav", good } }); break;
	case 7: sc.refusal("duplicate-names-ignoring-case", { { "d1/ab.wav", good }, { "d2/AB.wav", good } }); break;
	case 8: sc.refusal("duplicate-names-ignoring-case", { { "ab.wav", good }, { "ab.WAV", wav(2, f0) }, { "c.wav", good } }); break;
	case 9: { auto w = good; mc::set32(w, w.size() - 8, 100); sc.refusal("data-length-beyond-file", { { "a.wav", w } }); break; }   // 'data' length field of the minimal layout
	case 10: { std::vector<uint8_t> junk = { 'h', 'e', 'l', 'l', 'o' }; sc.refusal("not-a-wav", { { "a.wav", junk } }); sc.refusal("not-a-wav", { { "a.wav", {} } }); break; }
	default: sc.refusal("missing-input", { { "a.wav", good } }); {
		auto o = mc::guarded([&] { Archive::ClmFile::CreateArchive("out2.clm", { "a.wav", "nothere.wav" }); });
		if (o.cls == 'R') ctx.violation("C03/refusal/missing-input/accepted", "CreateArchive(out2.clm,{a.wav,nothere.wav})", "");
	}
	}
}

// A clump larger than 2 GiB: the second track's data lies beyond offset 2^31 (offsets and lengths are unsigned 32-bit fields).
// Really packed from a sparse 2 GiB source (about a second between tmpfs files).
void beyond2GiB(Ctx& ctx, Scenario& sc)
{
	mc::removeTree(sc.root); mc::makeDir(sc.root);
	if (::chdir(sc.root.c_str()) != 0) std::abort();
	const uint64_t N = 0x7FFFFFF0ull;
	std::string key = "tracks big (2147483632 bytes of silence) and zz (6 bytes)";
	ctx.sub(key);
	ref::WaveFormat f0 = ref::waveFormat(0);
	std::vector<uint8_t> audio = { 1, 2, 3, 4, 5, 6 };
	{ ref::WavSpec w; w.fmt = f0; w.data = audio; mc::writeFile("zz.wav", ref::encodeWav(w)); }
	{
		ref::WavSpec w; w.fmt = f0;
		auto head = ref::encodeWav(w);                         // 44-byte header with empty data
		mc::set32(head, 4, uint32_t(head.size() - 8 + N)); mc::set32(head, head.size() - 4, uint32_t(N));
		int fd = ::open("big.wav", O_CREAT | O_TRUNC | O_WRONLY, 0644);
		if (fd < 0 || ::write(fd, head.data(), head.size()) != ssize_t(head.size()) || ::ftruncate(fd, off_t(head.size() + N)) != 0) std::abort();
		::close(fd);
	}
	auto oc = mc::guarded([&] { Archive::ClmFile::CreateArchive("big.clm", { "zz.wav", "big.wav" }); });
	ctx.transition();
	if (oc.cls != 'R') { ctx.violation("C03/beyond-2GiB/create-refused", key, oc.what); return; }
	auto o = mc::guarded([&] {
		Archive::ClmFile c("big.clm");
		if (c.GetCount() != 2 || c.GetName(0) != "big" || c.GetName(1) != "zz") throw std::runtime_error("listing differs");
		if (c.GetSize(0) != N || c.GetSize(1) != audio.size()) throw std::runtime_error("sizes " + std::to_string(c.GetSize(0)) + ", " + std::to_string(c.GetSize(1)));
		auto st = c.OpenStream(1);
		std::vector<uint8_t> got(std::size_t(st->Length())); st->Read(got.data(), got.size());
		ctx.transition();
		if (got != audio) throw std::runtime_error("stream of the track stored beyond 2 GiB differs");
		c.ExtractFile(1, "x.wav");
		ctx.transition();
		auto w = ref::parseCanonicalWav(mc::readFile("x.wav"));
		if (!w.ok || !(w.fmt == f0) || w.data != audio) throw std::runtime_error("extraction of the track stored beyond 2 GiB: " + (w.ok ? std::string("differs") : w.why));
		auto big = c.OpenStream(0);
		if (big->Length() != N) throw std::runtime_error("Length of the 2 GiB track " + std::to_string(big->Length()));
		uint8_t b[8] = { 1, 1, 1, 1, 1, 1, 1, 1 };
		big->Seek(N - 8); big->Read(b, 8);
		for (auto x : b) if (x) throw std::runtime_error("tail of the 2 GiB track differs");
	});
	if (o.cls != 'R') ctx.violation("C03/beyond-2GiB/reopen-or-extract-throws", key, o.what);
	ctx.count("beyond-2GiB/archives");
	ctx.state(); ctx.trace();
}

void runCase(std::size_t i, Ctx& ctx)
{
	Scenario sc{ ctx, ctx.scratch() + "/clm" };
	if (i < nChunks()) {
		for (std::size_t k = i * kChunk; k < std::min(gSets.size(), (i + 1) * kChunk); ++k) {
			sc.packAllOrders(gSets[k].s, gSets[k].fmt);
			if (k == 1500) ctx.sample("WAV set " + describe(gSets[k].s, gSets[k].fmt) + ": packed in every order, raw CLM bytes decoded independently, reopened, streamed, extracted and re-parsed");
		}
	}
	else {
		int k = int(i - nChunks());
		if (k == kRefusals) { beyond2GiB(ctx, sc); if (::chdir("/") != 0) std::abort(); mc::removeTree(sc.root); return; }
		if (k == 11) { /* missing input is listed although 'a.wav' alone is valid: handled inside */ }
		if (k == 11) {
			mc::removeTree(sc.root); mc::makeDir(sc.root); if (::chdir(sc.root.c_str()) != 0) std::abort();
			Track t{ 0, false, 4, 8, 0, "zz" }; mc::writeFile("a.wav", wavOf(t, ref::waveFormat(0)));
			auto o = mc::guarded([&] { Archive::ClmFile::CreateArchive("out2.clm", { "a.wav", "nothere.wav" }); });
			ctx.count("refusal/missing-input");
			if (o.cls == 'R') ctx.violation("C03/refusal/missing-input/accepted", "CreateArchive(out2.clm,{a.wav,nothere.wav})", "");
			ctx.state(); ctx.transition();
		}
		else refusalCase(ctx, k, sc);
	}
	if (::chdir("/") != 0) std::abort();
	mc::removeTree(sc.root);
}

} // namespace

int main(int argc, char** argv)
{
	mc::CheckDef def;
	def.id = "C03";
	def.init = build;
	def.ncases = [](Ctx&) { return nChunks() + kRefusals + 1; };
	def.run = runCase;
	def.caseTimeoutS = 300;
	def.fsizeLimit = std::size_t(3) << 30;   // the clump beyond 2 GiB
	return mc::Main(argc, argv, def);
}
