// C11 - bitmap, tileset and PRT loaders are safe on arbitrary bytes; results are safe to use.
// Deviation-bounded fault enumeration over reference-encoded seeds + arithmetically constructed wrap-consistent headers;
// for every accepted object all follow-up public operations are explored (bitmaps: fixpoint over flip/swap states).
#include "mc/mc.hpp"
#include "mc/faults.hpp"
#include "ref/ref_bmp.hpp"
#include "ref/ref_tileset.hpp"
#include "checks/prt_common.hpp"
#include "Bitmap/BitmapFile.h"
#include "Sprite/TilesetLoader.h"
#include "Sprite/SpriteLoader.h"
#include "Stream/FileWriter.h"
#include <algorithm>
#include <memory>
#include <set>
#include <functional>
#include <unistd.h>
#include <fcntl.h>

using namespace OP2Utility;
using mc::Ctx;

namespace {

std::vector<mc::FField> conv(const std::vector<ref::Field>& f) { std::vector<mc::FField> r; for (auto& x : f) r.push_back({ x.offset, x.width, x.name }); return r; }

struct SeedDef { std::string name; int loader; /* 0 ReadIndexed, 1 ReadTileset, 2 ArtFile::Read */ mc::FaultSeed fs; };
std::vector<SeedDef> gSeeds;
std::vector<std::unique_ptr<mc::FaultSpace>> gSpaces;
std::vector<mc::Mutant> gConstructed[3];   // per loader

ref::RBmp seedBmp(int depth, int32_t w, int32_t h, uint32_t used)
{
	ref::RBmp b; b.depth = depth; b.width = w; b.height = h; b.usedColors = used;
	for (std::size_t i = 0; i < b.paletteEntries(); ++i) b.palette.push_back({ uint8_t(i), uint8_t(i * 2), uint8_t(i * 3), 0 });
	b.rows.resize(std::size_t(b.pitch() * b.absHeight()));
	for (std::size_t i = 0; i < b.rows.size(); ++i) b.rows[i] = uint8_t(i * 7 + 1);
	return b;
}

void buildSeeds(bool thorough)
{
	gSeeds.clear(); gSpaces.clear(); for (auto& g : gConstructed) g.clear();
	auto addBmp = [&](const std::string& name, const ref::RBmp& b, int loader) {
		std::vector<ref::Field> f; auto bytes = ref::encodeBmp(b, &f);
		gSeeds.push_back({ name, loader, mc::FaultSeed{ name, bytes, conv(f), true, 0, 64 } });
	};
	addBmp("bmp1", seedBmp(1, 9, 2, 0), 0);
	addBmp("bmp4", seedBmp(4, 5, -3, 3), 0);
	addBmp("bmp8", seedBmp(8, 3, 2, 0), 0);
	addBmp("tileset-as-bmp", seedBmp(8, 32, -32, 0), 1);
	{
		ref::RPicture p; p.height = 64; for (int i = 0; i < 256; ++i) p.palette.push_back({ uint8_t(i), uint8_t(i + 1), uint8_t(i + 2), 0 }); p.rowsTopDown.assign(32 * 64, 0x33);
		std::vector<ref::Field> f; auto bytes = ref::encodeCustomTileset(p, &f);
		gSeeds.push_back({ "tileset-custom", 1, mc::FaultSeed{ "tileset-custom", bytes, conv(f), true, 0, 80 } });
	}
	{
		std::vector<int> cfg(prtc::kDims, 0); cfg[0] = 2; cfg[1] = 2; cfg[4] = 2; cfg[5] = 2; cfg[6] = 3; cfg[7] = 2; cfg[9] = 1;
		ref::RPrt r = prtc::makePrt(cfg);
		{ ref::RImage im; im.width = 6; im.scanLine = 8; im.height = 2; im.pixelOffset = 4; im.type = 4; im.paletteIndex = 1; r.images.push_back(im); }
		std::vector<ref::Field> f; auto bytes = ref::encodePrt(r, &f);
		gSeeds.push_back({ "prt", 2, mc::FaultSeed{ "prt", bytes, conv(f), true, 0, 0 } });
	}
	{
		// PRT files without animations (the three trailing totals are the last bytes of the file) and without anything
		std::vector<int> cfg(prtc::kDims, 0); cfg[4] = 1;
		ref::RPrt r = prtc::makePrt(cfg);
		std::vector<ref::Field> f; auto bytes = ref::encodePrt(r, &f);
		gSeeds.push_back({ "prt-no-animations", 2, mc::FaultSeed{ "prt-no-animations", bytes, conv(f), true, 0, 0 } });
		ref::RPrt e; std::vector<ref::Field> fe; auto be = ref::encodePrt(e, &fe);
		gSeeds.push_back({ "prt-empty", 2, mc::FaultSeed{ "prt-empty", be, conv(fe), true, 0, 0 } });
	}
	for (auto& s : gSeeds) gSpaces.push_back(std::make_unique<mc::FaultSpace>(s.fs, thorough));

	// --- arithmetically constructed headers that satisfy the size cross-checks modulo 2^64 / 2^32 ---
	for (int d : { 1, 4, 8 }) for (int64_t w : { int64_t(0), int64_t(-1), int64_t(-2), int64_t(-3), int64_t(-4), int64_t(-8), int64_t(-31), int64_t(-32), int64_t(INT32_MIN), int64_t(INT32_MIN) + 1, int64_t(INT32_MAX), int64_t(0x10000000) })
		for (int64_t h : { int64_t(INT32_MIN), int64_t(INT32_MIN) + 1, int64_t(INT32_MAX), int64_t(1), int64_t(-1), int64_t(2), int64_t(-2), int64_t(3), int64_t(4), int64_t(-4), int64_t(8), int64_t(16), int64_t(64), int64_t(1) << 20, int64_t(1) << 29, int64_t(1) << 30, -(int64_t(1) << 30), int64_t(3) << 29 }) {
			uint64_t pitch = ((uint64_t(w) * uint64_t(d) + 7) / 8 + 3) & ~uint64_t(3);
			for (int absVariant = 0; absVariant < 2; ++absVariant) {
				uint64_t ah = absVariant == 0 ? uint64_t(h < 0 ? -h : h) : uint64_t(int64_t(int32_t(h < 0 ? uint32_t(0) - uint32_t(h) : uint32_t(h))));   // 64-bit |h| and the 'int' abs (INT_MIN stays negative)
				uint64_t s = pitch * ah;
				if (s > 2048) continue;
				ref::RBmp b; b.depth = d; b.width = int32_t(w); b.height = int32_t(h);
				for (int i = 0; i < (1 << d); ++i) b.palette.push_back({ uint8_t(i), 1, 2, 3 });
				b.rows.assign(std::size_t(s), 0x5A);
				mc::Mutant m; m.bytes = ref::encodeBmp(b);
				m.desc = "constructed bmp depth " + std::to_string(d) + " width " + std::to_string(w) + " height " + std::to_string(h) + " pixel bytes " + std::to_string(s) + " (pitch*|height| mod 2^64)";
				gConstructed[0].push_back(m);
			}
		}
	// valid empty images (height 0, no pixel bytes) of every depth and a few widths: follow-ups must cope with zero rows
	for (int d : { 1, 4, 8 }) for (int64_t w : { int64_t(0), int64_t(1), int64_t(5), int64_t(32), int64_t(33) }) {
		ref::RBmp b; b.depth = d; b.width = int32_t(w); b.height = 0;
		for (int i = 0; i < (1 << d); ++i) b.palette.push_back({ uint8_t(i), 1, 2, 3 });
		mc::Mutant m; m.bytes = ref::encodeBmp(b);
		m.desc = "constructed bmp depth " + std::to_string(d) + " width " + std::to_string(w) + " height 0 (valid empty image)";
		gConstructed[0].push_back(m);
		if (d == 8 && w == 32) gConstructed[1].push_back(m);
	}
	// bitmap headers whose row bit count width*depth is >= 2^32: with a pitch computed in 32 bits the few pixel bytes present match
	for (int d : { 4, 8 }) for (uint64_t k : { uint64_t(1), uint64_t(3) }) for (int64_t j : { int64_t(0), int64_t(1), int64_t(5), int64_t(9) }) for (int64_t h : { int64_t(1), int64_t(2), int64_t(-2), int64_t(0) }) {
		int64_t w = int64_t((k << 32) / uint64_t(d)) + j; if (w > INT32_MAX) continue;
		uint32_t bits32 = uint32_t(uint64_t(w) * uint64_t(d));
		uint64_t pitch32 = ((uint64_t(bits32) + 7) / 8 + 3) & ~uint64_t(3);
		uint64_t s = pitch32 * uint64_t(h < 0 ? -h : h);
		ref::RBmp b; b.depth = d; b.width = int32_t(w); b.height = int32_t(h);
		for (int i = 0; i < (1 << d); ++i) b.palette.push_back({ uint8_t(i), 1, 2, 3 });
		b.rows.assign(std::size_t(s), 0x5A);
		mc::Mutant m; m.bytes = ref::encodeBmp(b);
		m.desc = "constructed bmp depth " + std::to_string(d) + " width " + std::to_string(w) + " height " + std::to_string(h) + " pixel bytes " + std::to_string(s) + " (row bits width*depth taken modulo 2^32)";
		gConstructed[0].push_back(m);
	}
	// bitmap headers whose size cross-check holds modulo 2^32 (but not in 64 bits): pitch = 2^p, height = 2^(32-p) + j
	for (int d : { 1, 4, 8 }) for (int64_t w : { int64_t(1), int64_t(8), int64_t(32), int64_t(64), int64_t(256), int64_t(65536), int64_t(1) << 20, int64_t(1) << 28 }) {
		uint64_t pitch = ((uint64_t(w) * uint64_t(d) + 7) / 8 + 3) & ~uint64_t(3);
		if (pitch & (pitch - 1)) continue;
		int p = 0; while ((uint64_t(1) << p) < pitch) ++p;
		for (int64_t j : { int64_t(0), int64_t(1), int64_t(2), int64_t(32) }) for (int sign = 0; sign < 2; ++sign) {
			int64_t h = (int64_t(1) << (32 - p)) + j; if (h > INT32_MAX) continue; if (sign) h = -h;
			uint64_t s32 = uint64_t(j) * pitch;      // (pitch * |h|) mod 2^32
			if (s32 > 4096) continue;
			ref::RBmp b; b.depth = d; b.width = int32_t(w); b.height = int32_t(h);
			for (int i = 0; i < (1 << d); ++i) b.palette.push_back({ uint8_t(i), 1, 2, 3 });
			b.rows.assign(std::size_t(s32), 0x5A);
			mc::Mutant m; m.bytes = ref::encodeBmp(b);
			m.desc = "constructed bmp depth " + std::to_string(d) + " width " + std::to_string(w) + " height " + std::to_string(h) + " pixel bytes " + std::to_string(s32) + " (pitch*|height| mod 2^32; the true product is " + std::to_string(pitch * uint64_t(h < 0 ? -h : h)) + ")";
			gConstructed[0].push_back(m);
			if (d == 8 && w == 32) gConstructed[1].push_back(m);     // also through the tileset loader (32 wide, 8 bit, height multiple of 32 for j = 0, 32)
		}
	}
	// tilesets stored as standard bitmaps that declare fewer used colours than 256 (consistent files: short colour table,
	// pixel offset and file size adjusted): the loaded object keeps a short palette, every way of saving it must be safe
	for (uint32_t n : { 1u, 2u, 16u, 255u }) for (int32_t h : { int32_t(32), int32_t(-64) }) {
		ref::RBmp b; b.depth = 8; b.width = 32; b.height = h; b.usedColors = n;
		for (uint32_t i = 0; i < n; ++i) b.palette.push_back({ uint8_t(i), uint8_t(i * 3), uint8_t(255 - i), 0 });
		b.rows.assign(std::size_t(32) * std::size_t(h < 0 ? -h : h), 0);
		mc::Mutant m; m.bytes = ref::encodeBmp(b);
		m.desc = "constructed tileset as standard bitmap 32x" + std::to_string(h) + " declaring " + std::to_string(n) + " used colours (short colour table)";
		gConstructed[1].push_back(m);
		gConstructed[0].push_back(m);
	}
	{
		// a valid custom tileset without rows
		ref::RPicture p0; p0.height = 0; for (int i = 0; i < 256; ++i) p0.palette.push_back({ uint8_t(i), 2, 3, 0 });
		mc::Mutant m; m.bytes = ref::encodeCustomTileset(p0);
		m.desc = "constructed custom tileset of height 0 (valid, no rows)";
		gConstructed[1].push_back(m);
	}
	{
		// tileset heights >= 2^31 and other extremes in the custom header
		ref::RPicture p; p.height = 0; for (int i = 0; i < 256; ++i) p.palette.push_back({ 1, 2, 3, 4 });
		for (uint32_t hf : { 0x80000000u, 0x80000020u, 0xFFFFFFE0u, 0x7FFFFFE0u, 0x40000000u, 0x08000000u, 0x00100000u }) for (uint32_t depth : { 8u, 1u, 4u, 16u, 0x10008u, 0xFFFF0008u }) {
			ref::TilesetKnobs k; k.overrideHeight = true; k.heightField = hf; k.depth = depth;
			mc::Mutant m; m.bytes = ref::encodeCustomTileset(p, nullptr, k);
			// make the pixel header consistent with the 32-bit product 32*h
			mc::set32(m.bytes, m.bytes.size() - 4, 32u * hf);
			m.desc = "constructed custom tileset height field " + std::to_string(hf) + " depth field " + std::to_string(depth) + " pixel length " + std::to_string(32u * hf) + " (32*h mod 2^32)";
			gConstructed[1].push_back(m);
		}
	}
	{
		// PRT files whose image table refers to palettes that are not there: no palettes at all, or an index one past the last
		std::vector<int> z(prtc::kDims, 0);
		for (int palettes : { 0, 1, 2 }) for (uint16_t idx : { uint16_t(0), uint16_t(1), uint16_t(2), uint16_t(0xFFFF) }) {
			ref::RPrt r = prtc::makePrt(z);
			while (int(r.palettes.size()) > palettes) r.palettes.pop_back();
			while (int(r.palettes.size()) < palettes) r.palettes.push_back(r.palettes.empty() ? std::array<ref::RColor, 256>() : r.palettes[0]);
			if (r.images.empty()) { ref::RImage im; im.width = 4; im.scanLine = 4; im.height = 2; r.images.push_back(im); }
			r.images[0].paletteIndex = idx;
			mc::Mutant m; m.bytes = ref::encodePrt(r);
			m.desc = "constructed prt with " + std::to_string(palettes) + " palettes and an image using palette index " + std::to_string(idx);
			gConstructed[2].push_back(m);
		}
	}
	{
		// PRT images whose scan line / width / height products wrap or are tiny
		std::vector<int> z(prtc::kDims, 0);
		for (uint32_t w : { 0xFFFFFFFDu, 0xFFFFFFFEu, 0xFFFFFFFFu, 0xFFFFFFFCu, 0x80000000u, 0x7FFFFFFFu, 0u }) for (uint32_t h : { 0u, 1u, 0x7FFFFFFFu, 0x80000000u, 0xFFFFFFFFu, 0x40000000u }) for (uint16_t type : { uint16_t(0), uint16_t(4) }) {
			ref::RPrt r = prtc::makePrt(z);
			r.images[0].width = w; r.images[0].scanLine = uint32_t(ref::roundUp4(w)); r.images[0].height = h; r.images[0].type = type; r.images[0].pixelOffset = (h & 1) ? 0xFFFFFFF0u : 0;
			mc::Mutant m; m.bytes = ref::encodePrt(r);
			m.desc = "constructed prt image width " + std::to_string(w) + " scan line " + std::to_string(r.images[0].scanLine) + " height " + std::to_string(h) + " type " + std::to_string(type);
			gConstructed[2].push_back(m);
		}
	}
	{
		// palette sections whose length fields agree with each other but not with the 256 colours a palette holds: X more (or
		// fewer) bytes declared in both the overall and the data length, and really present in the file
		for (int64_t X : { int64_t(4), int64_t(16), int64_t(1024), int64_t(65536), int64_t(-4), int64_t(-1024) }) for (int which = 0; which < 2; ++which) {
			std::vector<int> z(prtc::kDims, 0); z[0] = 2;
			ref::RPrt r = prtc::makePrt(z);
			std::vector<ref::Field> f;
			auto b = ref::encodePrt(r, &f);
			std::string pn = which ? "palette1" : "palette0";
			std::size_t oOverall = 0, oData = 0;
			for (auto& x : f) { if (x.name == pn + ".overallLength") oOverall = x.offset; if (x.name == pn + ".dataLength") oData = x.offset; }
			if (!oOverall || !oData) continue;
			mc::Mutant m; m.bytes = b;
			mc::set32(m.bytes, oOverall, uint32_t(1048 + X)); mc::set32(m.bytes, oData, uint32_t(1024 + X));
			std::size_t dataEnd = oData + 4 + 1024;
			if (X > 0) m.bytes.insert(m.bytes.begin() + std::ptrdiff_t(dataEnd), std::size_t(X), uint8_t(0x5A));
			else m.bytes.erase(m.bytes.begin() + std::ptrdiff_t(int64_t(dataEnd) + X), m.bytes.begin() + std::ptrdiff_t(dataEnd));
			m.desc = "constructed prt whose " + pn + " section declares " + std::to_string(1024 + X) + " bytes of colours in both length fields and holds that many";
			gConstructed[2].push_back(m);
		}
	}
}

// ---- follow-up operations on accepted objects ----
std::string bmpKey(const BitmapFile& b)
{
	std::string k(reinterpret_cast<const char*>(&b.imageHeader), sizeof b.imageHeader);
	k += std::to_string(b.palette.size()) + "/" + std::to_string(b.pixels.size()) + "/" + std::to_string(mc::fnv(b.pixels.data(), b.pixels.size())) + "/" + std::to_string(b.palette.empty() ? 0 : mc::fnv(b.palette.data(), b.palette.size() * 4));
	return k;
}

void useBitmap(Ctx& ctx, const BitmapFile& first, const std::string& desc, const std::string& dir)
{
	// explicit-state search: mutating operations are InvertScanLines and SwapRedAndBlue; all others are observers/serialisers
	// An image without pixel bytes (width 0) may declare up to 2^31-1 rows; row loops over it terminate but take minutes.
	// Such degenerate giants are exercised for the non-iterating operations only (stated in the evidence).
	const bool giant = first.pixels.empty() && (first.imageHeader.height > 1000000 || first.imageHeader.height < -1000000);
	if (giant) ctx.count("followup/degenerate-giant-height-row-loops-skipped");
	std::set<std::string> seen;
	std::vector<BitmapFile> frontier = { first };
	seen.insert(bmpKey(first));
	std::size_t expanded = 0;
	while (!frontier.empty() && expanded < 8) {
		BitmapFile cur = frontier.back(); frontier.pop_back(); ++expanded;
		ctx.state();
		for (int op = 0; op < 8; ++op) {
			if (giant && (op == 1 || op == 2 || op == 3 || op == 4)) continue;
			BitmapFile b = cur;
			static const char* names[] = { "Validate", "WriteIndexed(memory)", "WriteIndexed(file)", "WriteCustomTileset", "InvertScanLines", "SwapRedAndBlue", "AbsoluteHeight", "GetScanLineOrientation" };
			ctx.sub(desc + " :: then " + names[op] + " (state " + std::to_string(expanded) + ")");
			auto o = mc::guarded([&] {
				switch (op) {
				case 0: b.Validate(); break;
				case 1: { Stream::DynamicMemoryWriter w; b.WriteIndexed(w); break; }
				case 2: b.WriteIndexed(dir + "/follow.bmp"); break;
				case 3: { Stream::DynamicMemoryWriter w; Tileset::WriteCustomTileset(w, b); break; }
				case 4: b.InvertScanLines(); break;
				case 5: b.SwapRedAndBlue(); break;
				case 6: (void)b.AbsoluteHeight(); break;
				default: (void)b.GetScanLineOrientation();
				}
			});
			ctx.transition();
			ctx.count(o.cls == 'R' ? "followup/returned" : "followup/ordinary-error");
			if (o.cls == 'X') { ctx.violation("C11/followup/non-std-exception", desc + " :: " + names[op], ""); return; }
			if (o.cls == 'R' && (op == 4 || op == 5)) { auto k = bmpKey(b); if (seen.insert(k).second) frontier.push_back(b); }
		}
	}
}

void usePrt(Ctx& ctx, const ArtFile& a, const std::string& desc, const std::string& dir)
{
	ctx.state();
	{
		ctx.sub(desc + " :: then Write");
		auto o = mc::guarded([&] { prtc::writeArt(a); });
		ctx.transition();
		if (o.cls == 'X') { ctx.violation("C11/followup/non-std-exception", desc + " :: Write", ""); return; }
	}
	static const char* pixelFiles[] = { "empty.bmp", "short.bmp", "exact.bmp" };
	auto shared = std::make_shared<ArtFile>(a);
	std::size_t n = a.imageMetas.size();
	std::set<std::size_t> idx = { 0, 1, n, n + 1, SIZE_MAX, std::size_t(1) << 32, (std::size_t(1) << 32) + 1, (std::size_t(1) << 32) + n, std::size_t(1) << 63 };   // incl. indices that are in range only modulo 2^32
	for (std::size_t i = 0; i < n && i < 6; ++i) idx.insert(i);
	if (n) idx.insert(n - 1);
	for (auto pf : pixelFiles) for (auto i : idx) {
		if (i < n && a.imageMetas[i].scanLineByteWidth == 0 && a.imageMetas[i].height > 1000000 && a.imageMetas[i].height <= 0x7FFFFFFFu) { ctx.count("followup/degenerate-giant-height-row-loops-skipped"); continue; }   // 2^30 empty rows: terminates, but in minutes
		ctx.sub(desc + " :: then ExtractImage(" + (i == SIZE_MAX ? std::string("SIZE_MAX") : std::to_string(i)) + ") against " + pf + " (" + std::to_string(n) + " images)");
		auto o = mc::guarded([&] { SpriteLoader sl(dir + "/" + pf, shared); sl.ExtractImage(i, dir + "/sprite.bmp"); });
		ctx.transition();
		ctx.count(i >= n ? "followup/sprite-index-out-of-range" : (o.cls == 'R' ? "followup/sprite-extracted" : "followup/sprite-refused"));
		if (o.cls == 'X') { ctx.violation("C11/followup/non-std-exception", desc + " :: ExtractImage", ""); return; }
		if (i >= n && o.cls == 'R') { ctx.violation("C11/followup/sprite-index-out-of-range-accepted", desc + " :: ExtractImage(" + std::to_string(i) + ")", ""); return; }
	}
}

void runMutant(Ctx& ctx, int loader, const mc::Mutant& m, bool isProperPrefix, const std::string& dir)
{
	ctx.sub(m.desc);
	std::unique_ptr<uint8_t[]> p(new uint8_t[m.bytes.size() ? m.bytes.size() : 1]);
	std::memcpy(p.get(), m.bytes.data(), m.bytes.size());
	Stream::MemoryReader r(p.get(), m.bytes.size());
	mc::Outcome o;
	BitmapFile bmp; ArtFile art;
	if (loader == 0) o = mc::guarded([&] { bmp = BitmapFile::ReadIndexed(r); });
	else if (loader == 1) o = mc::guarded([&] { bmp = Tileset::ReadTileset(r); });
	else o = mc::guarded([&] { art = ArtFile::Read(r); });
	ctx.transition();
	ctx.outcome(mc::fnv(m.desc.substr(0, m.desc.find('='))) ^ uint64_t(o.cls));
	if (o.cls == 'X') { ctx.violation("C11/load/non-std-exception", m.desc, ""); return; }
	if (o.cls != 'R') { ctx.count("load/refused"); return; }
	ctx.count("load/accepted");
	if (isProperPrefix) { ctx.violation(std::string("C11/load/proper-prefix-accepted/") + (loader == 0 ? "bitmap" : loader == 1 ? "tileset" : "prt"), m.desc, ""); return; }
	if (loader == 2) usePrt(ctx, art, m.desc, dir); else useBitmap(ctx, bmp, m.desc, dir);
	ctx.trace();
}

struct CaseDef { int kind; std::size_t seed, from, to; };
std::vector<CaseDef> gCases;

void build(Ctx& ctx)
{
	buildSeeds(ctx.thorough);
	gCases.clear();
	// first in the list: each is picked up by a worker process that has not loaded anything yet, so state that survives
	// between objects (function-local statics, caches) is still in its initial condition
	gCases.push_back({ 2, 0, 0, 0 }); gCases.push_back({ 2, 1, 0, 0 });
	if (ctx.thorough) gCases.push_back({ 3, 0, 0, 0 });
	for (std::size_t s = 0; s < gSeeds.size(); ++s) { std::size_t chunk = gSeeds[s].loader == 2 ? 60 : 250; for (std::size_t f = 0; f < gSpaces[s]->size() + 1; f += chunk) gCases.push_back({ 0, s, f, std::min(f + chunk, gSpaces[s]->size() + 1) }); }
	for (std::size_t l = 0; l < 3; ++l) for (std::size_t f = 0; f < gConstructed[l].size(); f += 40) gCases.push_back({ 1, l, f, std::min(f + 40, gConstructed[l].size()) });

}

void preparePixelFiles(const std::string& dir)
{
	mc::writeFile(dir + "/empty.bmp", std::vector<uint8_t>{});
	mc::writeFile(dir + "/short.bmp", std::vector<uint8_t>(1078 + 10, 0x21));
	mc::writeFile(dir + "/exact.bmp", std::vector<uint8_t>(1078 + 4 + 16 + 4000, 0x42));
}

// a loaded bitmap with more than 2^31 bytes of pixel data (8 bit, 32768 x 65600, read from a sparse file): saving and flipping it
// must stay inside the pixel container and free of overflowed arithmetic. Thorough tier only, and only where 24 GiB are free.
struct DiscardingWriter : Stream::Writer {   // looks at the first and the last byte it is handed, keeps nothing
	uint64_t total = 0; unsigned sum = 0;
	void WriteImplementation(const void* buffer, std::size_t size) override { if (size) { const volatile uint8_t* p = static_cast<const volatile uint8_t*>(buffer); sum += p[0]; sum += p[size - 1]; } total += size; }
};
void giantBitmapCase(Ctx& ctx)
{
	uint64_t availKiB = 0;
	if (FILE* f = std::fopen("/proc/meminfo", "r")) { char line[256]; while (std::fgets(line, sizeof line, f)) { unsigned long long v; if (std::sscanf(line, "MemAvailable: %llu kB", &v) == 1) availKiB = v; } std::fclose(f); }
	if (availKiB < (uint64_t(24) << 20)) { ctx.count("giant/skipped-for-lack-of-memory"); ctx.state(); return; }
	std::size_t savedCap = mc::alloc_cap; mc::alloc_cap = std::size_t(5) << 30;
	std::string dir = ctx.freshDir("c11giant"), path = dir + "/giant.bmp";
	ref::RBmp b; b.depth = 8; b.width = 32768; b.height = 0;
	for (int i = 0; i < 256; ++i) b.palette.push_back({ uint8_t(i), uint8_t(i), uint8_t(i), 0 });
	auto head = ref::encodeBmp(b);
	const uint64_t rows = 65600, pixelBytes = rows * 32768;
	mc::set32(head, 22, uint32_t(rows)); mc::set32(head, 2, uint32_t(head.size() + pixelBytes));
	{ int fd = ::open(path.c_str(), O_CREAT | O_TRUNC | O_WRONLY, 0644); if (fd < 0 || ::write(fd, head.data(), head.size()) != ssize_t(head.size()) || ::ftruncate(fd, off_t(head.size() + pixelBytes)) != 0) std::abort(); ::close(fd); }
	std::string key = "bitmap 8 bit 32768 x 65600 (2149580800 bytes of pixel data)";
	ctx.sub(key + " :: ReadIndexed");
	BitmapFile f;
	auto o = mc::guarded([&] { f = BitmapFile::ReadIndexed(path); });
	ctx.transition();
	if (o.cls != 'R') { ctx.count("giant/refused"); }
	else {
		ctx.count("giant/loaded");
		ctx.sub(key + " :: then WriteIndexed");
		DiscardingWriter w;
		auto ow = mc::guarded([&] { f.WriteIndexed(w); });
		ctx.transition();
		if (ow.cls == 'X') ctx.violation("C11/followup/non-std-exception", key + " :: WriteIndexed", "");
		ctx.sub(key + " :: then Validate");
		mc::guarded([&] { f.Validate(); });
	}
	f = BitmapFile();
	mc::alloc_cap = savedCap;
	mc::removeTree(dir);
	ctx.state(); ctx.trace();
}

void runCase(std::size_t i, Ctx& ctx)
{
	const CaseDef& c = gCases[i];
	if (c.kind == 3) { giantBitmapCase(ctx); return; }
	std::string dir = ctx.freshDir("c11");
	preparePixelFiles(dir);
	if (c.kind == 0) {
		const auto& sd = gSeeds[c.seed];
		for (std::size_t k = c.from; k < c.to; ++k) {
			if (k == 0) { mc::Mutant m; m.bytes = sd.fs.bytes; m.desc = sd.name + " (unmodified seed)"; runMutant(ctx, sd.loader, m, false, dir); ctx.count("seeds/unmodified"); continue; }
			runMutant(ctx, sd.loader, gSpaces[c.seed]->get(k - 1), gSpaces[c.seed]->isPrefix(k - 1), dir);
		}
		if (c.seed == 5 && c.from == 0) ctx.sample("PRT seed (2 palettes, 3 images, 2 animations): every proper prefix and field x boundary value; accepted results are written and every sprite index 0..count+1 is extracted against 3 pixel files");
		if (c.seed == 1 && c.from == 0) ctx.sample(gSpaces[1]->get(40).desc + " -> ReadIndexed; if accepted: Validate/WriteIndexed/WriteCustomTileset/InvertScanLines/SwapRedAndBlue/... in every reachable flip/swap state");
	}
	else if (c.kind == 2) {
		// several loaded objects used in turn in one process: sprite sheets with 3, 1 and 0 images (either order), and bitmaps
		// of different shapes; what one object allows must not leak into the checks of the next
		std::vector<int> z(prtc::kDims, 0);
		std::vector<mc::Mutant> sheets;
		{ mc::Mutant m; m.bytes = gSeeds[5].fs.bytes; m.desc = "sprite sheet with 3 images (used in turn with others)"; sheets.push_back(m); }
		{ mc::Mutant m; m.bytes = ref::encodePrt(prtc::makePrt(z)); m.desc = "sprite sheet with 1 image (used in turn with others)"; sheets.push_back(m); }
		{ auto zz = z; zz[1] = 1; mc::Mutant m; m.bytes = ref::encodePrt(prtc::makePrt(zz)); m.desc = "sprite sheet without images (used in turn with others)"; sheets.push_back(m); }
		if (c.seed == 1) std::reverse(sheets.begin(), sheets.end());
		for (int round = 0; round < 2; ++round) for (auto& m : sheets) { runMutant(ctx, 2, m, false, dir); ctx.count("followup/objects-used-in-turn"); }
		for (int round = 0; round < 2; ++round) for (std::size_t sidx : { std::size_t(2), std::size_t(0), std::size_t(3), std::size_t(1) }) { mc::Mutant m; m.bytes = gSeeds[sidx].fs.bytes; m.desc = gSeeds[sidx].name + " (used in turn with others)"; runMutant(ctx, gSeeds[sidx].loader, m, false, dir); }
	}
	else {
		for (std::size_t k = c.from; k < c.to; ++k) { runMutant(ctx, int(c.seed), gConstructed[c.seed][k], false, dir); ctx.count("constructed/wrap-consistent-headers"); }
	}
	mc::removeTree(dir);
}

} // namespace

int main(int argc, char** argv)
{
	mc::CheckDef def;
	def.id = "C11";
	def.init = build;
	def.ncases = [](Ctx&) { return gCases.size(); };
	def.run = runCase;
	def.describe = [](std::size_t i) { const auto& c = gCases[i]; return (c.kind == 0 ? gSeeds[c.seed].name : c.kind == 3 ? std::string("giant bitmap") : c.kind == 2 ? std::string("objects used in turn, order ") + std::to_string(c.seed) : "constructed loader " + std::to_string(c.seed)) + " " + std::to_string(c.from) + ".." + std::to_string(c.to); };
	def.caseTimeoutS = 120;
	def.fsizeLimit = std::size_t(3) << 30;   // the sparse 2 GiB bitmap of the thorough tier
	return mc::Main(argc, argv, def);
}
