// Reference RIFF/WAVE builder and parser (independent of src/Archive/WaveFile.*), flat byte vectors.
#pragma once
#include "mc/mc.hpp"
#include <string>
#include <vector>

namespace ref {

struct WaveFormat {
	uint16_t tag = 1, channels = 1; uint32_t rate = 22050, avgBytes = 44100; uint16_t blockAlign = 2, bits = 16;
	bool operator==(const WaveFormat& o) const { return tag == o.tag && channels == o.channels && rate == o.rate && avgBytes == o.avgBytes && blockAlign == o.blockAlign && bits == o.bits; }
};

inline WaveFormat waveFormat(int k)
{
	switch (k) {
	case 1: return WaveFormat{ 1, 2, 44100, 176400, 4, 16 };
	case 2: return WaveFormat{ 1, 1, 8000, 8000, 1, 8 };
	default: return WaveFormat{};
	}
}

struct WavSpec {
	WaveFormat fmt;
	std::vector<uint8_t> data;
	bool chunkBeforeFmt = false, chunkBetween = false, chunkAfterData = false;
	uint32_t fmtSize = 16;           // 16 (no cbSize) or 18 (cbSize present)
	uint16_t cbSizeValue = 0;        // value stored in cbSize when fmtSize == 18
	bool decoys = false;             // the extra chunks carry bytes that look like 'data' / 'fmt ' chunk headers (the one before
	                                 // 'fmt ' puts a 'data' header at file offset 36, where a file without extra chunks has it)
};

inline std::vector<uint8_t> extraChunkBody(const WavSpec& w, int which)   // 0 before 'fmt ', 1 between, 2 after the data
{
	if (!w.decoys) return which == 0 ? std::vector<uint8_t>{ 1, 2, 3, 4 } : which == 1 ? std::vector<uint8_t>{ 9, 9 } : std::vector<uint8_t>{ 7, 7, 7, 7, 7, 7 };
	std::vector<uint8_t> b;
	if (which == 0) { for (int i = 0; i < 16; ++i) b.push_back(uint8_t(0xA1 + i)); mc::putStr(b, "data"); mc::put32(b, 4); for (int i = 0; i < 8; ++i) b.push_back(uint8_t(0x22 + i)); }
	else if (which == 1) { mc::putStr(b, "data"); mc::put32(b, 2); b.push_back(0x55); b.push_back(0x66); }
	else { mc::putStr(b, "data"); mc::put32(b, 0); mc::putStr(b, "fmt "); mc::put32(b, 16); for (int i = 0; i < 4; ++i) b.push_back(uint8_t(0x33 + i)); }
	return b;
}

inline void putChunk(std::vector<uint8_t>& v, const char* tag, const std::vector<uint8_t>& body)
{
	mc::putStr(v, std::string(tag, 4)); mc::put32(v, uint32_t(body.size())); v.insert(v.end(), body.begin(), body.end());
}

inline std::vector<uint8_t> encodeWav(const WavSpec& w)
{
	std::vector<uint8_t> body;
	mc::putStr(body, "WAVE");
	// with decoys the extra chunks also carry ids that equal the real tags except for letter case (RIFF ids are case sensitive)
	if (w.chunkBeforeFmt) putChunk(body, w.decoys ? "Fmt " : "LIST", extraChunkBody(w, 0));
	std::vector<uint8_t> f;
	mc::put16(f, w.fmt.tag); mc::put16(f, w.fmt.channels); mc::put32(f, w.fmt.rate); mc::put32(f, w.fmt.avgBytes); mc::put16(f, w.fmt.blockAlign); mc::put16(f, w.fmt.bits);
	if (w.fmtSize >= 18) mc::put16(f, w.cbSizeValue);
	putChunk(body, "fmt ", f);
	if (w.chunkBetween) putChunk(body, w.decoys ? "DATA" : "fact", extraChunkBody(w, 1));
	putChunk(body, "data", w.data);
	if (w.chunkAfterData) putChunk(body, w.decoys ? "Data" : "cue ", extraChunkBody(w, 2));
	std::vector<uint8_t> v;
	mc::putStr(v, "RIFF"); mc::put32(v, uint32_t(body.size())); v.insert(v.end(), body.begin(), body.end());
	return v;
}

struct ParsedWav { bool ok = false; std::string why; WaveFormat fmt; uint16_t cbSize = 0; uint32_t fmtSize = 0; std::vector<uint8_t> data; uint32_t riffSize = 0; };

// strict parser of the canonical extracted form: RIFF size WAVE 'fmt ' 18 WAVEFORMATEX 'data' n bytes
// A self-consistent WAV file: the RIFF size covers the file exactly, the chunks tile the RIFF body (an odd-sized chunk may be
// followed by its pad byte), there is one 'fmt ' chunk of at least 16 bytes in front of one 'data' chunk. The name is historical:
// the layout need not be the 46-byte one the pinned tree writes (a 16-byte fmt chunk is as self-consistent as an 18-byte one)
inline ParsedWav parseCanonicalWav(const std::vector<uint8_t>& v)
{
	ParsedWav p;
	if (v.size() < 12 + 8 + 16 + 8) { p.why = "shorter than RIFF header, fmt chunk and data chunk header"; return p; }
	if (std::string(v.begin(), v.begin() + 4) != "RIFF" || std::string(v.begin() + 8, v.begin() + 12) != "WAVE") { p.why = "RIFF/WAVE tags"; return p; }
	p.riffSize = mc::get32(v, 4);
	if (uint64_t(p.riffSize) + 8 != v.size()) { p.why = "RIFF size " + std::to_string(p.riffSize) + " != file size - 8 (" + std::to_string(v.size() - 8) + ")"; return p; }
	std::size_t pos = 12; bool haveFmt = false, haveData = false;
	while (pos < v.size()) {
		if (pos + 8 > v.size()) { p.why = "a chunk header is cut off at the end of the file"; return p; }
		std::string tag(v.begin() + std::ptrdiff_t(pos), v.begin() + std::ptrdiff_t(pos + 4));
		uint64_t len = mc::get32(v, pos + 4);
		if (pos + 8 + len > v.size()) { p.why = "chunk '" + tag + "' of " + std::to_string(len) + " bytes does not fit the file"; return p; }
		if (tag == "fmt ") {
			if (haveFmt || haveData) { p.why = "fmt chunk out of place"; return p; }
			if (len < 16) { p.why = "fmt chunk size " + std::to_string(len); return p; }
			std::size_t q = pos + 8;
			p.fmtSize = uint32_t(len);
			p.fmt.tag = mc::get16(v, q); p.fmt.channels = mc::get16(v, q + 2); p.fmt.rate = mc::get32(v, q + 4); p.fmt.avgBytes = mc::get32(v, q + 8); p.fmt.blockAlign = mc::get16(v, q + 12); p.fmt.bits = mc::get16(v, q + 14);
			if (len >= 18) { p.cbSize = mc::get16(v, q + 16); if (uint64_t(18) + p.cbSize > len) { p.why = "cbSize exceeds the fmt chunk"; return p; } }
			haveFmt = true;
		}
		else if (tag == "data") {
			if (!haveFmt || haveData) { p.why = "data chunk out of place"; return p; }
			p.data.assign(v.begin() + std::ptrdiff_t(pos + 8), v.begin() + std::ptrdiff_t(pos + 8 + len));
			haveData = true;
		}
		pos += std::size_t(8 + len);
		if ((len & 1) && pos < v.size()) ++pos;   // pad byte
	}
	if (!haveFmt || !haveData) { p.why = "fmt or data chunk missing"; return p; }
	p.ok = true;
	return p;
}

} // namespace ref
