// Reference PRT (sprite metadata) value type and encoder with field map, from DESIGN.md appendix A.
#pragma once
#include "mc/mc.hpp"
#include "ref_bmp.hpp"
#include <array>
#include <string>
#include <vector>

namespace ref {

struct RImage { uint32_t scanLine = 0, pixelOffset = 0, height = 0, width = 0; uint16_t type = 0, paletteIndex = 0; };
struct RLayer { uint16_t bitmapIndex = 0; uint8_t unknown = 0, frameIndex = 0; int16_t x = 0, y = 0; };
struct RFrame { uint8_t count7 = 0; bool flag1 = false; uint8_t unknown7 = 0; bool flag2 = false; uint8_t opt[4] = { 0, 0, 0, 0 }; std::vector<RLayer> layers; };
struct RUnknown { uint32_t v[4] = { 0, 0, 0, 0 }; };
struct RAnimation { uint32_t unknown = 0; int32_t rect[4] = { 0, 0, 0, 0 }; int32_t disp[2] = { 0, 0 }; uint32_t unknown2 = 0; std::vector<RFrame> frames; std::vector<RUnknown> containers; };

struct RPaletteHeaderForm { uint32_t overall = 1048, headLen = 4, tagCount = 1, dataLen = 1024; };

struct RPrt {
	std::vector<std::array<RColor, 256>> palettes;     // in-memory meaning r, g, b, a
	std::vector<RImage> images;
	std::vector<RAnimation> animations;
	uint32_t unknownCount = 0;
	RPaletteHeaderForm form;                            // how the palette section headers are spelled in the file
	// totals written in the header (normally the actual totals)
	bool overrideTotals = false; uint32_t totalFrames = 0, totalLayers = 0;
};

inline std::vector<uint8_t> encodePrt(const RPrt& p, std::vector<Field>* f = nullptr)
{
	std::vector<uint8_t> v;
	auto F = [&](int w, const std::string& n) { if (f) f->push_back({ v.size(), w, n }); };
	mc::putStr(v, "CPAL"); F(4, "paletteCount"); mc::put32(v, uint32_t(p.palettes.size()));
	for (std::size_t i = 0; i < p.palettes.size(); ++i) {
		std::string n = "palette" + std::to_string(i);
		mc::putStr(v, "PPAL"); F(4, n + ".overallLength"); mc::put32(v, p.form.overall);
		mc::putStr(v, "head"); F(4, n + ".headLength"); mc::put32(v, p.form.headLen);
		F(4, n + ".tagCount"); mc::put32(v, p.form.tagCount);
		mc::putStr(v, "data"); F(4, n + ".dataLength"); mc::put32(v, p.form.dataLen);
		for (auto& c : p.palettes[i]) { v.push_back(c.b); v.push_back(c.g); v.push_back(c.r); v.push_back(c.a); }
	}
	F(4, "imageCount"); mc::put32(v, uint32_t(p.images.size()));
	for (std::size_t i = 0; i < p.images.size(); ++i) {
		const auto& im = p.images[i]; std::string n = "image" + std::to_string(i);
		F(4, n + ".scanLine"); mc::put32(v, im.scanLine); F(4, n + ".pixelOffset"); mc::put32(v, im.pixelOffset);
		F(4, n + ".height"); mc::put32(v, im.height); F(4, n + ".width"); mc::put32(v, im.width);
		F(2, n + ".type"); mc::put16(v, im.type); F(2, n + ".paletteIndex"); mc::put16(v, im.paletteIndex);
	}
	uint32_t tf = 0, tl = 0;
	for (auto& a : p.animations) { tf += uint32_t(a.frames.size()); for (auto& fr : a.frames) tl += uint32_t(fr.layers.size()); }
	F(4, "animationCount"); mc::put32(v, uint32_t(p.animations.size()));
	F(4, "totalFrames"); mc::put32(v, p.overrideTotals ? p.totalFrames : tf);
	F(4, "totalLayers"); mc::put32(v, p.overrideTotals ? p.totalLayers : tl);
	F(4, "unknownCount"); mc::put32(v, p.unknownCount);
	for (std::size_t ai = 0; ai < p.animations.size(); ++ai) {
		const auto& a = p.animations[ai]; std::string n = "anim" + std::to_string(ai);
		mc::put32(v, a.unknown);
		for (int k = 0; k < 4; ++k) mc::put32(v, uint32_t(a.rect[k]));
		for (int k = 0; k < 2; ++k) mc::put32(v, uint32_t(a.disp[k]));
		mc::put32(v, a.unknown2);
		F(4, n + ".frameCount"); mc::put32(v, uint32_t(a.frames.size()));
		for (std::size_t fi = 0; fi < a.frames.size(); ++fi) {
			const auto& fr = a.frames[fi];
			F(1, n + ".frame" + std::to_string(fi) + ".layerMeta"); v.push_back(uint8_t((fr.count7 & 0x7F) | (fr.flag1 ? 0x80 : 0)));
			F(1, n + ".frame" + std::to_string(fi) + ".unknownBitfield"); v.push_back(uint8_t((fr.unknown7 & 0x7F) | (fr.flag2 ? 0x80 : 0)));
			if (fr.flag1) { v.push_back(fr.opt[0]); v.push_back(fr.opt[1]); }
			if (fr.flag2) { v.push_back(fr.opt[2]); v.push_back(fr.opt[3]); }
			for (auto& l : fr.layers) { mc::put16(v, l.bitmapIndex); v.push_back(l.unknown); v.push_back(l.frameIndex); mc::put16(v, uint16_t(l.x)); mc::put16(v, uint16_t(l.y)); }
		}
		F(4, n + ".containerCount"); mc::put32(v, uint32_t(a.containers.size()));
		for (auto& c : a.containers) for (int k = 0; k < 4; ++k) mc::put32(v, c.v[k]);
	}
	return v;
}

inline uint64_t roundUp4(uint64_t w) { return (w + 3) & ~uint64_t(3); }

} // namespace ref
