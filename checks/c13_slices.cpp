// C13 - slices are confined, independent, and equivalent across stream backends.
//  (a) construction grid: every (start,length) boundary pair at every parent position, nested to depth 3
//  (b) interleavings: joint explicit-state BFS over a parent, overlapping slices, a copy, a nested slice;
//      and over two member streams of one VolFile / ClmFile plus archive calls
//  (c) backend equivalence: lock-step BFS over memory / file / slice-of-memory / slice-of-file / slice-of-slice
#include "mc/mc.hpp"
#include "mc/explore.hpp"
#include "mc/peek.hpp"
#include "ref/ref_wav.hpp"
#include "ref/ref_lzh.hpp"
#include "ref/ref_vol.hpp"
#include "Archive/VolFile.h"
#include "Archive/ClmFile.h"
#include <memory>
#include <unistd.h>
#include <fcntl.h>
#include <sys/resource.h>
#include <set>
#include <functional>

using namespace OP2Utility;
using mc::Ctx;
typedef unsigned __int128 u128;

namespace {

std::size_t gGridLens = 4;   // parent lengths of the construction grid: 4 at quick, 7 at thorough

std::vector<uint8_t> pattern(std::size_t n, uint8_t base = 0x10) { std::vector<uint8_t> v(n); for (std::size_t i = 0; i < n; ++i) v[i] = uint8_t(base + i); return v; }

// ------------------------------------------------------------------------------------------------
// (a) construction grid
// ------------------------------------------------------------------------------------------------
struct Grid {
	Ctx& ctx;
	std::string backend;
	void bad(const std::string& clause, const std::string& key, const std::string& detail) { ctx.violation("C13/" + backend + "/" + clause, key, detail); }

	// r must expose exactly `exp` at positions 0..len and nothing else
	template <class R>
	bool window(R& r, const std::vector<uint8_t>& exp, const std::string& key)
	{
		uint64_t n = exp.size();
		auto q = mc::guarded([&] {
			if (r.Length() != n) throw std::runtime_error("Length()=" + std::to_string(r.Length()) + " expected " + std::to_string(n));
			if (r.Position() != 0) throw std::runtime_error("Position()=" + std::to_string(r.Position()) + " expected 0");
			std::vector<uint8_t> buf(n);
			r.Read(buf.data(), n);
			if (buf != exp) throw std::runtime_error("content " + mc::hex(buf.data(), n) + " expected " + mc::hex(exp.data(), n));
			if (r.Position() != n) throw std::runtime_error("position after full read " + std::to_string(r.Position()));
		});
		if (q.cls != 'R') { bad("slice-window", key, q.what); return false; }
		uint8_t b = 0;
		if (mc::guarded([&] { r.Read(&b, 1); }).cls == 'R') { bad("slice-reads-past-end", key, "byte " + std::to_string(b)); return false; }
		if (mc::guarded([&] { r.Seek(n + 1); }).cls == 'R') { bad("slice-seeks-past-end", key, ""); return false; }
		if (mc::guarded([&] { r.SeekForward(1); }).cls == 'R') { bad("slice-seeks-past-end", key, "SeekForward"); return false; }
		if (mc::guarded([&] { r.SeekBackward(n + 1); }).cls == 'R') { bad("slice-seeks-before-begin", key, ""); return false; }
		// every position: partial read from there delivers the tail
		for (uint64_t p = 0; p <= n; ++p) {
			auto o = mc::guarded([&] {
				r.Seek(p);
				std::vector<uint8_t> buf(n - p + 2);
				std::size_t got = r.ReadPartial(buf.data(), buf.size());
				if (got != n - p || std::memcmp(buf.data(), exp.data() + p, got) != 0) throw std::runtime_error("tail from " + std::to_string(p) + " got " + std::to_string(got) + " bytes " + mc::hex(buf.data(), got));
				if (r.Position() != n) throw std::runtime_error("position after tail read " + std::to_string(r.Position()));
			});
			if (o.cls != 'R') { bad("slice-tail", key, o.what); return false; }
		}
		if (mc::guarded([&] { r.Seek(0); }).cls != 'R') { bad("slice-seek0", key, ""); return false; }
		ctx.transition(6 + 2 * (n + 1));
		return true;
	}

	template <class P>
	bool parentIntact(P& parent, const std::vector<uint8_t>& bytes, uint64_t pos, const std::string& key)
	{
		auto o = mc::guarded([&] {
			if (parent.Position() != pos) throw std::runtime_error("parent Position()=" + std::to_string(parent.Position()) + " expected " + std::to_string(pos));
			if (parent.Length() != bytes.size()) throw std::runtime_error("parent Length()=" + std::to_string(parent.Length()));
			std::vector<uint8_t> buf(bytes.size() - pos);
			parent.Read(buf.data(), buf.size());
			if (std::memcmp(buf.data(), bytes.data() + pos, buf.size()) != 0) throw std::runtime_error("parent bytes changed");
			parent.Seek(pos);
		});
		if (o.cls != 'R') { bad("parent-disturbed", key, o.what); return false; }
		return true;
	}

	// P: parent type with Slice(len) and Slice(start,len) returning S (constructible into unique_ptr<S>)
	template <class P, class S>
	void level(P& parent, const std::vector<uint8_t>& bytes, int depth, const std::string& path)
	{
		uint64_t n = bytes.size();
		std::set<uint64_t> starts, positions;
		if (depth == 1) { starts = { 0, 1, n, n + 1, 0x8000000000000000ull, ~0ull }; if (n) starts.insert(n - 1); for (uint64_t p = 0; p <= n; ++p) positions.insert(p); }
		else { starts = { 0, 1, n }; positions = { 0, n / 2 }; }
		for (uint64_t pos : positions) {
			if (mc::guarded([&] { parent.Seek(pos); }).cls != 'R') { bad("parent-seek", path, ""); return; }
			for (int form = 0; form < 2; ++form) {
				std::set<uint64_t> st = form == 0 ? std::set<uint64_t>{ pos } : starts;
				for (uint64_t s : st) {
					std::set<uint64_t> lens = { 0, n - s, n - s + 1, 0 - s, ~0ull };
					if (depth == 1) { lens.insert(1); lens.insert(n); lens.insert(0 - s + 1); lens.insert(0 - s + n); lens.insert(0x8000000000000000ull); lens.insert(n - s - 1); }
					for (uint64_t l : lens) {
						std::string key = path + (form == 0 ? " @pos" + std::to_string(pos) + ".Slice(" + std::to_string(l) + ")" : " @pos" + std::to_string(pos) + ".Slice(" + std::to_string(s) + "," + std::to_string(l) + ")");
						ctx.sub(key);
						bool fits = u128(s) + l <= n;
						std::unique_ptr<S> sl;
						auto o = mc::guarded([&] { if (form == 0) sl = std::make_unique<S>(parent.Slice(l)); else sl = std::make_unique<S>(parent.Slice(s, l)); });
						ctx.transition();
						ctx.outcome(mc::fnv(backend) ^ (uint64_t(o.cls) << 8) ^ (fits ? 1 : 0) ^ (uint64_t(form) << 1) ^ (uint64_t(depth) << 4));
						if (!fits) {
							ctx.count(u128(s) + l > u128(~0ull) ? "grid/refused-by-wrap" : "grid/refused-out-of-range");
							if (o.cls == 'R') { bad("accepted-uncontained-slice", key, "parent length " + std::to_string(n)); continue; }
							if (o.cls == 'X') { bad("non-std-exception", key, ""); continue; }
							if (!parentIntact(parent, bytes, pos, key)) return;
							continue;
						}
						ctx.count("grid/accepted");
						if (o.cls != 'R') { bad("refused-contained-slice", key, o.what); if (mc::guarded([&] { parent.Seek(pos); }).cls != 'R') return; continue; }
						uint64_t expectPos = form == 0 ? pos + l : pos;
						if (!parentIntact(parent, bytes, expectPos, key)) return;
						std::vector<uint8_t> sub(bytes.begin() + s, bytes.begin() + s + l);
						ctx.state();
						if (!window(*sl, sub, key)) { parent.Seek(pos); continue; }
						// the parent must not have moved because the slice was used
						if (!parentIntact(parent, bytes, expectPos, key + " after-using-slice")) return;
						if (depth < 3) { level<S, S>(*sl, sub, depth + 1, key); }
						if (mc::guarded([&] { parent.Seek(pos); }).cls != 'R') { bad("parent-seek", key, ""); return; }
					}
				}
			}
		}
	}
};

void gridCase(std::size_t which, Ctx& ctx)
{
	static const std::size_t lens[] = { 0, 1, 4, 6, 2, 3, 8 };
	std::size_t n = lens[which % gGridLens];
	int backend = int(which / gGridLens);
	auto bytes = pattern(n);
	if (backend == 0) {
		Grid g{ ctx, "MemoryReader" };
		std::unique_ptr<uint8_t[]> buf(new uint8_t[n ? n : 1]); std::memcpy(buf.get(), bytes.data(), n);
		Stream::MemoryReader parent(buf.get(), n);
		g.level<Stream::MemoryReader, Stream::MemoryReader>(parent, bytes, 1, "mem" + std::to_string(n));
	}
	else {
		std::string dir = ctx.freshDir("c13a");
		std::string path = dir + "/p.bin";
		if (backend == 1) {
			mc::writeFile(path, bytes);
			Grid g{ ctx, "FileReader" };
			Stream::FileReader parent(path);
			g.level<Stream::FileReader, Stream::FileSliceReader>(parent, bytes, 1, "file" + std::to_string(n));
		}
		else {
			std::vector<uint8_t> framed = { 0xAA, 0xAB };
			framed.insert(framed.end(), bytes.begin(), bytes.end()); framed.push_back(0xAC);
			mc::writeFile(path, framed);
			Grid g{ ctx, "FileSliceReader" };
			Stream::FileReader fr(path);
			Stream::FileSliceReader parent = fr.Slice(2, n);
			g.level<Stream::FileSliceReader, Stream::FileSliceReader>(parent, bytes, 1, "fslice" + std::to_string(n));
		}
		mc::removeTree(dir);
	}
	ctx.trace();
	if (which == 1) ctx.sample("grid: parent mem1 @pos0.Slice(18446744073709551615,2) must be refused; @pos1.Slice(0) accepted, nested to depth 3");
}

// ------------------------------------------------------------------------------------------------
// (b) interleavings: joint BFS over several live readers
// ------------------------------------------------------------------------------------------------
enum OKind { oRead1, oRead2, oPartial3, oSeek0, oFwd1, oBack1, oPeek1, oArchive, oSliceHere };
struct JOp { int obj; int kind; int arg = 0; };

struct Obj {
	std::unique_ptr<Stream::BidirectionalReader> r;
	std::function<std::string()> key;
	std::vector<uint8_t> bytes;   // what this object must expose
	uint64_t mpos = 0;
	bool boundsChecked = true;    // a plain FileReader does not promise bounds checks: only in-bounds operations are driven on it
	std::function<void(uint64_t, Obj&)> sliceHere;   // r.Slice(n) on the typed reader (the form that slices at the current position); fills reader and key of the new object
};

// wraps a typed reader into an Obj; the slice-at-position form of a MemoryReader gives a MemoryReader, that of a FileReader
// or of a file slice gives a file slice
template <class R>
void fillObj(Obj& o, std::unique_ptr<R> r)
{
	R* raw = r.get();
	o.key = [raw] { return peek::key(*raw); };
	o.sliceHere = [raw](uint64_t n, Obj& out) {
		typedef decltype(std::declval<R&>().Slice(uint64_t(0))) S;
		auto sl = std::make_unique<S>(raw->Slice(n));
		fillObj<S>(out, std::move(sl));
	};
	o.r = std::move(r);
}

struct Joint {
	using Op = JOp;
	struct State {
		std::vector<Obj> objs;
		std::shared_ptr<void> keep;                         // buffers / archive object
		std::function<std::string()> extraKey;              // archive reader state
		std::function<std::string(int)> archiveOp;          // returns "" if observation as expected, else description
	};
	Ctx& ctx;
	std::string name;
	std::function<std::unique_ptr<State>()> make;
	int nArchiveOps = 0;
	int dynSlot = -1;                 // index of the slot that holds the most recent slice made at some object's current position (empty at first)
	std::vector<int> sliceLens = {};  // lengths n of the Slice(n) operations offered on every object

	std::unique_ptr<State> fresh() { return make(); }
	std::unique_ptr<State> clone(const State&) { return nullptr; }
	std::string key(const State& s)
	{
		std::string k;
		for (auto& o : s.objs) {
			if (!o.r) { k += "-;"; continue; }
			k += o.key(); k += "#" + std::to_string(o.mpos) + ";";
		}
		if (dynSlot >= 0 && s.objs[std::size_t(dynSlot)].r) { auto& b = s.objs[std::size_t(dynSlot)].bytes; k += "win=" + mc::hex(b.data(), b.size()); }   // which window the dynamic slice covers
		if (s.extraKey) k += s.extraKey();
		return k;
	}
	std::string show(const Op& o)
	{
		static const char* n[] = { "Read(1)", "Read(2)", "ReadPartial(3)", "Seek(0)", "SeekForward(1)", "SeekBackward(1)", "Peek(1)", "archive", "Slice" };
		if (o.kind == oSliceHere) return "o" + std::to_string(dynSlot) + "=o" + std::to_string(o.obj) + ".Slice(" + std::to_string(o.arg) + ")";
		return "o" + std::to_string(o.obj) + "." + n[o.kind] + (o.kind == oArchive ? std::to_string(o.arg) : "");
	}
	std::vector<Op> enabled(const State& s)
	{
		std::vector<Op> v;
		for (int i = 0; i < int(s.objs.size()); ++i) if (s.objs[i].r) for (int n : sliceLens) v.push_back({ i, oSliceHere, n });
		for (int i = 0; i < int(s.objs.size()); ++i) for (int k = 0; k < 7; ++k) {
			const Obj& o = s.objs[i];
			if (!o.r) continue;
			uint64_t rem = o.bytes.size() - o.mpos;
			if (!o.boundsChecked) {
				if ((k == oRead1 || k == oPeek1 || k == oFwd1) && rem < 1) continue;
				if (k == oRead2 && rem < 2) continue;
				if (k == oBack1 && o.mpos < 1) continue;
			}
			v.push_back({ i, k, 0 });
		}
		for (int a = 0; a < nArchiveOps; ++a) v.push_back({ -1, oArchive, a });
		return v;
	}
	bool apply(State& s, const Op& op, bool check, const std::string& hist)
	{
		auto bad = [&](const std::string& clause, const std::string& d) { if (check) ctx.violation("C13/interleaving/" + name + "/" + clause, hist, d); return false; };
		if (op.kind == oArchive) {
			std::string d;
			auto o = mc::guarded([&] { d = s.archiveOp(op.arg); });
			if (o.cls != 'R') return bad("archive-call-fails", o.what);
			if (!d.empty()) return bad("archive-call-observation", d);
		}
		else if (op.kind == oSliceHere) {
			Obj& src = s.objs[op.obj];
			uint64_t n = uint64_t(op.arg), rem = src.bytes.size() - src.mpos;
			Obj made;
			auto o = mc::guarded([&] { src.sliceHere(n, made); });
			if (n <= rem) {
				if (o.cls != 'R') return bad("slice-at-position-refused", o.what);
				made.bytes.assign(src.bytes.begin() + std::ptrdiff_t(src.mpos), src.bytes.begin() + std::ptrdiff_t(src.mpos + n));
				made.mpos = 0;
				if (op.obj != dynSlot) src.mpos += n;      // the parent has advanced by n
				s.objs[std::size_t(dynSlot)] = std::move(made);
				if (check) ctx.count("interleaving/slices-made-at-a-position");
			}
			else {
				if (o.cls == 'R') return bad("slice-at-position-beyond-the-end-accepted", "n=" + std::to_string(n) + " remaining=" + std::to_string(rem));
				if (check) ctx.count("interleaving/slices-at-a-position-refused");    // parent and every other object unchanged: checked below
			}
		}
		else {
			Obj& ob = s.objs[op.obj];
			uint64_t len = ob.bytes.size(), rem = len - ob.mpos;
			uint8_t buf[4] = { 0 };
			auto& r = *ob.r;
			switch (op.kind) {
			case oRead1: case oRead2: case oPeek1: {
				uint64_t k = op.kind == oRead2 ? 2 : 1;
				auto o = mc::guarded([&] { if (op.kind == oPeek1) r.Peek(buf, k); else r.Read(buf, k); });
				if (k <= rem) {
					if (o.cls != 'R') return bad("in-bounds-read-fails", o.what);
					if (std::memcmp(buf, &ob.bytes[ob.mpos], k) != 0) return bad("bytes", "got " + mc::hex(buf, k) + " expected " + mc::hex(&ob.bytes[ob.mpos], k));
					if (op.kind != oPeek1) ob.mpos += k;
				}
				else if (o.cls == 'R') return bad("out-of-bounds-read-accepted", "");
				break;
			}
			case oPartial3: {
				std::size_t got = r.ReadPartial(buf, 3);
				uint64_t e = rem < 3 ? rem : 3;
				if (got != e || std::memcmp(buf, &ob.bytes[ob.mpos], e) != 0) return bad("partial", "got " + std::to_string(got) + " " + mc::hex(buf, got));
				ob.mpos += e;
				break;
			}
			case oSeek0: { if (mc::guarded([&] { r.Seek(0); }).cls != 'R') return bad("seek0-fails", ""); ob.mpos = 0; break; }
			case oFwd1: { auto o = mc::guarded([&] { r.SeekForward(1); }); if (rem >= 1) { if (o.cls != 'R') return bad("fwd-fails", o.what); ob.mpos += 1; } else if (o.cls == 'R') return bad("fwd-accepted", ""); break; }
			case oBack1: { auto o = mc::guarded([&] { r.SeekBackward(1); }); if (ob.mpos >= 1) { if (o.cls != 'R') return bad("back-fails", o.what); ob.mpos -= 1; } else if (o.cls == 'R') return bad("back-accepted", ""); break; }
			}
		}
		if (check) {
			// every object still at its own position
			for (std::size_t i = 0; i < s.objs.size(); ++i) {
				if (!s.objs[i].r) continue;
				uint64_t p = ~0ull, l = ~0ull;
				auto o = mc::guarded([&] { p = s.objs[i].r->Position(); l = s.objs[i].r->Length(); });
				if (o.cls != 'R' || p != s.objs[i].mpos || l != s.objs[i].bytes.size())
					return bad("position-of-other-object", "object " + std::to_string(i) + " Position()=" + std::to_string(p) + " expected " + std::to_string(s.objs[i].mpos) + " Length()=" + std::to_string(l));
			}
			ctx.count("interleaving/edges");
		}
		return true;
	}
};

struct MemKeep { std::unique_ptr<uint8_t[]> p; std::vector<std::unique_ptr<Stream::MemoryReader>> owners; };

std::unique_ptr<Joint::State> makeMemJoint()
{
	auto st = std::make_unique<Joint::State>();
	auto keep = std::make_shared<MemKeep>();
	auto bytes = pattern(6);
	keep->p.reset(new uint8_t[6]); std::memcpy(keep->p.get(), bytes.data(), 6);
	auto parent = std::make_unique<Stream::MemoryReader>(keep->p.get(), 6);
	auto A = std::make_unique<Stream::MemoryReader>(parent->Slice(1, 4));
	auto B = std::make_unique<Stream::MemoryReader>(parent->Slice(2, 3));
	auto C = std::make_unique<Stream::MemoryReader>(*A);
	auto D = std::make_unique<Stream::MemoryReader>(A->Slice(1, 2));
	auto add = [&](std::unique_ptr<Stream::MemoryReader> r, std::size_t s, std::size_t n) {
		Obj o; Stream::MemoryReader* raw = r.get();
		o.key = [raw] { return peek::key(*raw); };
		o.bytes.assign(bytes.begin() + s, bytes.begin() + s + n);
		o.r = std::move(r);
		st->objs.push_back(std::move(o));
	};
	add(std::move(parent), 0, 6); add(std::move(A), 1, 4); add(std::move(B), 2, 3); add(std::move(C), 1, 4); add(std::move(D), 2, 2);
	st->keep = keep;
	return st;
}

std::unique_ptr<Joint::State> makeFileJoint(const std::string& path)
{
	auto st = std::make_unique<Joint::State>();
	auto bytes = pattern(6);
	auto parent = std::make_unique<Stream::FileReader>(path);
	auto A = std::make_unique<Stream::FileSliceReader>(parent->Slice(1, 4));
	auto B = std::make_unique<Stream::FileSliceReader>(parent->Slice(2, 3));
	auto C = std::make_unique<Stream::FileSliceReader>(*A);
	auto D = std::make_unique<Stream::FileSliceReader>(A->Slice(1, 2));
	{
		Obj o; Stream::FileReader* raw = parent.get();
		o.key = [raw] { return peek::key(*raw); }; o.bytes = bytes; o.r = std::move(parent); o.boundsChecked = false; st->objs.push_back(std::move(o));
	}
	auto add = [&](std::unique_ptr<Stream::FileSliceReader> r, std::size_t s, std::size_t n) {
		Obj o; Stream::FileSliceReader* raw = r.get();
		o.key = [raw] { return peek::key(*raw); };
		o.bytes.assign(bytes.begin() + s, bytes.begin() + s + n);
		o.r = std::move(r);
		st->objs.push_back(std::move(o));
	};
	add(std::move(A), 1, 4); add(std::move(B), 2, 3); add(std::move(C), 1, 4); add(std::move(D), 2, 2);
	return st;
}

// systems with a dynamic slot: parent, A = parent.Slice(1, len-2) [, B = A.Slice(1, len-4)], and an empty slot that receives x.Slice(n)
std::unique_ptr<Joint::State> makeMemDyn(std::size_t len, bool withB)
{
	auto st = std::make_unique<Joint::State>();
	auto keep = std::make_shared<MemKeep>();
	auto bytes = pattern(len);
	keep->p.reset(new uint8_t[len]); std::memcpy(keep->p.get(), bytes.data(), len);
	auto parent = std::make_unique<Stream::MemoryReader>(keep->p.get(), len);
	auto A = std::make_unique<Stream::MemoryReader>(parent->Slice(1, len - 2));
	std::unique_ptr<Stream::MemoryReader> B; if (withB) B = std::make_unique<Stream::MemoryReader>(A->Slice(1, len - 4));
	auto add = [&](std::unique_ptr<Stream::MemoryReader> r, std::size_t s, std::size_t n) { Obj o; fillObj(o, std::move(r)); o.bytes.assign(bytes.begin() + s, bytes.begin() + s + n); st->objs.push_back(std::move(o)); };
	add(std::move(parent), 0, len); add(std::move(A), 1, len - 2); if (withB) add(std::move(B), 2, len - 4);
	st->objs.emplace_back();
	st->keep = keep;
	return st;
}

std::unique_ptr<Joint::State> makeFileDyn(const std::string& path, std::size_t len, bool withB)
{
	auto st = std::make_unique<Joint::State>();
	auto bytes = pattern(len);
	auto parent = std::make_unique<Stream::FileReader>(path);
	auto A = std::make_unique<Stream::FileSliceReader>(parent->Slice(1, len - 2));
	std::unique_ptr<Stream::FileSliceReader> B; if (withB) B = std::make_unique<Stream::FileSliceReader>(A->Slice(1, len - 4));
	{ Obj o; fillObj(o, std::move(parent)); o.bytes = bytes; o.boundsChecked = false; st->objs.push_back(std::move(o)); }
	auto add = [&](std::unique_ptr<Stream::FileSliceReader> r, std::size_t s, std::size_t n) { Obj o; fillObj(o, std::move(r)); o.bytes.assign(bytes.begin() + s, bytes.begin() + s + n); st->objs.push_back(std::move(o)); };
	add(std::move(A), 1, len - 2); if (withB) add(std::move(B), 2, len - 4);
	st->objs.emplace_back();
	return st;
}

// archives -------------------------------------------------------------------------------------
struct ArchKeep { std::unique_ptr<Archive::ArchiveFile> a; };

std::string readAll(Stream::BidirectionalReader& r)
{
	std::string s(std::size_t(r.Length() - r.Position()), '\0');
	r.Read(&s[0], s.size());
	return s;
}

std::unique_ptr<Joint::State> makeArchiveJoint(const std::string& archivePath, bool vol, const std::vector<std::string>& names, const std::vector<std::vector<uint8_t>>& payloads, const std::string& outDir)
{
	auto st = std::make_unique<Joint::State>();
	auto keep = std::make_shared<ArchKeep>();
	if (vol) keep->a = std::make_unique<Archive::VolFile>(archivePath); else keep->a = std::make_unique<Archive::ClmFile>(archivePath);
	Archive::ArchiveFile* a = keep->a.get();
	for (int i = 0; i < 2; ++i) {
		Obj o;
		o.r = a->OpenStream(std::size_t(i));
		auto* raw = dynamic_cast<Stream::FileSliceReader*>(o.r.get());
		o.key = [raw] { return raw ? peek::key(*raw) : std::string("?"); };
		o.bytes = payloads[i];
		st->objs.push_back(std::move(o));
	}
	st->keep = keep;
	st->extraKey = [a, vol] {
		bool available = false;
		if (vol) return peek::volReaderKey(*static_cast<Archive::VolFile*>(a), available);
		return peek::clmReaderKey(*static_cast<Archive::ClmFile*>(a), available);
	};
	st->archiveOp = [a, names, payloads, outDir, vol](int which) -> std::string {
		switch (which) {
		case 0: { auto n = a->GetName(0); return n == names[0] ? "" : "GetName(0)=" + n; }
		case 1: { auto s = a->OpenStream(1); auto d = readAll(*s); return d == std::string(payloads[1].begin(), payloads[1].end()) ? "" : "fresh OpenStream(1) content " + mc::hex(d.data(), d.size()); }
		case 2: {
			std::string out = outDir + "/x0.bin";
			a->ExtractFile(std::size_t(0), out);
			auto v = mc::readFile(out);
			if (vol) return v == payloads[0] ? "" : "ExtractFile(0) wrote " + mc::hex(v.data(), v.size());
			auto p = ref::parseCanonicalWav(v);
			return p.ok && p.data == payloads[0] ? "" : "ExtractFile(0) wav: " + p.why;
		}
		case 3: { auto s = a->OpenStream(names[0]); auto d = readAll(*s); return d == std::string(payloads[0].begin(), payloads[0].end()) ? "" : "OpenStream(name0) content"; }
		default: { return a->GetSize(1) == payloads[1].size() ? "" : "GetSize(1)"; }
		}
	};
	return st;
}

void jointCase(std::size_t which, Ctx& ctx)
{
	std::size_t depthFile = 1000;   // the file-backed joint graphs reach their fixpoint in seconds
	if (which == 0) {
		Joint j{ ctx, "memory", makeMemJoint, 0 };
		auto r = mc::bfs(j, ctx, 200000, 1000, "joint-mem");
		ctx.trace(r.transitions);
		ctx.sample("joint BFS over {parent[6], A=Slice(1,4), B=Slice(2,3), C=copy(A), D=A.Slice(1,2)} x 7 ops: states=" + std::to_string(r.states) + " transitions=" + std::to_string(r.transitions) + " fixpoint=" + (r.fixpoint ? "yes" : "no"));
		return;
	}
	if (which == 4) {
		std::size_t len = ctx.thorough ? 7 : 5; bool withB = ctx.thorough;
		Joint j{ ctx, "memory-dyn", [=] { return makeMemDyn(len, withB); }, 0 };
		j.dynSlot = withB ? 3 : 2; j.sliceLens = ctx.thorough ? std::vector<int>{ 1, 2, 3 } : std::vector<int>{ 1, 2 };
		auto r = mc::bfs(j, ctx, 2000000, 1000, "joint-mem-dyn");
		ctx.trace(r.transitions);
		ctx.sample("joint BFS with slices made at the current position of every live object (memory): states=" + std::to_string(r.states) + " transitions=" + std::to_string(r.transitions) + " fixpoint=" + (r.fixpoint ? "yes" : "no"));
		return;
	}
	std::string dir = ctx.freshDir("c13b");
	if (which == 5) {
		std::size_t len = ctx.thorough ? 7 : 5; bool withB = ctx.thorough;
		std::string path = dir + "/pd.bin";
		mc::writeFile(path, pattern(len));
		Joint j{ ctx, "file-dyn", [=] { return makeFileDyn(path, len, withB); }, 0 };
		j.dynSlot = withB ? 3 : 2; j.sliceLens = ctx.thorough ? std::vector<int>{ 1, 2, 3 } : std::vector<int>{ 1, 2 };
		auto r = mc::bfs(j, ctx, 2000000, 1000, "joint-file-dyn");
		ctx.trace(r.transitions);
		ctx.count(r.fixpoint ? "interleaving/file-fixpoint" : "interleaving/file-depth-bounded");
	}
	else if (which == 1) {
		// the file is reached through a spelling that only the operating system resolves correctly: lnk -> real/deep, so
		// lnk/../p.bin is real/p.bin, whereas the lexically shortened spelling names the decoy next to lnk
		mc::makeDir(dir + "/real"); mc::makeDir(dir + "/real/deep");
		if (::symlink("real/deep", (dir + "/lnk").c_str()) != 0) std::abort();
		mc::writeFile(dir + "/real/p.bin", pattern(6));
		mc::writeFile(dir + "/p.bin", pattern(6, 0x90));
		std::string path = dir + "/lnk/../p.bin";
		Joint j{ ctx, "file", [path] { return makeFileJoint(path); }, 0 };
		auto r = mc::bfs(j, ctx, 20000, depthFile, "joint-file");
		ctx.trace(r.transitions);
		ctx.count(r.fixpoint ? "interleaving/file-fixpoint" : "interleaving/file-depth-bounded");
	}
	else {
		bool vol = which == 2;
		std::vector<std::string> names;
		std::vector<std::vector<uint8_t>> payloads = { pattern(3, 0x40), pattern(4, 0x60) };
		std::string arch = dir + (vol ? "/a.vol" : "/a.clm");
		std::string in = dir + "/in"; mc::makeDir(in);
		if (vol) {
			names = { "aa.txt", "bb.bin" };
			mc::writeFile(in + "/aa.txt", payloads[0]); mc::writeFile(in + "/bb.bin", payloads[1]);
			Archive::VolFile::CreateArchive(arch, { in + "/aa.txt", in + "/bb.bin" });
		}
		else {
			names = { "aa", "bb" };
			payloads = { pattern(2, 0x40), pattern(4, 0x60) };
			for (int i = 0; i < 2; ++i) { ref::WavSpec w; w.data = payloads[i]; mc::writeFile(in + "/" + names[i] + ".wav", ref::encodeWav(w)); }
			Archive::ClmFile::CreateArchive(arch, { in + "/aa.wav", in + "/bb.wav" });
		}
		std::string out = dir + "/out"; mc::makeDir(out);
		Joint j{ ctx, vol ? "vol" : "clm", [=] { return makeArchiveJoint(arch, vol, names, payloads, out); }, 5 };
		auto r = mc::bfs(j, ctx, 20000, depthFile, vol ? "joint-vol" : "joint-clm");
		ctx.trace(r.transitions);
		ctx.count("interleaving/archive-cases");
		if (vol) {
			// a reference-encoded volume whose first member is stored compressed: its index size (unpacked) differs from
			// its block length (stored). A member stream is the stored block, positions 0..block length, nothing else
			std::vector<ref::LzhToken> toks; for (int i = 0; i < 12; ++i) toks.push_back(ref::Lit(uint8_t('a' + i)));
			toks.push_back(ref::Match(20, 5)); toks.push_back(ref::Match(9, 2));
			auto packed = ref::lzhEncode(toks);
			auto plain = ref::lzhExpand(toks);
			std::vector<ref::VolMember> ms(3);
			ms[0].name = "aa.lzh"; ms[0].stored = packed; ms[0].kind = 0x103; ms[0].overrideIndexSize = true; ms[0].indexSize = uint32_t(plain.size());
			ms[1].name = "bb.bin"; ms[1].stored = pattern(5, 0x60);
			ms[2].name = "cc.lzh"; ms[2].stored = packed; ms[2].kind = 0x103; ms[2].overrideIndexSize = true; ms[2].indexSize = uint32_t(plain.size());   // last member: an over-long slice would pass the end of the file
			std::string rarch = dir + "/ref.vol";
			mc::writeFile(rarch, ref::encodeVol(ms).bytes);
			auto o = mc::guarded([&] {
				Archive::VolFile v(rarch);
				std::vector<std::unique_ptr<Stream::BidirectionalReader>> st;
				for (std::size_t i = 0; i < ms.size(); ++i) st.push_back(v.OpenStream(i));
				for (std::size_t i = 0; i < ms.size(); ++i) {
					if (st[i]->Length() != ms[i].stored.size() || st[i]->Position() != 0) { ctx.violation("C13/archive/member-stream-is-not-the-stored-block", ms[i].name, "Length " + std::to_string(st[i]->Length()) + ", stored block has " + std::to_string(ms[i].stored.size()) + " bytes (index size " + std::to_string(ms[i].overrideIndexSize ? ms[i].indexSize : uint32_t(ms[i].stored.size())) + ")"); return; }
				}
				// interleaved byte-wise reads
				std::size_t longest = 0; for (auto& m : ms) longest = std::max(longest, m.stored.size());
				for (std::size_t k = 0; k < longest; ++k) for (std::size_t i = 0; i < ms.size(); ++i) if (k < ms[i].stored.size()) {
					uint8_t b = 0; st[i]->Read(&b, 1);
					ctx.transition();
					if (b != ms[i].stored[k]) { ctx.violation("C13/archive/member-stream-bytes", ms[i].name, "byte " + std::to_string(k)); return; }
				}
				for (std::size_t i = 0; i < ms.size(); ++i) { uint8_t b; if (st[i]->ReadPartial(&b, 1) != 0) { ctx.violation("C13/archive/member-stream-reads-past-its-block", ms[i].name, ""); return; } }
				ctx.count("interleaving/compressed-member-streams");
			});
			if (o.cls != 'R') ctx.violation("C13/archive/compressed-member-stream-throws", "ref.vol", o.what);
		}
	}
	mc::removeTree(dir);
}

// ------------------------------------------------------------------------------------------------
// (b') a file larger than 4 GiB (sparse): positions, slices and nested slices around 2^31 and 2^32
// ------------------------------------------------------------------------------------------------
void largeFileCase(Ctx& ctx)
{
	std::string dir = ctx.freshDir("c13big");
	std::string path = dir + "/big.bin";
	const uint64_t G2 = 0x80000000ull, G4 = 0x100000000ull, size = G4 + 64;
	auto byteAt = [&](uint64_t x) -> uint8_t {   // marked regions of 32 bytes around 2^31, 2^32 and at both ends; zero elsewhere
		for (uint64_t c : { uint64_t(16), G2, G4, size - 16 }) if (x + 16 >= c && x < c + 16) return uint8_t(0x40 + (x * 7 + (c >> 28)) % 0xB0);
		return 0;
	};
	{
		int fd = ::open(path.c_str(), O_CREAT | O_TRUNC | O_WRONLY, 0644);
		if (fd < 0 || ::ftruncate(fd, off_t(size)) != 0) std::abort();
		for (uint64_t c : { uint64_t(16), G2, G4, size - 16 }) { uint8_t b[32]; for (int i = 0; i < 32; ++i) b[i] = byteAt(c - 16 + uint64_t(i)); if (::pwrite(fd, b, 32, off_t(c - 16)) != 32) std::abort(); }
		::close(fd);
	}
	const std::vector<uint64_t> P = { 0, 14, G2 - 3, G2, G2 + 5, G4 - 3, G4 - 1, G4, G4 + 1, G4 + 9, size - 4, size };
	auto bad = [&](const std::string& clause, const std::string& key, const std::string& d) { ctx.violation("C13/large-file/" + clause, key, d); };
	// checks reader r against the window [base, base+len) of the file
	std::function<bool(Stream::BidirectionalReader&, uint64_t, uint64_t, const std::string&, bool)> window = [&](Stream::BidirectionalReader& r, uint64_t base, uint64_t len, const std::string& key, bool boundsChecked) {
		auto o = mc::guarded([&] {
			if (r.Length() != len) throw std::runtime_error("Length() " + std::to_string(r.Length()) + " expected " + std::to_string(len));
			for (uint64_t p : P) {
				if (p < base || p - base > len) continue;
				uint64_t q = p - base;
				r.Seek(q);
				if (r.Position() != q) throw std::runtime_error("Position() after Seek(" + std::to_string(q) + ") is " + std::to_string(r.Position()));
				uint8_t b[4] = { 0, 0, 0, 0 };
				std::size_t want = std::size_t(std::min<uint64_t>(4, len - q));
				std::size_t got = r.ReadPartial(b, 4);
				ctx.transition();
				if (got != want) throw std::runtime_error("ReadPartial(4) at " + std::to_string(q) + " delivered " + std::to_string(got));
				for (std::size_t i = 0; i < got; ++i) if (b[i] != byteAt(p + i)) throw std::runtime_error("byte at file offset " + std::to_string(p + i) + " read as " + std::to_string(b[i]));
				if (r.Position() != q + got) throw std::runtime_error("Position() after reading at " + std::to_string(q));
				if (q >= 3) { r.Seek(q); r.SeekBackward(3); if (r.Position() != q - 3) throw std::runtime_error("SeekBackward(3) from " + std::to_string(q)); r.SeekForward(3); if (r.Position() != q) throw std::runtime_error("SeekForward(3) to " + std::to_string(q)); }
			}
			// relative seeks across both boundaries in one step
			if (len > G4 - G2 + 10) { r.Seek(0); r.SeekForward(len - 1); if (r.Position() != len - 1) throw std::runtime_error("SeekForward(len-1)"); r.SeekBackward(len - 1); if (r.Position() != 0) throw std::runtime_error("SeekBackward(len-1)"); }
		});
		if (o.cls != 'R') { bad("window", key, o.what); return false; }
		if (boundsChecked && mc::guarded([&] { r.Seek(len + 1); }).cls == 'R') { bad("seek-past-the-end-accepted", key, ""); return false; }   // a plain FileReader does not promise bounds checks
		ctx.count("large-file/windows");
		return true;
	};
	auto o = mc::guarded([&] {
		Stream::FileReader fr(path);
		if (!window(fr, 0, size, "FileReader over 4 GiB + 64 bytes", false)) return;
		for (uint64_t start : P) for (uint64_t len : { uint64_t(0), uint64_t(4), G2 + 7, size - start, size - start + 1 }) {
			std::string key = "Slice(" + std::to_string(start) + ", " + std::to_string(len) + ")";
			ctx.sub("large file " + key);
			bool contained = len <= size - start;
			std::unique_ptr<Stream::FileSliceReader> sl;
			auto os = mc::guarded([&] { sl = std::make_unique<Stream::FileSliceReader>(fr.Slice(start, len)); });
			ctx.transition();
			if (contained != (os.cls == 'R')) { bad(contained ? "contained-slice-refused" : "uncontained-slice-accepted", key, os.what); return; }
			if (!contained) continue;
			if (!window(*sl, start, len, key, true)) return;
			// a nested slice that again crosses a boundary, and one made at the current position
			if (len >= 12) {
				std::unique_ptr<Stream::FileSliceReader> in;
				auto on = mc::guarded([&] { in = std::make_unique<Stream::FileSliceReader>(sl->Slice(3, len - 5)); });
				if (on.cls != 'R') { bad("nested-slice-refused", key + ".Slice(3, len-5)", on.what); return; }
				if (!window(*in, start + 3, len - 5, key + ".Slice(3, len-5)", true)) return;
				auto oh = mc::guarded([&] { sl->Seek(len - 6); auto here = sl->Slice(4); if (sl->Position() != len - 2) throw std::runtime_error("parent not advanced by 4"); Stream::FileSliceReader h2(here); if (!window(h2, start + len - 6, 4, key + " Slice(4) at len-6", true)) throw std::runtime_error("window"); });
				if (oh.cls != 'R') { bad("slice-at-position", key, oh.what); return; }
			}
		}
	});
	if (o.cls != 'R') bad("throws", "big.bin", o.what);
	ctx.state(); ctx.trace();
	mc::removeTree(dir);
}

// ------------------------------------------------------------------------------------------------
// (b'') many repetitions on one archive object: streams, slices and copies are independent objects that can be dropped; thousands
// of them in a row (more than the process may hold open at once) must keep working and keep delivering the member bytes
// ------------------------------------------------------------------------------------------------
void repetitionsCase(Ctx& ctx)
{
	std::string dir = ctx.freshDir("c13rep");
	std::string in = dir + "/in"; mc::makeDir(in);
	rlimit before; ::getrlimit(RLIMIT_NOFILE, &before);
	rlimit few = before; few.rlim_cur = std::min<rlim_t>(before.rlim_cur, 256); ::setrlimit(RLIMIT_NOFILE, &few);   // at most 256 files open at once
	std::vector<std::vector<uint8_t>> payloads = { pattern(6, 0x40), pattern(10, 0x60) };
	mc::writeFile(in + "/aa.txt", payloads[0]); mc::writeFile(in + "/bb.bin", payloads[1]);
	for (int i = 0; i < 2; ++i) { ref::WavSpec w; w.data = payloads[std::size_t(i)]; mc::writeFile(in + (i ? "/bb.wav" : "/aa.wav"), ref::encodeWav(w)); }
	auto o = mc::guarded([&] {
		Archive::VolFile::CreateArchive(dir + "/a.vol", { in + "/aa.txt", in + "/bb.bin" });
		Archive::ClmFile::CreateArchive(dir + "/a.clm", { in + "/aa.wav", in + "/bb.wav" });
		const int N = 3000;
		for (int vol = 0; vol < 2; ++vol) {
			std::unique_ptr<Archive::ArchiveFile> a;
			if (vol) a = std::make_unique<Archive::VolFile>(dir + "/a.vol"); else a = std::make_unique<Archive::ClmFile>(dir + "/a.clm");
			for (int k = 0; k < N; ++k) {
				std::size_t i = std::size_t(k % 2);
				auto st = a->OpenStream(i);
				std::string d = readAll(*st);
				if (d != std::string(payloads[i].begin(), payloads[i].end())) throw std::runtime_error(std::string(vol ? "vol" : "clm") + ": OpenStream number " + std::to_string(k) + " delivered other bytes");
				if (k % 3 == 0) { auto* fs = dynamic_cast<Stream::FileSliceReader*>(st.get()); if (fs) { Stream::FileSliceReader copy(*fs); auto sub = copy.Slice(1, 2); uint8_t b = 0; sub.Read(&b, 1); if (b != payloads[i][1]) throw std::runtime_error("slice of a copy of stream number " + std::to_string(k)); } }
				if (k % 10 == 0) { a->ExtractFile(i, dir + "/x.out"); }
				ctx.transition();
			}
			for (int k = 0; k < N / 3; ++k) { std::unique_ptr<Archive::ArchiveFile> again; if (vol) again = std::make_unique<Archive::VolFile>(dir + "/a.vol"); else again = std::make_unique<Archive::ClmFile>(dir + "/a.clm"); if (again->GetCount() != 2) throw std::runtime_error("reopened archive number " + std::to_string(k)); }
			ctx.count("repetitions/archives");
		}
		{
			// a slice made at the current position can fail for a reason other than its bounds (the file has been renamed): the
			// parent, file reader or slice, stays where it was
			mc::writeFile(dir + "/gone.bin", pattern(64));
			Stream::FileReader parent(dir + "/gone.bin");
			auto outer = parent.Slice(8, 40);
			parent.Seek(16); outer.Seek(5);
			if (::rename((dir + "/gone.bin").c_str(), (dir + "/moved.bin").c_str()) != 0) std::abort();
			for (int which = 0; which < 2; ++which) {
				bool threw = false;
				try { if (which) outer.Slice(4); else parent.Slice(4); } catch (const std::exception&) { threw = true; }
				uint64_t pos = which ? outer.Position() : parent.Position();
				if (threw && pos != (which ? 5u : 16u)) throw std::runtime_error(std::string(which ? "file slice" : "file reader") + ": Slice(4) failed (file renamed) but the parent moved to " + std::to_string(pos));
				if (!threw && pos != (which ? 9u : 20u)) throw std::runtime_error("Slice(4) succeeded but the parent is at " + std::to_string(pos));
				ctx.count(threw ? "repetitions/slice-failed-for-another-reason-than-bounds" : "repetitions/slice-of-a-renamed-file-succeeded");
			}
		}
		Stream::FileReader fr(dir + "/a.vol");
		for (int k = 0; k < N; ++k) { auto sl = fr.Slice(0, 4); char t[4]; sl.Read(t, 4); if (std::string(t, 4) != "VOL ") throw std::runtime_error("slice number " + std::to_string(k) + " of one FileReader"); }
	});
	::setrlimit(RLIMIT_NOFILE, &before);
	if (o.cls != 'R') ctx.violation("C13/repetitions/later-streams-fail-or-differ", "3000 streams, copies, slices and extractions in a row on one archive object", o.what);
	ctx.state(); ctx.trace();
	mc::removeTree(dir);
}

// ------------------------------------------------------------------------------------------------
// (c) backend equivalence: the same in-bounds history on five backends, observations identical
// ------------------------------------------------------------------------------------------------
struct EqOp { int kind; uint64_t a; };
struct Equiv {
	using Op = EqOp;
	struct State { std::vector<Obj> objs; std::shared_ptr<void> keep; uint64_t mpos = 0; };
	Ctx& ctx;
	std::vector<uint8_t> bytes;
	std::string path, framedPath;
	std::unique_ptr<State> fresh()
	{
		auto st = std::make_unique<State>();
		auto keep = std::make_shared<MemKeep>();
		std::vector<uint8_t> framed = { 0xC0, 0xC1, 0xC2 }; framed.insert(framed.end(), bytes.begin(), bytes.end()); framed.push_back(0xC3); framed.push_back(0xC4);
		keep->p.reset(new uint8_t[framed.size()]); std::memcpy(keep->p.get(), framed.data(), framed.size());
		auto push = [&](std::unique_ptr<Stream::BidirectionalReader> r, std::function<std::string()> key) { Obj o; o.r = std::move(r); o.key = key; o.bytes = bytes; st->objs.push_back(std::move(o)); };
		{ auto r = std::make_unique<Stream::MemoryReader>(keep->p.get() + 3, bytes.size()); auto raw = r.get(); push(std::move(r), [raw] { return peek::key(*raw); }); }
		{ auto r = std::make_unique<Stream::FileReader>(path); auto raw = r.get(); push(std::move(r), [raw] { return peek::key(*raw); }); }
		{ Stream::MemoryReader whole(keep->p.get(), framed.size()); auto r = std::make_unique<Stream::MemoryReader>(whole.Slice(3, bytes.size())); auto raw = r.get(); push(std::move(r), [raw] { return peek::key(*raw); }); }
		{ Stream::FileReader fr(framedPath); auto r = std::make_unique<Stream::FileSliceReader>(fr.Slice(3, bytes.size())); auto raw = r.get(); push(std::move(r), [raw] { return peek::key(*raw); }); }
		{ Stream::FileReader fr(framedPath); auto outer = fr.Slice(1, bytes.size() + 3); auto r = std::make_unique<Stream::FileSliceReader>(outer.Slice(2, bytes.size())); auto raw = r.get(); push(std::move(r), [raw] { return peek::key(*raw); }); }
		st->keep = keep;
		return st;
	}
	std::unique_ptr<State> clone(const State&) { return nullptr; }
	std::string key(const State& s) { std::string k = std::to_string(s.mpos) + "|"; for (auto& o : s.objs) k += o.key() + ";"; return k; }
	std::string show(const Op& o)
	{
		static const char* n[] = { "Read", "ReadPartial", "Peek", "Seek", "SeekForward", "SeekBackward", "SeekBeginning", "SeekEnd", "ReadU16" };
		return std::string(n[o.kind]) + "(" + std::to_string(o.a) + ")";
	}
	std::vector<Op> enabled(const State& s)
	{
		std::vector<Op> v;
		uint64_t len = bytes.size(), rem = len - s.mpos;
		for (uint64_t k = 0; k <= rem; ++k) { v.push_back({ 0, k }); v.push_back({ 2, k }); v.push_back({ 4, k }); }
		for (uint64_t k : { 0ull, 1ull, (unsigned long long)rem, (unsigned long long)rem + 1, (unsigned long long)len + 5, 100ull }) v.push_back({ 1, k });   // ReadPartial: total by contract
		for (uint64_t p = 0; p <= len; ++p) v.push_back({ 3, p });
		for (uint64_t k = 0; k <= s.mpos; ++k) v.push_back({ 5, k });
		v.push_back({ 6, 0 }); v.push_back({ 7, 0 });
		if (rem >= 2) v.push_back({ 8, 0 });
		return v;
	}
	bool apply(State& s, const Op& op, bool check, const std::string& hist)
	{
		static const char* names[] = { "memory", "file", "slice-of-memory", "slice-of-file", "slice-of-slice" };
		uint64_t len = bytes.size(), rem = len - s.mpos;
		std::vector<std::string> obs;
		for (std::size_t i = 0; i < s.objs.size(); ++i) {
			auto& r = *s.objs[i].r;
			std::string ob;
			std::vector<uint8_t> buf(128, 0xEE);
			auto o = mc::guarded([&] {
				switch (op.kind) {
				case 0: r.Read(buf.data(), op.a); ob = "bytes=" + mc::hex(buf.data(), op.a); break;
				case 1: { std::size_t g = r.ReadPartial(buf.data(), op.a); ob = "n=" + std::to_string(g) + " bytes=" + mc::hex(buf.data(), g); break; }
				case 2: r.Peek(buf.data(), op.a); ob = "bytes=" + mc::hex(buf.data(), op.a); break;
				case 3: r.Seek(op.a); break;
				case 4: r.SeekForward(op.a); break;
				case 5: r.SeekBackward(op.a); break;
				case 6: r.SeekBeginning(); break;
				case 7: r.SeekEnd(); break;
				case 8: { uint16_t v; r.Read(v); ob = "u16=" + std::to_string(v); break; }
				}
				ob += " pos=" + std::to_string(r.Position()) + " len=" + std::to_string(r.Length());
			});
			if (o.cls != 'R') ob = "throws: " + std::string(1, o.cls);
			obs.push_back(ob);
		}
		// reference observation
		uint64_t np = s.mpos;
		std::string exp;
		switch (op.kind) {
		case 0: exp = "bytes=" + mc::hex(bytes.data() + s.mpos, op.a); np += op.a; break;
		case 1: { uint64_t g = op.a < rem ? op.a : rem; exp = "n=" + std::to_string(g) + " bytes=" + mc::hex(bytes.data() + s.mpos, g); np += g; break; }
		case 2: exp = "bytes=" + mc::hex(bytes.data() + s.mpos, op.a); break;
		case 3: np = op.a; break;
		case 4: np += op.a; break;
		case 5: np -= op.a; break;
		case 6: np = 0; break;
		case 7: np = len; break;
		case 8: exp = "u16=" + std::to_string(bytes[s.mpos] | (bytes[s.mpos + 1] << 8)); np += 2; break;
		}
		exp += " pos=" + std::to_string(np) + " len=" + std::to_string(len);
		s.mpos = np;
		if (check) {
			ctx.count("equivalence/edges");
			if (op.kind == 1 && op.a > rem) ctx.count("equivalence/partial-read-past-end");
			for (std::size_t i = 0; i < obs.size(); ++i) {
				if (obs[i] != exp) {
					ctx.violation(std::string("C13/equivalence/") + names[i] + "/" + show(op).substr(0, show(op).find('(')), hist, std::string(names[i]) + " observed [" + obs[i] + "] reference/other backends [" + exp + "]");
					return false;
				}
			}
		}
		return true;
	}
};

void equivCase(std::size_t which, Ctx& ctx)
{
	static const std::size_t lens[] = { 0, 1, 3, 5 };
	std::string dir = ctx.freshDir("c13c");
	// byte values with a special meaning somewhere below the streams: 0xFF (EOF as a char), 0x00, 0x1A (end of file in text mode), line ends
	std::vector<uint8_t> special = { 0xFF, 0x00, 0x1A, 0x0A, 0xFF, 0x0D, 0xFF, 0x7F, 0x80, 0xFF, 0x0A, 0x0D, 0x1A };
	special.resize(lens[which]);
	Equiv e{ ctx, special };
	e.path = dir + "/plain.bin"; e.framedPath = dir + "/framed.bin";
	mc::writeFile(e.path, e.bytes);
	std::vector<uint8_t> framed = { 0xC0, 0xC1, 0xC2 }; framed.insert(framed.end(), e.bytes.begin(), e.bytes.end()); framed.push_back(0xC3); framed.push_back(0xC4);
	mc::writeFile(e.framedPath, framed);
	auto r = mc::bfs(e, ctx, 5000, 100, "equiv-len" + std::to_string(lens[which]));
	ctx.trace(r.transitions);
	if (which == 2) ctx.sample("lock-step over {memory,file,slice-of-memory,slice-of-file,slice-of-slice} len 3: states=" + std::to_string(r.states) + " transitions=" + std::to_string(r.transitions));
	mc::removeTree(dir);
}

std::size_t kGrid = 12; const std::size_t kJoint = 6, kEquiv = 4, kLarge = 2;

void runCase(std::size_t i, Ctx& ctx)
{
	if (i < kGrid) gridCase(i, ctx);
	else if (i < kGrid + kJoint) jointCase(i - kGrid, ctx);
	else if (i < kGrid + kJoint + kEquiv) equivCase(i - kGrid - kJoint, ctx);
	else if (i == kGrid + kJoint + kEquiv) largeFileCase(ctx);
	else repetitionsCase(ctx);
	if (peek::usedFallback()) ctx.count("binding/fallback-keys");
}

} // namespace

int main(int argc, char** argv)
{
	mc::CheckDef def;
	def.id = "C13";
	def.init = [](Ctx& c) { gGridLens = c.thorough ? 7 : 4; kGrid = 3 * gGridLens; };
	def.ncases = [](Ctx&) { return kGrid + kJoint + kEquiv + kLarge; };
	def.run = runCase;
	def.describe = [](std::size_t i) { return i < kGrid ? "construction grid " + std::to_string(i) : i < kGrid + kJoint ? "interleaving " + std::to_string(i - kGrid) : i < kGrid + kJoint + kEquiv ? "equivalence " + std::to_string(i - kGrid - kJoint) : i == kGrid + kJoint + kEquiv ? std::string("file larger than 4 GiB") : std::string("many repetitions on one archive"); };
	def.caseTimeoutS = 600;
	def.fsizeLimit = std::size_t(5) << 30;   // the sparse file of 4 GiB + 64 bytes
	return mc::Main(argc, argv, def);
}
