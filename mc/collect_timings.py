#!/usr/bin/env python3
"""Collects the summary lines 'Cnn tier: states=.. transitions=.. outcomes=.. exhaustive=.. wall=..s' from build/*.log into mc/design_timings.json."""
import re, glob, json, os
VERIF = os.path.dirname(os.path.dirname(os.path.abspath(__file__)))
t = {}
pat = re.compile(r'^(C\d+) (quick|thorough): states=(\d+) transitions=(\d+) cases=\S+ outcomes=(\d+) new_violations=(\d+) known=\d+ exhaustive=(\w+) wall=([\d.]+)s')
for f in sorted(glob.glob(os.path.join(VERIF, 'build', '*.log')), key=os.path.getmtime):
    for l in open(f, errors='replace'):
        m = pat.match(l.strip())
        if m and m.group(6) == '0':
            t.setdefault(m.group(1), {})[m.group(2)] = {'states': int(m.group(3)), 'transitions': int(m.group(4)), 'outcomes': int(m.group(5)), 'exhaustive': m.group(7), 'wall_s': float(m.group(8))}
json.dump(t, open(os.path.join(VERIF, 'mc', 'design_timings.json'), 'w'), indent=1, sort_keys=True)
print(len(t), 'checks with timings')
