#!/usr/bin/env python3
"""Regenerates /verif/MANIFEST.json from mc/registry.py (one entry per claimed property)."""
import json, os, sys
VERIF = os.path.dirname(os.path.dirname(os.path.abspath(__file__)))
sys.path.insert(0, os.path.join(VERIF, 'mc'))
from registry import CHECKS, NOT_APPLICABLE

ids = [json.loads(l)['id'] for l in open(os.path.join(VERIF, 'properties.jsonl'))]
checks = []
for cid in ids:
    if cid not in CHECKS or not CHECKS[cid].get('claimed', True):
        continue
    s = CHECKS[cid]
    checks.append({
        'property_id': cid,
        'quick_cmd': './run_check.sh %s quick' % cid,
        'thorough_cmd': './run_check.sh %s thorough' % cid,
        'evidence_file': '/verif/evidence/%s.json' % cid,
        'replay_cmd_template': './run_check.sh %s --replay {path}' % cid,
        'engine': 'opmc',
        'level_claimed': {'category': 'model_checking', 'text': s['level_text'], 'design_ref': 'DESIGN.md section 3, ' + cid},
        'level_note': s['level_note'],
        'technique': s['technique'],
    })
na = [{'property_id': cid, 'reason': NOT_APPLICABLE.get(cid, 'check not built yet in this session; nothing is claimed for it')} for cid in ids
      if cid not in CHECKS or not CHECKS[cid].get('claimed', True)]
m = {
    'version': 1,
    'setup_cmd': 'make -C /verif setup',
    'hooks': {
        'guard': 'OP2UTILITY_VERIF',
        'enable': 'none needed: the harness reads private state with -fno-access-control and replaces operator new at link time; every TU is nevertheless compiled with -DOP2UTILITY_VERIF',
        'baseline_off_cmd': 'make -C /repo -j8 && make -C /repo check',
        'source_commits': [],
        'add_only': True,
    },
    'engines': [{'name': 'opmc', 'path': '/verif/mc', 'serves_properties': [c['property_id'] for c in checks],
                 'kind_free_text': 'hand-written explicit-state / small-scope exhaustive explorer running the real library code in crash-isolated forked workers under ASan+UBSan, lock-step with reference models in /verif/ref'}],
    'checks': checks,
    'not_applicable': na,
    'notes': 'All checks rebuild the library from /repo working tree (content hash). Known genuine defects: known_findings.json. See DESIGN.md.',
}
json.dump(m, open(os.path.join(VERIF, 'MANIFEST.json'), 'w'), indent=1)
print('claimed:', [c['property_id'] for c in checks], 'not claimed:', [n['property_id'] for n in na])
