"""Per-property registry: harness source, build configurations, bounds text for the evidence file."""

CHECKS = {
    'C12': dict(
        technique='explicit-state reachability (BFS to fixpoint) over the real reader objects in lock-step with a reference cursor',
        level_text='Every operation history of any length over a boundary-valued alphabet (about 380 operation instances per state: Read/ReadPartial/Peek/Seek*/typed values/pre-sized containers and strings of element width 1,2,3,4,8 (string, u16string, u32string, wstring, vectors)/size-prefixed containers for 6 prefix types x 6 container types/NUL-terminated string/Slice with arguments 0,1,rem-1,rem,rem+1,len,2^31,2^32,2^63,2^64-pos,2^64-1,...) is covered because the reachable product state graph (real reader state x reference position) is explored to a fixpoint for 10 sources x 5 backends; each edge compares returned bytes, counts, Position(), Length() and error/no error with the reference, under ASan+UBSan with exact-size destination buffers.',
        level_note='Trusts g++/libstdc++/ASan, tmpfs files, and the 60-line reference cursor in the harness. Values outside the boundary sets and sources longer than 10 bytes are not explored. Weaker reading: after a rejected size-prefixed or string read the cursor may be at the old position or past the prefix/scanned data.',
        src='checks/c12_readers.cpp',
        runs=[dict(cfg='asan')],
        rule='explicit-state BFS to a fixpoint over the product (real reader, reference cursor); a case = one (source, backend) pair; '
             'a state = reader private state + model position; every operation of the boundary-valued alphabet is applied in every reachable state',
        bounds={'quick': '10 sources (len 0..10) x 5 backends (memory, memory slice, file slice, slice of slice, slice-at-position); ~380 op instances per state; fixpoint; plus 5 sources of 140000 bytes headed by negative / large size prefixes, every operation once at positions 0,1,2 on all 5 backends',
                'thorough': 'adds every source of length <= 3 over the bytes {00,01,02,7F,80,FF} (259 sources) and two sources of 16 and 20 bytes, each on all 5 backends, fixpoint'},
        must_hit={'any': ['read/in-bounds', 'read/out-of-bounds', 'read/wraps-64-bit', 'readpartial/short', 'readpartial/full', 'peek/in-bounds',
                          'peek/out-of-bounds', 'seek/in-bounds', 'seek/out-of-bounds', 'typed/prefixed-ok', 'typed/prefixed-reject',
                          'typed/cstr-ok', 'typed/cstr-reject', 'typed/sized-ok', 'typed/sized-wide-ok', 'typed/sized-reject', 'typed/prefixed-on-long-source', 'slice/contained', 'slice/not-contained', 'slice/wraps-64-bit']},
        assumptions=['x86-64 little endian; harness reads private cursor fields via -fno-access-control for state keys only',
                     'argument values outside the boundary sets are not explored'],
    ),
}

CHECKS['C13'] = dict(
    src='checks/c13_slices.cpp',
    runs=[dict(cfg='asan')],
    technique='small-scope exhaustive construction grid + joint explicit-state BFS over several live readers + lock-step BFS across five backends',
    level_text='(a) every (start,length) boundary pair incl. 2^63, 2^64-1, 2^64-start at every parent position, both Slice forms, nested to depth 3, on memory readers, file readers and file slices: accepted iff contained (128-bit arithmetic), the slice exposes exactly its window, refusal leaves the parent untouched; (b) the joint state graph of parent + two overlapping slices + a copy + a nested slice under 7 operations each is explored to a fixpoint in memory and on files, and two member streams of a VolFile/ClmFile are interleaved with archive calls: every object must follow its own reference cursor; (c) all in-bounds histories (fixpoint) are driven in lock-step over memory, file, slice-of-memory, slice-of-file and slice-of-slice and must give identical bytes, positions and lengths.',
    level_note='Trusts g++/libstdc++/ASan and tmpfs. Parent lengths 0,1,4,6 (thorough also 2,3,8); all joint graphs incl. the file-backed ones reach their fixpoints (each transition replays its history on freshly opened files).',
    rule='case = one construction grid (backend x parent length), one joint system, or one lock-step system; states = distinct product states / accepted slices; transitions = operations executed and compared',
    bounds={'quick': 'grid: 3 backends x parent lengths {0,1,4,6} x all positions x ~12x11 (start,len) pairs x depth 3; joint: memory fixpoint, file/VOL/CLM fixpoint; equivalence: lengths {0,1,3,5} fixpoint',
            'thorough': 'construction grid on parent lengths {0,1,2,3,4,6,8}; joint and equivalence systems as quick (they are explored to their fixpoints at both tiers)'},
    must_hit={'any': ['grid/accepted', 'grid/refused-by-wrap', 'grid/refused-out-of-range', 'interleaving/edges', 'interleaving/archive-cases', 'equivalence/edges', 'equivalence/partial-read-past-end']},
    assumptions=['archives for the member-stream interleavings are produced by the library itself (their format is checked in C01-C03)'],
)

CHECKS['C14'] = dict(
    src='checks/c14_writers.cpp',
    runs=[dict(cfg='asan')],
    technique='explicit-state BFS to a fixpoint over (writer private state, buffer bytes, reference vector) plus small-scope exhaustive products for prefixes, stream copies and open flags',
    level_text='MemoryWriter: all histories of any length over Write/typed writes/Seek* with boundary arguments (0,1,rem-1,rem,rem+1,len,2^31,2^32,2^63,2^64-pos,2^64-1) on exact-size heap buffers of length 0,1,2,4 (quick) / 0..6 (thorough), explored to a fixpoint with position, length and the complete buffer compared to a reference vector after every edge (ASan catches any byte written outside). DynamicMemoryWriter: same with the content length capped. Size prefixes: every prefix type x sizes {0,1,2,max-1,max,max+1,max+2} x three container types, refusal iff too large, exact little-endian encoding, Read<S> is the inverse. Stream copy: full product of 8 chunk sizes x 21+ source lengths around every chunk boundary x start positions x 5 reader backends x 3 writer kinds. FileWriter: all 16 flag values x file exists/absent x directory exists/absent, disk content compared.',
    level_note='Trusts g++/libstdc++/ASan, tmpfs. Weaker readings: a refused size-prefixed write may already have emitted the prefix; for open modes with neither Truncate nor Append only the existence rules are asserted; directory creation as a side effect of a refused open is not judged.',
    rule='case = one BFS (buffer length) or one product family; states = distinct product states; transitions = writer operations executed and compared',
    bounds={'quick': 'MemoryWriter n in {0,1,2,4} fixpoint; DynamicMemoryWriter length cap 4 (with and without preallocation); copy chunk sizes {1,2,3,4,7,8,16,131072}',
            'thorough': 'MemoryWriter n in {0,..,6} fixpoint (n=6: about 2.4 M states, one case of about 10 min); DynamicMemoryWriter cap 6; rest as quick'},
    must_hit={'any': ['memwriter/write-fits', 'memwriter/write-wraps', 'memwriter/write-too-big', 'memwriter/seek-fits', 'memwriter/seek-refused', 'dynwriter/append', 'dynwriter/write-wraps',
                      'dynwriter/zero-fill', 'dynwriter/truncate', 'dynwriter/refusals', 'prefix/too-large-refused', 'prefix/fits', 'typed/inverse', 'copy/multi-chunk', 'copy/single-chunk',
                      'filewriter/invalid-flags', 'filewriter/existing-not-allowed', 'filewriter/new-not-allowed', 'filewriter/truncate-or-new', 'filewriter/append-existing']},
    assumptions=['allocation requests above 64 MiB are refused by the harness allocator (environment model)'],
)

CHECKS['C15'] = dict(
    src='checks/c15_huffman.cpp',
    runs=[dict(cfg='asan')],
    technique='explicit-state BFS over all update histories (depth-bounded) on small trees + exhaustive capacity-tail enumeration, lock-step with an independent pointer-based reference tree',
    level_text='For 2..6 symbols (thorough: 2..8) every update history up to a depth bound per tree size (quick 12,12,12,11,9 for 2..6 symbols; thorough 40,24,18,14,12,9,8 for 2..8) is explored with full-state deduplication, together with every out-of-range update/accessor/encoder call in every state. In every state the tree walked through the public accessors must be a full binary prefix code over exactly its symbols, equal in shape to ref_huff run on the same history, and the encoder bit string of every symbol (LSB first) must drive the decoder walk from the root to that symbol in exactly bitCount steps; refused calls must leave the tree unchanged. On 314 symbols eight deterministic adversarial schedules (single symbol, round robin, sawtooth, reverse, ping-pong, skewed, stride, last) are checked after every update up to 20000 (thorough: all 65221) updates, and from 3 updates short of capacity all continuations of depth 5 over 5-6 representative symbols are enumerated: the first 3 succeed, every later one is refused without change (also for 2 and 3 symbols).',
    level_note='Trusts ref_huff (150 lines, self-checked list invariants) and g++/ASan/UBSan. Deciding clauses use only public accessors; private arrays are used for state keys and diagnostics. Pseudo-random long histories are sampling and are not claimed.',
    rule='state = (three private arrays, reference tree with weights); transition = one UpdateCodeCount or one invalid call, followed by the full oracle',
    bounds={'quick': 'n=2..6 depth 12/12/12/11/9; 314 symbols: 8 schedules x 20000 updates (encoder checked every 16th); capacity tail for n in {314 (3 schedules), 2, 3}',
            'thorough': 'n=2..8 depth 40/24/18/14/12/9/8; 314 symbols: 8 schedules x 65221 updates, encoder after every update'},
    must_hit={'any': ['small/updates', 'small/invalid-operations', 'long/histories', 'capacity/last-updates-within-capacity', 'capacity/updates-beyond-capacity']},
    assumptions=['capacity = 65535 - symbols updates (the 16-bit root count n + updates must stay representable)'],
)

CHECKS['C04'] = dict(
    src='checks/c04_lzh.cpp',
    runs=[dict(cfg='asan', env={'VERIF_PART': 'main'}), dict(cfg='plain', env={'VERIF_PART': 'len3'}, tiers=('thorough',))],
    technique='small-scope exhaustive input/token enumeration + explicit-state BFS (full-state hash) over all drain schedules of the real decoder, against an independent LZHUF reference codec',
    level_text='Every byte string of length 0..2 (thorough: also all 16.7 M of length 3) and every token sequence of depth <= 3 (thorough 4) over 4 literals and 28 matches (lengths 3,4,59,60 x distances 1,2,63,64,65,4095,4096), plus the full grid of every match length 3..60 x every distance 1..4096, is decoded by the real HuffLZ and compared byte for byte with ref_lzh (the token payload must be a prefix and fewer than eight padding codes may follow). Every leading part (byte granularity) of the six drain streams and of every token-sequence encoding of up to three tokens is an input as well, so final codes cut anywhere inside their Huffman path or offset field are compared with the reference (missing bits read as zero). For six fixed streams the graph of ALL drain schedules over GetData(k) / GetInternalBuffer is explored to a fixpoint with full decoder-state hashing: every edge must deliver exactly the next reference bytes and report 0 only at the end; the same search runs on all 256 one-byte inputs and 768 two-byte inputs with an 11-operation alphabet. Streams beyond the 65221-code capacity must end in an error with only a reference prefix delivered, for three stream kinds x three drain modes, and all 121 continuations of depth <= 4 across the capacity boundary are enumerated. LZH members of a reference-encoded volume must extract to the reference bytes.',
    level_note='Trusts ref_lzh/ref_huff (about 300 lines, cross-checked by encode->decode->expand self-consistency on every token sequence), g++/ASan/UBSan. Inputs outside the enumerated sets (long random strings) are represented only by the six drain streams. The empty input is checked for safety, termination and drain independence only.',
    rule='case = one enumeration chunk or one drain-schedule BFS; states = inputs/token sequences/decoder states; transitions = decodes or drain calls compared with the reference',
    bounds={'quick': 'inputs len 0..2; token depth 3; match grid 58x4096; leading parts of 6 streams (about 9 k inputs) and of all token sequences; drain BFS: 6 streams with the 4-op alphabet {GetData(1),GetData(62),GetData(4096),GetInternalBuffer} (stream 0: 15 ops); capacity 3x3 + 121 tails',
            'thorough': 'adds all 3-byte inputs (plain -O2 build), token depth 4, 15-op drain alphabet {0,1,2,61,62,63,100,4033,4034,4035,4095,4096,4097,5000,IB} on all six streams'},
    must_hit={'any': ['short/with-match', 'short/literals-only', 'tokens/with-padding-codes', 'tokens/exact-end', 'grid/lengths', 'drain/data-returns', 'drain/zero-returns',
                      'drain/internal-buffer-calls', 'drain/short-input-graphs', 'leading/parts', 'tokens/leading-parts', 'capacity/over-long-streams', 'capacity/tail-over', 'capacity/tail-within', 'volume/members-extracted', 'volume/over-capacity-member']},
    assumptions=['capacity: 65221 codes (16-bit counters, 314 symbols)'],
)

_VOL_NOTE = 'Trusts ref_vol (strict decoder + encoder, cross-checked against each other on every emitted archive), g++/ASan/UBSan, tmpfs. Names are drawn from an 11-name alphabet (both cases, digits, _ - ., prefixes of each other, every residue of the name-table length mod 4), sizes from {0,1,2,3,4,5,7,8} and six sizes around the 128 KiB copy chunk; sets of 5+ files are represented only by one 40-file set.'
CHECKS['C01'] = dict(
    src='checks/c01_c02_vol.cpp', defs=['-DVOL_CHECK=1'],
    runs=[dict(cfg='asan')],
    technique='small-scope exhaustive enumeration of file sets (built by add-file transitions) x every list order x path spellings, executed on the real packer/reader',
    level_text='Every file set with k<=2 files over 11 names x 8 sizes (full product), k=3 over all 165 name triples with <=2 sizes off default, k=4 over an 8-name core with <=1 size off default (thorough: k<=3 full product, k=4 with <=2 sizes off default), plus sets around the 128 KiB copy chunk and a 40-file set, is created on tmpfs in three directories and packed with VolFile::CreateArchive in every list order (k<=3: all k!) and four path spellings. The reopened archive must list exactly the inputs in ascending case-insensitive order with exact sizes and the uncompressed kind, stream and extract (all three extraction paths) the exact bytes, and find every member under upper, lower and swapped case. Sets with names equal ignoring case, and outputs that name an input up to case and a leading ./, must be refused with every pre-existing file byte-identical afterwards (directory tree re-hashed).',
    level_note=_VOL_NOTE + ' Case-insensitive order is read in the strcasecmp/_stricmp sense (characters folded to lower case), the order a consumer\'s binary search uses and the one C03 already demands for CLM; an order ascending only under upper-case folding (differs for _ against letters) is a violation (seeded change S02b).',
    rule='state = one file set (names, sizes, directories, spellings); transitions = CreateArchive calls and member interrogations',
    bounds={'quick': 'k<=2 full; k=3: 165 name triples x 169 size vectors; k=4: 70 core quadruples x 29; big sizes; 40-file set; 14 refusal scenarios',
            'thorough': 'k<=3 full product (84480 triples), k=4 deviation<=2 (106590), big-size pairs and mixes'},
    must_hit={'any': ['interrogations', 'orders/identical-archives', 'refusal/duplicate-names-ignoring-case', 'refusal/output-is-an-input', 'refusal/output-is-an-input-up-to-case', 'refusal/output-is-an-input-in-subdirectory']},
    assumptions=['case-insensitive = ASCII folding'],
)
CHECKS['C02'] = dict(
    src='checks/c01_c02_vol.cpp', defs=['-DVOL_CHECK=2'],
    runs=[dict(cfg='asan')],
    technique='small-scope exhaustive enumeration: every archive written for the C01 file sets is decoded by a strict independent VOL decoder; reference-encoded conforming archives (deviation-bounded layout product) are opened by the real reader',
    level_text='(a) every archive the library writes for the C01 state space (all list orders) is parsed by the strict ref_vol decoder: tags, padding flags, lengths tiling the header exactly, name table = NUL-terminated names in index order at the recorded offsets with zero padding, every entry pointing at a 4-aligned contiguous block whose VBLK tag and length match, zero padded, last block ending at EOF, and a reference case-insensitive binary search finding every member; payloads must equal the inputs. (b) the ref_vol encoder emits conforming archives over member count 0..3, 10 names, 5 payload sizes, 0..2 unused trailing slots (zero or garbage filled), extra name-table padding, and per-member kind stored/LZH/RLE/LZ, with at most 2 (thorough 3) dimensions off default: VolFile must report the same count, names, sizes, kinds and stored payloads, extract stored and LZH members to the right bytes and refuse RLE/LZ.',
    level_note=_VOL_NOTE,
    rule='state = one written or reference-encoded archive; transitions = strict decodes / reader queries',
    bounds={'quick': 'C01 quick file sets; conforming archives: deviation<=2 over 7 layout dimensions', 'thorough': 'C01 thorough file sets; deviation<=3'},
    must_hit={'any': ['written/strict-decodes', 'conforming/stored-members', 'conforming/lzh-members', 'conforming/unsupported-kind-members', 'conforming/with-unused-slots', 'conforming/with-extra-name-padding']},
    assumptions=['index size field of an LZH member = decoded length; VBLK length = stored length'],
)

CHECKS['C03'] = dict(
    src='checks/c03_clm.cpp',
    runs=[dict(cfg='asan')],
    technique='small-scope exhaustive enumeration of WAV sets x every list order on the real packer/reader, against an independent RIFF builder/parser and CLM layout decoder',
    level_text='Every single WAV over 7 base names x 6 data lengths x all 16 chunk layouts (extra chunk before fmt / between fmt and data / after data, fmt size 16 or 18), every pair over 21 name pairs x 6x6 lengths x 8x8 layouts (thorough 16x16), every name triple with 4 (thorough 24) variants per member, lengths around the 128 KiB copy chunk and a 12-track set, in three common formats, two extension spellings and three directories, is packed with ClmFile::CreateArchive in every list order. The raw CLM bytes must decode under the independent layout description (version string, common format with cbSize 0, constant bytes, count, zero-padded names in case-insensitive order, offsets contiguous from 60+16k, file ends with the last data), the reopened archive must list, size, stream and extract exactly each data chunk, and every extracted file must parse as a self-consistent canonical WAV with the common format. Twelve families of invalid inputs (bad tags, RIFF size mismatch, any differing format field, 9-character names, duplicate names ignoring case, data length beyond the file, non-WAV bytes, missing input) must be refused in both list orders.',
    level_note='Trusts ref_wav and the 40-line CLM decoder in the harness, g++/ASan/UBSan, tmpfs. Odd-length data followed by another chunk gets the RIFF pad byte. Sets of 4+ tracks are represented by one 12-track set only.',
    rule='state = one WAV set; transitions = CreateArchive calls and member interrogations',
    bounds={'quick': 'k=1 full (672); k=2: 21 pairs x 36 lengths x 64 layouts; k=3: 35 triples x 64 variants; big lengths; 12-track set; 12 refusal families',
            'thorough': 'k=2: 21 pairs x 36 x 256; k=3: 35 triples x 13824 variants'},
    must_hit={'any': ['interrogations', 'orders/identical-archives', 'layout/chunk-after-data', 'layout/chunk-before-fmt', 'layout/chunk-between', 'layout/fmt-16',
                      'refusal/bad-riff-tag', 'refusal/riff-size-mismatch', 'refusal/format-mismatch', 'refusal/name-too-long', 'refusal/duplicate-names-ignoring-case', 'refusal/data-length-beyond-file']},
    assumptions=['base names are letters, digits and underscores (as the property states)'],
)

CHECKS['C05'] = dict(
    src='checks/c05_archive_faults.cpp',
    runs=[dict(cfg='asan')],
    technique='deviation-bounded fault enumeration over reference-encoded archives + explicit-state reachability over all call sequences of each opened archive (differential against a fresh object)',
    level_text='Seeds: seven reference VOL archives (0-4 members, long and mixed-case names, an LZH member, unused slots), four reference CLM archives (incl. 8-character names) and four WAV layouts. Level 1: every proper prefix, every integer field x ~45 boundary values (0,1,x+-1,x+-14,13..15,27..29,2^31,2^32-9..2^32-1,file size relatives, with and without the padding-flag bit) and every byte x 4 substitutions; level 2 (thorough): every pair of fields x 10x10 values; coordinated corruptions: index length = 14k+r with enclosing lengths consistent (blocks shifted or not), more valid entries than names, merged names, missing final NUL, block offsets into the header/at EOF-8/EOF-7/EOF, VBLK length != index size, CLM counts running into the data, CLM extents ending at/after EOF. Every file is opened by VolFile/ClmFile under ASan+UBSan (vector annotations on); for every file that opens, the reachable states of the shared file reader (position, stream flags) under the full call alphabet (GetCount, GetName/GetSize/GetCompressionCode/OpenStream+drain/ExtractFile by every index in {0,1,2,count-1,count,count+1,SIZE_MAX}, GetIndex/Contains/ExtractFile/OpenStream by every member name, an absent and an empty name) are explored to a fixpoint and every call in every state must give the observation of the same call on a freshly opened archive; returned member streams must have a recorded length, lie inside the file and deliver exactly those file bytes. Mutated WAVs are offered to ClmFile::CreateArchive alone and next to a valid WAV in both orders: error or an archive that reopens, within the watchdog.',
    level_note='Trusts ref_vol/ref_clm/ref_wav encoders, g++/ASan/UBSan. Coverage-guided mutation is sampling and is not used. Allocation requests above 64 MiB are answered with bad_alloc by the harness allocator. Either recorded member length (VBLK length or index size) is accepted for a stream.',
    rule='case = 150 mutants of one seed; states = opened archives + reader states expanded; transitions = constructor calls and archive calls compared',
    bounds={'quick': 'level 1 + coordinated corruptions on 15 seeds', 'thorough': 'adds level 2 (all field pairs x 10x10 values)'},
    must_hit={'any': ['open/refused', 'open/accepted', 'calls/returned', 'calls/ordinary-error', 'extent/streams-verified', 'sequences/states-expanded', 'faults/prefixes', 'faults/single-field-or-byte', 'faults/coordinated', 'wav/archive-produced', 'wav/refused']},
    assumptions=['an archive object is judged against a freshly opened object on the same bytes: behaviour common to both is judged by clauses 1 and 3 only'],
)

CHECKS['C06'] = dict(
    src='checks/c06_map_roundtrip.cpp',
    runs=[dict(cfg='asan')],
    technique='small-scope exhaustive enumeration of well-formed maps (reference serializer) + explicit-state BFS over public edit histories in lock-step with a reference map',
    level_text='Well-formed maps are generated by the independent ref_map serializer over 12 dimensions (log-width 0,1,2,5,6,10; height 0..3; tile bits; saved-game word 0,1,2,0x100,2^32-1; version tags incl. 2^31-1 and 2^32-1; clip rectangles incl. INT_MIN/INT_MAX; 9 tileset-source patterns with empty and non-empty names (empty slots in front, in between and at the end); 0..2 mappings and terrain types; 7 tile-group patterns incl. zero-area groups; undocumented word; trailing bytes): quick = base + all single and pair deviations (751 maps), thorough = full product of the six structural dimensions x data dimensions with <=2 deviations (1.87 M maps). For each: ReadMap accepts, every field equals the reference, Write equals the predicted bytes (consumed bytes with the flag normalised to 0/1, undocumented word regenerated, trailing dropped), re-read is equal in every field (public and private), second Write is byte-identical; the file-name overloads of ReadMap/Write give the same map and the same bytes. Edit histories: from six seeds (32x2, 64x2, with/without empty tileset sources, an empty source in front of three used ones, empty sources in between) every history up to depth 3 (thorough 4) over SetCellType (4 values x 5-6 positions incl. the 32-column block boundary), SetLavaPossible, SetVersionTag (incl. a tag below the minimum) and TrimTilesetSources: after every edit the serialised map must equal the reference map with the same edit applied, and re-read must succeed iff the tag is >= 0x1010.',
    level_note='Trusts ref_map (120 lines) and g++/ASan/UBSan. Un-normalised variants (flag 2, foreign undocumented word) may be rejected by the reader without a violation (counted). Tile groups whose width*height overflows 32 bits and maps beyond 1024x3 are not enumerated.',
    rule='state = one well-formed map / one (map, reference) product state; transitions = read/write calls and edits compared',
    bounds={'quick': '751 maps (deviation<=2 over 12 dimensions); edit depth 3 on 6 seeds', 'thorough': '1.87 M maps; edit depth 4'},
    must_hit={'any': ['accept/writer-form', 'accept/with-trailing-bytes', 'shape/width-1', 'shape/height-0', 'shape/zero-area-group', 'shape/empty-source-name', 'edit/edges', 'edit/low-version-tag-written', 'file-overloads/round-trips']},
    assumptions=['TrimTilesetSources removes sources with an empty name or zero tiles (as the test suite documents)'],
)

CHECKS['C07'] = dict(
    src='checks/c07_map_faults.cpp',
    runs=[dict(cfg='asan')],
    technique='deviation-bounded fault enumeration over reference-encoded maps and saved games (every prefix, field x boundary value, byte substitutions, field pairs, a full log-width x height grid) executed on the real readers under ASan+UBSan',
    level_text='Seeds: five reference maps (1x0 with empty tables, 32x2, 64x3 with all tables populated, trailing bytes, five tileset sources) and three reference saved games (with/without units and free list). Every proper prefix of every seed (thorough; quick: all maps and one 370 KB saved game) is presented through a MemoryReader whose tail is ASan-poisoned: prefixes cutting the consumed portion must be rejected, prefixes cutting only trailing bytes accepted. Every header/count/length field x ~45 boundary values, byte substitutions in the parsed regions, all field pairs x 10x10 values (thorough), and the full grid of 48 log-width values (0..40, 63..65, 2^31, 2^32-1, ...) x 40 heights (all 2^k, 0, 3, 2^32-1, ...) on a map and a saved game: the reader must fail with an ordinary error or return a map whose tile array has exactly width x height entries (64-bit product) with width a power of two, without sanitizer report (over-wide shifts are UBSan reports) and within the watchdog. Wrap-consistent files: for every (log-width, height) of a 47 x 102 grid whose product does not fit 32 bits, files holding exactly as many tile words as each wrapped product says (64-bit shift truncated, 32-bit shift with masked count, the height itself, zero) are built for the map and the saved-game reader and must be refused; saved games whose unit table really has records of the size the sizeOfUnit field names (15 sizes incl. 121..152, x unit count 0/1/3 x free list, followed by 96 KiB of data) must end in an ordinary error or a map. For each of the 751 maps of the C06 quick set the saved game embedding it must yield the same dimensions, tiles, clip rectangle, tileset sources, mappings and terrain types as the map file.',
    level_note='Trusts ref_map, g++/ASan/UBSan. Allocation requests above 64 MiB are answered with bad_alloc by the harness allocator, so corrupted counts end in an ordinary error. Coverage-guided mutation is not used.',
    rule='case = a block of prefixes / mutants / grid points; states = inputs parsed; transitions = reader calls judged',
    bounds={'quick': 'prefix sweep on 5 maps + 1 saved game; level-1 faults on 8 seeds; 2 grids of 48x40; 2 wrap-consistent grids; 180 unit-record-size files; 751 equivalence pairs', 'thorough': 'prefix sweep on all 8 seeds; level 2 field pairs'},
    must_hit={'any': ['prefix/cuts-consumed-portion', 'prefix/only-trailing-bytes-cut', 'fault/accepted', 'fault/refused', 'grid/over-wide-shift', 'grid/product-exceeds-32-bits', 'grid/representable', 'grid/wrap-consistent-files', 'units/record-size-files', 'units/refused', 'equivalence/pairs']},
    assumptions=['the extent consumed by the reader is the reference encoder\'s length without trailing bytes'],
)

CHECKS['C16'] = dict(
    src='checks/c16_map_tiles.cpp',
    runs=[dict(cfg='asan')],
    technique='exhaustive enumeration of all map widths x all heights 1..256 x all coordinates, all field values, executed on the real Map accessors',
    level_text='All 1536 maps of width 2^5..2^10 and height 1..256 are read from reference-encoded bytes; for every one of the 6.6e7 in-range coordinates the tile index equals ((x>>5)*H+y)*32+(x&31), the indices cover the tile array exactly once (bitmap), and GetCellType, GetLavaPossible, GetTileMappingIndex, GetTilesetIndex and GetImageIndex return the corresponding bit fields of the addressed word / the fields of the mapping entry it refers to (2048 distinct entries); reported width, height and tile count equal the header. On small maps (quick <= 32x4, thorough <= 64x8 and 128x2) every setter call on every coordinate is followed by a diff of the whole tile array against a shadow copy: exactly the addressed word changes, exactly in the named field; larger maps diff the word and its +-1, +-32, +-32H neighbours. All 32 cell types are set-then-get faithful and visible in bits 0..4 with the other 27 bits at four patterns; nine out-of-range values (32, 33, 255, -1, INT_MIN, INT_MAX, ...) are refused without change; both lava states; all 2048 mapping indices with the other bits at 0 and ~0.',
    level_note='Trusts ref_map and g++/ASan/UBSan. The private index function is compared directly (clause 1) and, independently, through the public getters (clause 2).',
    rule='state = one map; transitions = accessor calls judged',
    bounds={'quick': 'all 1536 maps x all coordinates; full-array diffs on 32x1..32x4; neighbour diffs on 6 larger maps', 'thorough': 'full-array diffs on 32x1..8, 64x1..8, 128x1..2'},
    must_hit={'any': ['addressing/maps', 'setters/full-array-diff-maps', 'setters/neighbour-diff-maps', 'values/cell-types', 'values/out-of-range-cell-types', 'values/lava-states', 'values/mapping-indices']},
    assumptions=[],
)

CHECKS['C08'] = dict(
    src='checks/c08_bitmap.cpp',
    runs=[dict(cfg='asan')],
    technique='small-scope exhaustive enumeration of accepted bitmap files (independent encoder) and factory parameter triples, executed on the real reader/writer',
    level_text='For depth 1, 4, 8 x every width 0..66 (every residue of row bits mod 32 for every depth; thorough: every width 0..130 plus 255..257, 1023..1025, 4095, 4097) x every height -3..3 (thorough also +-4, 5, 8, 9, 31, 32, 33) x four palette forms (full, 1 entry, 2^d-1, 2^d used colours) x important-colour count 0/1, with non-zero bytes in the file row padding: ReadIndexed accepts, Validate passes, width >= 0, pixel size = pitch x |height| with the pitch computed independently, palette <= 2^d entries; the written file parses under the strict ref_bmp decoder with zero row padding and consistent headers; write -> read preserves width, signed height, depth, every palette entry that was read and every pixel byte inside the meaningful row width; InvertScanLines reverses the rows and negates the height and twice restores the original. The factory functions (three overloads) round-trip to an equal object on the same (depth, width, height) grid; unsupported depths are refused. Headers with negative width whose size cross-check holds modulo 2^64 must not be accepted, and headers whose row bit count width x depth is >= 2^32 carrying exactly the pixel bytes a 32-bit pitch computation asks for must not come back with the wrong row length.',
    level_note='Trusts ref_bmp (100 lines), g++/ASan/UBSan. Weaker reading: after a round trip a partial palette may have grown to full length as long as the entries that were read are unchanged.',
    rule='state = one accepted file or factory triple; transitions = read/write/flip calls judged',
    bounds={'quick': '3 depths x 67 widths x 7 heights x 4 palette forms x 2; factory 3 x 67 x 7 x 3 overloads', 'thorough': '139 widths x 21 heights'},
    must_hit={'any': ['accepted/full-palette', 'accepted/partial-palette', 'accepted/top-down', 'accepted/empty-image', 'file-overloads/round-trips', 'factory/round-trips', 'factory/unsupported-depths', 'negative-width/wrap-consistent-headers', 'wide-rows/wrap-consistent-headers']},
    assumptions=[],
)

CHECKS['C09'] = dict(
    src='checks/c09_tileset.cpp',
    runs=[dict(cfg='asan')],
    technique='small-scope exhaustive product of tileset pictures x orientation x storage format and all single-byte signature variants, executed on the real loader/saver against an independent format encoder',
    level_text='Every picture over heights {0,32,64,96,2016,2048,2080} (thorough +128, 4096, 65536, 131104) x three palettes (all entries distinct with red != blue, all zero, wrapping) x two pixel fills x both scan-line orientations is saved with WriteCustomTileset and with WriteIndexed: the custom bytes must equal the independent ref_tileset encoding (tags, lengths, tag counts, width 32, depth 8, flags 8, PPAL 1048 / head 4 / data 1024, blue-green-red palette order, rows top-down) and be identical for both orientations; ReadTileset of the custom bytes returns the picture top-down with identical colours and ReadTileset of the standard bitmap shows the same visual rows and colours. PeekIsCustomTileset is probed with each of the 4 signature bytes x all 256 values, BM-led streams, streams of length 0..3, tags at positions 0, 1 and 5, memory- and file-backed: the answer must be tag == PBMP and Position() must be unchanged, also when the probe throws on a short stream. 14 violating pictures (depth 1/4, widths 0/31/33/64/16, heights +-1, +-31, +-33, 48) are refused by WriteCustomTileset, ValidateTileset and by ReadTileset of their standard form; 11 custom files with violating header fields are refused.',
    level_note='The outer PBMP length (1068 + 32h) is pinned to the tree, not independently known: for that field the check is a drift detector only. Palettes have 256 entries (partial palettes are not judged).',
    rule='state = one picture/orientation or one probe; transitions = save/load/peek calls judged',
    bounds={'quick': '7 heights x 3 palettes x 2 fills x 2 orientations x 2 storages; 1024+ signature probes; 53 refusal probes', 'thorough': '11 heights up to 131104 rows'},
    must_hit={'any': ['pictures/top-down', 'pictures/bottom-up', 'detector/custom', 'detector/not-custom', 'detector/short-streams', 'refusals/attempts']},
    assumptions=[],
)

CHECKS['C10'] = dict(
    src='checks/c10_prt.cpp',
    runs=[dict(cfg='asan')],
    technique='small-scope deviation-bounded enumeration of well-formed PRT files (independent encoder) on the real reader/writer, writer-refusal enumeration, single-field fault enumeration',
    level_text='Well-formed PRT byte strings are produced by the independent ref_prt encoder over 12 dimensions (0..2 palettes, 0..2 images with widths 0,1,3,4,5 and type bits 0/shadow/all, 0..2 animations, 0..2 frames with all four combinations of the two optional-data flags, layer counts 0,1,2,127, optional byte values, 0..2 unknown-container records, unknown total, canonical and two non-canonical-but-accepted palette header spellings) with at most 3 (thorough 5) dimensions off default. For each: Read accepts; every field equals the reference incl. palettes r,g,b in memory where the file has b,g,r; the cross-field rules hold under independent 64-bit evaluation; Write reproduces the input bytes when the palette headers are canonical and the canonical re-encoding otherwise; a deep dump of the object is identical before and after Write; Read(Write(x)) deep-equals x and a second Write is byte-identical. 60+ in-memory structures violating a rule (palette index out of range, scan line != rounded width incl. widths >= 2^32-3, layer list != 7-bit count incl. list lengths equal to the count modulo 128) must make Write throw without altering the object. Every proper prefix and every integer field x ~45 boundary values of four seed files (one and two animations, no animations - where the header totals are the last bytes of the file -, and the empty file) is either rejected or yields a result that satisfies the rules and, when the palette section headers are untouched, is reproduced byte for byte by Write (the object does not keep the header totals, so this is how "totals equal the contents" is decided).',
    level_note='Trusts ref_prt (100 lines) and g++/ASan/UBSan. Structures with more than 2 palettes/images/animations/frames are not enumerated.',
    rule='state = one well-formed file / one violating structure / one corrupted file; transitions = Read/Write calls judged',
    bounds={'quick': 'deviation<=3 over 12 dimensions; 70 writer refusals; level-1 faults on 4 seeds', 'thorough': 'deviation<=5'},
    must_hit={'any': ['roundtrip/canonical-input-reproduced', 'roundtrip/non-canonical-headers-canonicalised', 'frames/both-optional-flags', 'frames/one-optional-flag', 'frames/no-optional-flag', 'frames/127-layers', 'frames/0-layers', 'file-overloads/round-trips', 'writer-refusals/attempts', 'corruption/rejected', 'corruption/accepted', 'corruption/accepted-and-reproduced']},
    assumptions=[],
)

CHECKS['C11'] = dict(
    src='checks/c11_loader_faults.cpp',
    runs=[dict(cfg='asan')],
    technique='deviation-bounded fault enumeration over reference-encoded bitmaps, tilesets and PRT files plus arithmetically constructed wrap-consistent headers; explicit-state exploration of follow-up operations on every accepted object',
    level_text='Seeds: indexed bitmaps of depth 1, 4 (partial palette, top-down) and 8, a tileset stored as standard bitmap, a custom tileset 32x64, a PRT file with 2 palettes, 3 images (one shadow image) and 2 animations, a PRT file without animations and the empty PRT file. Every proper prefix, every integer field x ~45 boundary values, byte substitutions in the header regions, and (thorough) all field pairs x 10x10 values are loaded through BitmapFile::ReadIndexed, Tileset::ReadTileset and ArtFile::Read under ASan+UBSan; in addition headers are constructed arithmetically (no solver) whose size cross-check holds modulo 2^64 or 2^32: bitmap width in {0,-1,-2,-3,-4,-8,-31,-32,INT_MIN,INT_MIN+1,INT_MAX,2^28} x 18 heights incl. INT_MIN, with the 64-bit and the int-abs variant of |height|; bitmap headers with power-of-two pitch 2^p and height 2^(32-p)+j whose product matches the pixel size only modulo 2^32; custom tileset height fields >= 2^31 with the pixel length 32*h mod 2^32 and odd depth fields; PRT images of width 2^32-3..2^32-1 with scan line 0 and extreme heights. Every proper prefix must be refused. For every accepted bitmap all follow-up operations (Validate, WriteIndexed to memory and to a file, WriteCustomTileset, InvertScanLines, SwapRedAndBlue, AbsoluteHeight, GetScanLineOrientation) are applied in every reachable flip/swap state (fixpoint); for every accepted PRT, Write and SpriteLoader::ExtractImage for every index in 0..count+1 and SIZE_MAX against three pixel files (empty, short, large enough): every call must return or throw a std::exception, out-of-range sprite indices must be refused.',
    level_note='Trusts the reference encoders and g++/ASan/UBSan (gcc UBSan reports abs(INT_MIN)); allocation requests above 64 MiB are answered with bad_alloc. Coverage-guided mutation and solver-chosen combinations are replaced by the arithmetic enumeration above.',
    rule='case = a block of mutants of one seed; states = accepted objects and their flip/swap states; transitions = loader calls and follow-up operations',
    bounds={'quick': 'level 1 on 8 seeds + about 500 constructed headers', 'thorough': 'adds level 2 field pairs'},
    must_hit={'any': ['load/refused', 'load/accepted', 'followup/returned', 'followup/ordinary-error', 'followup/sprite-index-out-of-range', 'followup/sprite-extracted', 'followup/sprite-refused', 'constructed/wrap-consistent-headers', 'seeds/unmodified']},
    assumptions=[],
)

CHECKS['C19'] = dict(
    src='checks/c19_laws.cpp',
    runs=[dict(cfg='asan', env={'VERIF_PART': 'small'}), dict(cfg='plain', env={'VERIF_PART': 'bits'}), dict(cfg='plain', env={'VERIF_PART': 'big'})],
    technique='exhaustive enumeration of all strings up to a length bound: relation bit-matrices over all pairs, algebraic laws over all triples by row operations; exhaustive sweep of all 2^32 integers',
    level_text='For all 4681 strings of length <= 4 (thorough: all 37449 of length <= 5; length <= 3 additionally under ASan+UBSan) over {a,A,b,B,_,.,/,0} the relations IsEqualCaseInsensitive (comes-before), IsEqual and PathsAreEqual are evaluated on ALL pairs and the laws are decided on ALL triples through bit-matrix row operations: the comparator is irreflexive, asymmetric, transitive, its incomparability is transitive and coincides with IsEqual; PathsAreEqual is reflexive, symmetric, transitive, contains IsEqual, and ignores a leading ./ for every relative path of plain components. On the same set: GetFilename(Append(d,f)) == f for every relative d and plain f; Append(GetDirectory(p),GetFilename(p)) equals p for every p where the functions are defined; ChangeFileExtension(f,e) matches e in 6 spellings for 6 extensions. Bytes >= 0x80: all single-byte strings (thorough: plus 19 boundary bytes to length 3) under the same ordering laws. Every list of up to 4 (thorough 5) names over a 10-name pool (all orders, repetitions) is sorted with the file-name comparator of the library and offered to the duplicate check of the archive writers: refusal iff two names are equal ignoring case wherever the pair ends up, and every order of a duplicate-free list sorts to the same sequence. IsPowerOf2 is compared with popcount == 1 for all 2^32 values, Log2OfPowerOf2 for all 32 powers.',
    level_note='Pure functions: the exhaustive pair/triple enumeration is the whole claim; strings longer than 4 and random long strings (sampling) are not covered. The 2^32 sweep and the length-4 matrices run in the plain -O2 build, length <= 3 under ASan+UBSan.',
    rule='states = strings / integers enumerated; transitions = relation evaluations and row comparisons',
    bounds={'quick': '4681 strings (2.2e7 pairs, 1e11 triples), 255 single bytes, 7240 boundary-byte strings; all 2^32 integers', 'thorough': '37449 strings (1.4e9 pairs, 5e13 triples) for the ordering and path-equality laws; path laws on 4681 strings'},
    must_hit={'any': ['order/pairs', 'order/triples', 'path-equality/pairs', 'path-equality/triples', 'path-equality/dot-slash-prefix', 'path/join-filename', 'path/split-rejoin-relative', 'path/split-rejoin-rooted', 'path/extension-names', 'bits/values', 'bits/logarithms', 'duplicates/lists-with-a-duplicate', 'duplicates/duplicate-free-lists']},
    assumptions=['"plain component" = non-empty, not . or .., no slash'],
)

CHECKS['C17'] = dict(
    src='checks/c17_lookup.cpp',
    runs=[dict(cfg='asan')],
    technique='small-scope exhaustive enumeration of archives x query variants and of directory layouts x queries, executed on the real lookup and resource-manager code against reference-encoded archives',
    level_text='Archives: every reference-encoded VOL over all member subsets of size 0..3 of an 11-name pool (with 0..2 unused slots) and every CLM over 1..2 of 7 track names, each also with its members in reverse and rotated (non-sorted) order; queries = each member name as is / upper / lower / swapped case, each with and without a leading ./, near misses (one character more or less), absent and empty names: Contains(q) iff GetIndex(q) does not throw iff a member equals q up to case and the prefix; GetName(GetIndex(q)) names that member; GetIndex(GetName(i)) == i; indices count, count+1, SIZE_MAX, SIZE_MAX-1, 2^32, 2^32+count-1 are refused by GetName, GetSize, OpenStream, ExtractFile (and GetCompressionCode). Resource manager: 512 layouts (thorough 1024) in which each of a.txt, B.TXT, c.map, s is independently loose / in v1.vol / in v2.vol with distinct contents everywhere, next to a sub-directory, directories named dir.vol and dir.clm and a CLM archive, a quarter of them in a root directory whose own name contains the query patterns. Every query name x 8 case and ./ variants x accessArchives: the loose file under exactly that spelling wins, else the member of the first archive in GetArchiveFilenames() order that contains the name case-blindly, else nothing; rooted paths are refused; directory names give nothing. Type listings (8 extensions) and pattern listings (6 patterns) are checked by a sandwich oracle (every case-exact match present; nothing that fails a case-insensitive match, no directories, no members without archive access; in type listings no two entries equal ignoring case); FindContainingArchivePath names an archive that contains the name, or is empty iff none does.',
    level_note='Trusts ref_vol/ref_clm encoders, g++/ASan/UBSan, tmpfs directory iteration. The archive order is taken from GetArchiveFilenames() (directory iteration order is not specified).',
    rule='state = one archive or one directory layout; transitions = lookup / resource-manager calls judged',
    bounds={'quick': '232 VOL + 28 CLM archives; 512 layouts', 'thorough': '1024 layouts'},
    must_hit={'any': ['archive/lookups-found', 'archive/lookups-absent', 'archive/out-of-range-indices', 'archive/unsorted-archives', 'resources/loose-first', 'resources/from-archive', 'resources/expected-nothing', 'resources/rooted-paths', 'resources/directory-names', 'resources/type-listings', 'resources/pattern-listings', 'resources/containing-archive-found']},
    assumptions=['the file system is case sensitive (Linux): a loose file is found only under its exact spelling'],
)

CHECKS['C20'] = dict(
    src='checks/c20_limits.cpp',
    runs=[dict(cfg='asan')],
    technique='exhaustive enumeration of every on-disk field limit, at and just beyond, on the real writers (sparse files for the 2^31 / 2^32 cases)',
    level_text='VOL: member sizes 2^31, 2^32-1, 2^32, 2^32+5 and a 2^31+1 member between small ones (sparse files), and member sets whose accumulated block offset crosses 2^32 (three x (2^31-1); 2^31-1 + 2^31-1 + 100; 3 + 2^31-1 + 2^31-1 + 1) must be refused with the destination absent afterwards, or - when it pre-existed with sentinel content - byte-identical; sets well inside the limits are accepted with exact size fields (thorough: a member of exactly 2^31-1 bytes is really packed). CLM: track sets whose data offset + length crosses 2^32 (four shapes) are refused; base names of 1, 7 and 8 characters are accepted with the exact name field, 9, 10, 12, 13 and 16 characters refused, each with seven extension spellings (.wav, .WAV, none, .w, .wv, .wave, a bare dot). Size prefixes: containers of max-1, max, max+1, max+2 elements for u8, i8, u16, i16 prefixes (vector and string): refusal iff too large, nothing written on refusal, exact field value otherwise. Map container sizes 2^32-2, 2^32-1 accepted, 2^32, 2^32+1, 2^33-1, 2^64-1 refused. ArtFile::Write with every layer-list length 0..130 x every 7-bit count 0..127 x optional flag (33536 frames): accepted iff the list length equals the count, and then re-read with that many layers; list lengths equal to the count modulo 128, 256, 384, 512, 1024, 65536 are refused as well.',
    level_note='Trusts tmpfs sparse files, g++/ASan/UBSan. 2^32-element containers cannot be built: the map guard function is called directly (private, via -fno-access-control). CLM refusals may happen after the destination was created (the property requires refusal-before-creation only for volumes).',
    rule='state = one limit probe; transitions = writer calls judged',
    bounds={'quick': '9 VOL size sets, 4 CLM offset sets, 10 names, 32 prefix probes, 8 map sizes, 33536 frames', 'thorough': 'adds the 2 GiB accept case'},
    must_hit={'any': ['vol/beyond-the-limit', 'vol/at-the-limit-accepted', 'clm/offset-beyond-32-bits', 'clm/name-of-8', 'clm/name-of-9-or-more', 'prefix/beyond-the-limit', 'prefix/at-the-limit', 'map/beyond-the-limit', 'map/at-the-limit', 'frames/mismatch', 'frames/mismatch-modulo-field-width', 'frames/match']},
    assumptions=['the VOL block length field has 31 bits, so the largest member is 2^31-1 bytes'],
)

CHECKS['C18'] = dict(
    src='checks/c18_determinism.cpp',
    runs=[dict(cfg='plain')],
    prebuild=['fill0', 'fillfe', 'fillaa', 'vg'],
    technique='environment enumeration: the same scenario set executed in fresh processes over the product of heap fill x stack fill (three -ftrivial-auto-var-init builds) x ASLR x allocation pre-shift, plus a valgrind memcheck definedness run',
    level_text='About 60 outputs in 45 groups (VOL creation from 5 list orders / path spellings, empty and 4-member volumes, listing and extraction, LZH extraction, CLM creation in two orders, empty CLM, extracted WAV, default-constructed Map written as a temporary and as a declared object, three reference maps parsed / written / edited, saved games parsed, factory bitmaps of every depth incl. their header objects, partial-palette bitmap rewritten and flipped, custom tileset from both orientations and reloaded, ArtFile written as a temporary / declared / as the suite fixture builds it, a PRT file parsed and rewritten, DynamicMemoryWriter zero fill, FileWriter) are produced in fresh processes in 12 (thorough: all 36) environments = heap fill {0x00,0xAA,0xFF} x fresh-stack fill {0x00 (gcc zero), 0xFE (gcc pattern), 0xAA (clang pattern)} x address-space randomisation {on,off} x allocation pre-shift {0, 1 page}. Every output must be byte-identical to the baseline environment, identical within its group of logically equal inputs, and equal to the reference model where one exists. One run under valgrind memcheck (heap left unfilled) with VALGRIND_CHECK_MEM_IS_DEFINED on every output buffer and syscall parameter checks: zero definedness reports.',
    level_note='Two address-space layouts are compared, not all; a value that depended on an address in a way both layouts agree on would be missed. Memcheck V-bits stand for all garbage values at once; the concrete environments cross-check that what memcheck calls defined is also deterministic. Trusts valgrind 3.19, gcc/clang -ftrivial-auto-var-init, setarch -R.',
    rule='state = one execution environment; transitions = scenario-set executions; outcomes = distinct (output, digest) pairs',
    bounds={'quick': '12 environments + valgrind', 'thorough': '36 environments + valgrind'},
    must_hit={'any': ['environments/concrete', 'environments/valgrind', 'outputs/compared', 'outputs/with-reference-prediction']},
    assumptions=['inputs of every scenario are fully initialised by the harness'],
)

NOT_APPLICABLE = {}
