// Reference LZHUF-style codec for the LZH members of VOL archives: decoder, token expander and encoder.
// Written from the format description (DESIGN.md appendix A), on top of ref_huff; shares no code with
// src/Archive/HuffLZ.*, BitStreamReader.* or AdaptiveHuffmanTree.*.
#pragma once
#include "ref_huff.hpp"
#include <cstdint>
#include <string>
#include <vector>

namespace ref {

struct LzhTables {
	uint8_t dCode[256];   // upper six bits of the distance, indexed by the first eight bits read
	uint8_t dLen[256];    // total number of bits of the prefix code that selected dCode
	LzhTables()
	{
		// LZHUF's literal tables: run lengths 32/16x3/8x8/4x12/2x24/1x16, code lengths 3,4,5,6,7,8
		static const int reps[6] = { 32, 16, 8, 4, 2, 1 };
		static const int counts[6] = { 1, 3, 8, 12, 24, 16 };
		int i = 0, code = 0;
		for (int cls = 0; cls < 6; ++cls)
			for (int k = 0; k < counts[cls]; ++k, ++code)
				for (int r = 0; r < reps[cls]; ++r, ++i) { dCode[i] = uint8_t(code); dLen[i] = uint8_t(3 + cls); }
	}
};
inline const LzhTables& lzhTables() { static LzhTables t; return t; }

const int kLzhSymbols = 314;
const int kLzhWindow = 4096;
const uint32_t kLzhMaxCodes = 65535 - kLzhSymbols;   // 65221: updates the 16-bit counters can represent

struct LzhDecoded {
	std::vector<uint8_t> out;
	uint32_t codes = 0;               // codes decoded
	bool capacityExceeded = false;    // the stream needs more than kLzhMaxCodes codes
	std::vector<uint32_t> outLenAfterCode;   // optional: output length after each code (filled when wanted)
};

class BitSource {
public:
	BitSource(const uint8_t* p, std::size_t n) : p(p), bits(uint64_t(n) * 8) {}
	bool bit()
	{
		if (pos >= bits) return false;          // bits past the end read 0 and consume nothing
		bool b = (p[pos >> 3] >> (7 - (pos & 7))) & 1;
		++pos;
		return b;
	}
	bool exhausted() const { return pos >= bits; }
	uint64_t position() const { return pos; }
private:
	const uint8_t* p; uint64_t bits; uint64_t pos = 0;
};

inline LzhDecoded lzhDecode(const uint8_t* data, std::size_t n, bool wantLens = false, uint32_t maxCodes = kLzhMaxCodes)
{
	LzhDecoded d;
	HuffTree tree(kLzhSymbols);
	BitSource in(data, n);
	const LzhTables& T = lzhTables();
	std::vector<uint8_t> window(kLzhWindow, 0x20);
	unsigned w = 0;
	auto emit = [&](uint8_t b) { d.out.push_back(b); window[w] = b; w = (w + 1) % kLzhWindow; };
	for (;;) {
		if (d.codes == maxCodes) { d.capacityExceeded = true; break; }   // the next code cannot be counted any more
		int sym = tree.decode([&] { return in.bit(); });
		tree.update(sym);
		++d.codes;
		if (sym < 256) emit(uint8_t(sym));
		else {
			int len = sym - 253;
			unsigned i = 0;
			for (int k = 0; k < 8; ++k) i = (i << 1) | (in.bit() ? 1u : 0u);
			unsigned upper = T.dCode[i];
			for (int k = T.dLen[i] - 2; k > 0; --k) i = (i << 1) | (in.bit() ? 1u : 0u);
			unsigned dist = ((upper << 6) | (i & 0x3F)) + 1;      // 1..4096
			unsigned from = (w + kLzhWindow - dist) % kLzhWindow;
			for (int k = 0; k < len; ++k) { emit(window[from]); from = (from + 1) % kLzhWindow; }
		}
		if (wantLens) d.outLenAfterCode.push_back(uint32_t(d.out.size()));
		if (in.exhausted()) break;      // stop after the first code that consumed the last input bit
	}
	return d;
}

// ---- tokens, expander, encoder ----
struct LzhToken { bool match; uint8_t lit; int len; int dist; };
inline LzhToken Lit(uint8_t b) { return LzhToken{ false, b, 0, 0 }; }
inline LzhToken Match(int len, int dist) { return LzhToken{ true, 0, len, dist }; }

// what the token sequence means (plain LZ77 over a space-filled history), independent of any bit-level detail
inline std::vector<uint8_t> lzhExpand(const std::vector<LzhToken>& toks)
{
	std::vector<uint8_t> out;
	for (const auto& t : toks) {
		if (!t.match) { out.push_back(t.lit); continue; }
		for (int k = 0; k < t.len; ++k) {
			int64_t src = int64_t(out.size()) - t.dist;
			out.push_back(src < 0 ? 0x20 : out[std::size_t(src)]);
		}
	}
	return out;
}

class BitSink {
public:
	void bit(bool b) { if ((n & 7) == 0) bytes.push_back(0); if (b) bytes.back() |= uint8_t(0x80 >> (n & 7)); ++n; }
	void bits(unsigned v, int count) { for (int k = count - 1; k >= 0; --k) bit((v >> k) & 1); }
	std::vector<uint8_t> bytes; uint64_t n = 0;
};

inline std::vector<uint8_t> lzhEncode(const std::vector<LzhToken>& toks, uint64_t* bitCount = nullptr)
{
	HuffTree tree(kLzhSymbols);
	BitSink out;
	const LzhTables& T = lzhTables();
	for (const auto& t : toks) {
		int sym = t.match ? 253 + t.len : t.lit;
		for (char c : tree.path(sym)) out.bit(c == '1');
		tree.update(sym);
		if (t.match) {
			unsigned p = unsigned(t.dist - 1), upper = p >> 6;
			int first = 0; while (T.dCode[first] != upper) ++first;          // first table slot of this prefix code
			int plen = T.dLen[first];
			out.bits(unsigned(first) >> (8 - plen), plen);                  // the prefix code itself
			out.bits(p & 0x3F, 6);                                          // six low bits
		}
	}
	if (bitCount) *bitCount = out.n;
	return out.bytes;
}

} // namespace ref
