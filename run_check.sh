#!/bin/sh
# usage: run_check.sh <ID> quick|thorough      |      run_check.sh <ID> --replay <file>
cd "$(dirname "$0")" || exit 2
exec python3 mc/run.py "$@"
