#!/bin/sh
# usage: run_all.sh quick|thorough  - runs every registered check once, prints one summary line per check
cd "$(dirname "$0")" || exit 2
tier=${1:-quick}
rc=0
for id in $(python3 -c "
import sys; sys.path.insert(0,'mc')
from registry import CHECKS
print(' '.join(sorted(CHECKS)))"); do
  out=$(./run_check.sh $id $tier 2>&1); r=$?
  echo "$out" | grep -E "^($id $tier:|VIOLATION|KNOWN-FINDING|HARNESS)" | head -8
  [ $r -ne 0 ] && { echo "   -> $id exit $r"; rc=1; }
done
exit $rc
