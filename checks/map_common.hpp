// Shared by the map checks (C06, C07, C16): canonical dump of a Map, generation of reference maps from dimension vectors.
#pragma once
#include "mc/mc.hpp"
#include "ref/ref_map.hpp"
#include "Map/Map.h"
#include "Map/MapHeader.h"
#include "Stream/MemoryReader.h"
#include "Stream/DynamicMemoryWriter.h"
#include <cstring>
#include <memory>
#include <string>
#include <vector>

namespace mapc {
using namespace OP2Utility;

// every field, public and private; two maps are "equal in every field" iff their dumps are equal
inline std::string dump(const Map& m)
{
	std::vector<uint8_t> v;
	mc::put32(v, m.GetVersionTag()); v.push_back(m.IsSavedGame() ? 1 : 0); mc::put32(v, m.WidthInTiles()); mc::put32(v, m.HeightInTiles());   // the four private fields, through their public getters
	mc::put32(v, uint32_t(m.tiles.size()));
	if (!m.tiles.empty()) { const uint8_t* p = reinterpret_cast<const uint8_t*>(m.tiles.data()); v.insert(v.end(), p, p + m.tiles.size() * 4); }
	mc::put32(v, uint32_t(m.clipRect.x1)); mc::put32(v, uint32_t(m.clipRect.y1)); mc::put32(v, uint32_t(m.clipRect.x2)); mc::put32(v, uint32_t(m.clipRect.y2));
	mc::put32(v, uint32_t(m.tilesetSources.size()));
	for (auto& s : m.tilesetSources) { mc::put32(v, uint32_t(s.tilesetFilename.size())); mc::putStr(v, s.tilesetFilename); mc::put32(v, s.numTiles); }
	mc::put32(v, uint32_t(m.tileMappings.size()));
	if (!m.tileMappings.empty()) { const uint8_t* p = reinterpret_cast<const uint8_t*>(m.tileMappings.data()); v.insert(v.end(), p, p + m.tileMappings.size() * 8); }
	mc::put32(v, uint32_t(m.terrainTypes.size()));
	if (!m.terrainTypes.empty()) { const uint8_t* p = reinterpret_cast<const uint8_t*>(m.terrainTypes.data()); v.insert(v.end(), p, p + m.terrainTypes.size() * 264); }
	mc::put32(v, uint32_t(m.tileGroups.size()));
	for (auto& g : m.tileGroups) { mc::put32(v, g.tileWidth); mc::put32(v, g.tileHeight); mc::put32(v, uint32_t(g.mappingIndices.size())); for (auto x : g.mappingIndices) mc::put32(v, x); mc::put32(v, uint32_t(g.name.size())); mc::putStr(v, g.name); }
	return std::string(v.begin(), v.end());
}

// the fields a saved game shares with a map file (no tile groups)
inline std::string dumpShared(const Map& m)
{
	Map c = m; c.tileGroups.clear();
	return dump(c).substr(5);   // without version tag and saved-game flag: C07 names dimensions, tiles, clip rectangle, sources, mappings, terrain types

}

// does the parsed map hold exactly what the reference map describes? returns "" or the first difference
inline std::string compare(const Map& m, const ref::RMap& r, bool withGroups = true)
{
	if (withGroups && m.GetVersionTag() != r.tag) return "version tag " + std::to_string(m.GetVersionTag());
	if (withGroups && m.IsSavedGame() != (r.savedGame != 0)) return "saved-game flag";   // (the shared comparison of C07 leaves tag and flag out)
	if (m.WidthInTiles() != r.width()) return "width " + std::to_string(m.WidthInTiles());
	if (m.HeightInTiles() != r.height) return "height " + std::to_string(m.HeightInTiles());
	if (m.tiles.size() != r.tiles.size() || m.TileCount() != r.tiles.size()) return "tile count " + std::to_string(m.tiles.size());
	if (!r.tiles.empty() && std::memcmp(m.tiles.data(), r.tiles.data(), r.tiles.size() * 4) != 0) return "tile words";
	if (m.clipRect.x1 != r.clip[0] || m.clipRect.y1 != r.clip[1] || m.clipRect.x2 != r.clip[2] || m.clipRect.y2 != r.clip[3]) return "clip rectangle";
	if (m.tilesetSources.size() != r.sources.size()) return "tileset source count";
	for (std::size_t i = 0; i < r.sources.size(); ++i) {
		if (m.tilesetSources[i].tilesetFilename != r.sources[i].name) return "tileset source name " + std::to_string(i);
		if (!r.sources[i].name.empty() && m.tilesetSources[i].numTiles != r.sources[i].numTiles) return "tileset source tile count " + std::to_string(i);
	}
	if (m.tileMappings.size() != r.mappings.size()) return "mapping count";
	for (std::size_t i = 0; i < r.mappings.size(); ++i) {
		const auto& t = m.tileMappings[i];
		if (t.tilesetIndex != r.mappings[i][0] || t.tileGraphicIndex != r.mappings[i][1] || t.animationCount != r.mappings[i][2] || t.animationDelay != r.mappings[i][3]) return "mapping " + std::to_string(i);
	}
	if (m.terrainTypes.size() != r.terrain.size()) return "terrain count";
	for (std::size_t i = 0; i < r.terrain.size(); ++i) if (std::memcmp(&m.terrainTypes[i], r.terrain[i].data(), 264) != 0) return "terrain type " + std::to_string(i);
	if (!withGroups) return "";
	if (m.tileGroups.size() != r.groups.size()) return "tile group count";
	for (std::size_t i = 0; i < r.groups.size(); ++i) {
		const auto& g = m.tileGroups[i];
		if (g.tileWidth != r.groups[i].w || g.tileHeight != r.groups[i].h || g.mappingIndices != r.groups[i].idx || g.name != r.groups[i].name) return "tile group " + std::to_string(i);
	}
	return "";
}

// ---- reference maps from a dimension vector ----
const int kDims = 12;
inline const std::vector<int>& dimSizes() { static std::vector<int> d = { 6, 4, 3, 5, 4, 3, 9, 3, 3, 7, 3, 2 }; return d; }
inline const char* dimName(int d) { static const char* n[] = { "lgWidth", "height", "tileFill", "savedFlag", "tag", "clip", "sources", "mappings", "terrain", "groups", "undocumented", "trailing" }; return n[d]; }

inline ref::RMap makeMap(const std::vector<int>& c)
{
	ref::RMap m;
	static const uint32_t lg[] = { 5, 0, 1, 2, 6, 10 };
	static const uint32_t hs[] = { 2, 0, 1, 3 };
	static const uint32_t sv[] = { 0, 1, 2, 0x100, 0xFFFFFFFFu };
	static const uint32_t tg[] = { 0x1011, 0x1010, 0x7FFFFFFFu, 0xFFFFFFFFu };
	m.lgWidth = lg[c[0]]; m.height = hs[c[1]];
	m.fillTiles(c[2]);
	m.savedGame = sv[c[3]];
	m.setTag(tg[c[4]]);
	switch (c[5]) { case 0: m.clip[0] = -1; m.clip[1] = 3; m.clip[2] = 0x7FFFFFFF; m.clip[3] = 17; break; case 1: break; default: m.clip[0] = int32_t(0x80000000u); m.clip[1] = 0x7FFFFFFF; m.clip[2] = int32_t(0x80000000u); m.clip[3] = -1; }
	switch (c[6]) {
	case 0: m.sources = { { "well0001", 5 } }; break;
	case 1: break;
	case 2: m.sources = { { "", 0 } }; break;
	case 3: m.sources = { { "a", 0 } }; break;
	case 4: m.sources = { { "", 0 }, { "well0001", 5 }, { "", 0 } }; break;
	case 5: m.sources = { { "a", 5 }, { "b2", 0 }, { "", 0 } }; break;
	case 6: m.sources = { { "well0000", 0xFFFFFFFFu }, { "12345678", 1 }, { "x", 2 }, { "", 0 }, { "well0002", 7 } }; break;
	case 7: m.sources = { { "", 0 }, { "w1", 1 }, { "w2", 2 }, { "w3", 3 } }; break;                                       // an empty slot in front of several used ones
	default: m.sources = { { "w1", 1 }, { "", 0 }, { "w2", 2 }, { "", 0 }, { "w3", 3 }, { "w4", 4 }, { "", 0 } }; break;    // empty slots in between and at the end
	}
	for (int i = 0; i < (c[7] == 0 ? 2 : c[7] == 1 ? 0 : 1); ++i) m.mappings.push_back({ uint16_t(i), uint16_t(100 + i), uint16_t(0xFFFF - i), uint16_t(7 * i) });
	for (int i = 0; i < (c[8] == 0 ? 1 : c[8] == 1 ? 0 : 2); ++i) { std::array<uint8_t, 264> t; for (int k = 0; k < 264; ++k) t[k] = uint8_t(k * 3 + i * 17 + 1); m.terrain.push_back(t); }
	auto G = [](uint32_t w, uint32_t h, const std::string& n) { ref::RGroup g; g.w = w; g.h = h; g.name = n; for (uint32_t i = 0; i < w * h; ++i) g.idx.push_back(i * 5 + w); return g; };
	switch (c[9]) {
	case 0: m.groups = { G(1, 1, "g") }; break;
	case 1: break;
	case 2: m.groups = { G(0, 0, "") }; break;
	case 3: m.groups = { G(0, 3, "g") }; break;
	case 4: m.groups = { G(2, 3, ""), G(1, 1, "g") }; break;
	case 5: m.groups = { G(2, 3, "g"), G(0, 0, ""), G(1, 1, "") }; break;
	default: m.groups = { G(3, 0, "rock"), G(1, 2, "a longer tile group name") }; break;
	}
	m.undocumented = c[10] == 0 ? (m.groups.empty() ? 0 : uint32_t(m.groups.size() - 1)) : c[10] == 1 ? 0 : 7;
	if (c[11]) m.trailing = { 0xDE, 0xAD, 0xBE };
	// with the default tile fill every tile names an entry of the mapping table (bits 5..15 of a tile word) where the table is
	// not empty; the other fills (all zero, all ones) and the empty table keep tiles that name entries which are not there
	if (c[2] == 0 && !m.mappings.empty()) for (auto& t : m.tiles) { uint32_t idx = (t >> 5) & 0x7FFu; t = (t & ~(0x7FFu << 5)) | (uint32_t(idx % m.mappings.size()) << 5); }
	return m;
}

inline std::string describe(const std::vector<int>& c)
{
	std::string s;
	for (int d = 0; d < kDims; ++d) if (c[d] != 0) s += std::string(dimName(d)) + "#" + std::to_string(c[d]) + " ";
	return s.empty() ? "default map (32x2, one tileset source, 2 mappings, 1 terrain type, 1 tile group)" : s;
}

inline Map readMap(const std::vector<uint8_t>& bytes)
{
	std::unique_ptr<uint8_t[]> p(new uint8_t[bytes.size() ? bytes.size() : 1]);   // exact-size block: an over-read is a sanitizer report
	std::memcpy(p.get(), bytes.data(), bytes.size());
	Stream::MemoryReader r(p.get(), bytes.size());
	return Map::ReadMap(r);
}

inline std::vector<uint8_t> writeMap(const Map& m)
{
	Stream::DynamicMemoryWriter w;
	m.Write(w);
	auto r = w.GetReader();
	std::vector<uint8_t> v(std::size_t(r.Length()));
	r.Read(v.data(), v.size());
	return v;
}

} // namespace mapc
