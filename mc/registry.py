"""Per-property registry: harness source, build configurations, bounds text for the evidence file."""

CHECKS = {
    'C12': dict(
        technique='explicit-state reachability (BFS to fixpoint) over the real reader objects in lock-step with a reference cursor',
        level_text='Every operation history of any length over a boundary-valued alphabet (about 330 operation instances per state: Read/ReadPartial/Peek/Seek*/typed/prefixed/string/Slice with arguments 0,1,rem-1,rem,rem+1,len,2^31,2^32,2^63,2^64-pos,2^64-1,...) is covered because the reachable product state graph (real reader state x reference position) is explored to a fixpoint for 10 sources x 5 backends; each edge compares returned bytes, counts, Position(), Length() and error/no error with the reference, under ASan+UBSan with exact-size destination buffers.',
        level_note='Trusts g++/libstdc++/ASan, tmpfs files, and the 60-line reference cursor in the harness. Values outside the boundary sets and sources longer than 10 bytes are not explored. Weaker reading: after a rejected size-prefixed or string read the cursor may be at the old position or past the prefix/scanned data.',
        src='checks/c12_readers.cpp',
        runs=[dict(cfg='asan')],
        rule='explicit-state BFS to a fixpoint over the product (real reader, reference cursor); a case = one (source, backend) pair; '
             'a state = reader private state + model position; every operation of the boundary-valued alphabet is applied in every reachable state',
        bounds={'quick': '10 sources (len 0..10) x 5 backends (memory, memory slice, file slice, slice of slice, slice-at-position); ~330 op instances per state; fixpoint',
                'thorough': 'same as quick (the state graphs are small and explored to a fixpoint at both tiers)'},
        must_hit={'any': ['read/in-bounds', 'read/out-of-bounds', 'read/wraps-64-bit', 'readpartial/short', 'readpartial/full', 'peek/in-bounds',
                          'peek/out-of-bounds', 'seek/in-bounds', 'seek/out-of-bounds', 'typed/prefixed-ok', 'typed/prefixed-reject',
                          'typed/cstr-ok', 'typed/cstr-reject', 'slice/contained', 'slice/not-contained', 'slice/wraps-64-bit']},
        assumptions=['x86-64 little endian; harness reads private cursor fields via -fno-access-control for state keys only',
                     'argument values outside the boundary sets are not explored'],
    ),
}

NOT_APPLICABLE = {}
